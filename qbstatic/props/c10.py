"""C10 -- ON ERROR / RESUME / RESUME NEXT: structural necessary conditions."""
import ast

from .. import pat, registries as R
from ..astutil import dotted, const, unparse, walk_shallow
from ..callgraph import CallGraph
from ..cfg import build_cfg, repo_noreturn
from ..model import AnalysisError
from . import c07

TRAPPED_ADDR_EXEMPT = {
    'TrapCode.KEYBOARD_INTERRUPT':
        'an interrupt request is not a run-time error of a statement; C10 '
        'quantifies over errors raised by executing instructions',
}


def trapped_addr(ctx):
    repo = ctx.repo
    tick = repo.func('qvm.cpu', 'QvmCpu.tick')
    rule = 'C10.failing-address-recorded'
    ctx.rule(rule, "each of tick()'s own calls of _trap for an instruction "
             "error is dominated by an assignment of self.trapped_addr on "
             "that path (RESUME/RESUME NEXT locate the statement from it)")
    cfg = build_cfg(tick.node, repo_noreturn)
    sites = []
    for n in cfg.nodes:
        if n.kind != 'stmt':
            continue
        for c in ast.walk(n.ast):
            if isinstance(c, ast.Call) and dotted(c.func) == 'self._trap':
                sites.append((n, c))
    if len(sites) < 2:
        raise AnalysisError('anchor vanished: _trap calls in tick')

    def assigns(x):
        return x.kind == 'stmt' and isinstance(x.ast, ast.Assign) and any(
            dotted(t) == 'self.trapped_addr' for t in x.ast.targets)
    for n, c in sites:
        arg = unparse(c.args[0]) if c.args else '?'
        construct = f'{tick.file}:QvmCpu.tick:_trap({arg})'
        ok = cfg.must_pass(n, assigns)
        ctx.instance(rule, construct, sample={'dominated': ok})
        if arg in TRAPPED_ADDR_EXEMPT:
            if not ok:
                ctx.observe(f'{construct}: trapped_addr not set -- exempt: '
                            f'{TRAPPED_ADDR_EXEMPT[arg]}')
            continue
        if not ok:
            ctx.finding(rule, construct,
                        f'tick() dispatches _trap({arg}) without recording '
                        f'self.trapped_addr on this path (the sibling '
                        f'`except Trapped` arm records it): RESUME / RESUME '
                        f'NEXT then look up a stale address', tick.file,
                        n.line)
    # the recorded value is the address of the failing instruction
    for x in cfg.nodes:
        if assigns(x):
            construct = f'{tick.file}:QvmCpu.tick:trapped_addr='
            ctx.instance(rule, construct, sample={'value':
                                                  unparse(x.ast.value)})
            if unparse(x.ast.value) not in ('self.prev_pc', 'instr_addr'):
                ctx.finding(rule, construct,
                            f'trapped_addr is set to {unparse(x.ast.value)}, '
                            f'not the address of the failing instruction',
                            tick.file, x.line)
    # prev_pc is the fetch address
    ok = any(isinstance(s, ast.Assign) and
             dotted(s.targets[0]) == 'self.prev_pc' and
             unparse(s.value) == 'self.pc'
             for s in walk_shallow(tick.node))
    ctx.instance(rule, f'{tick.file}:QvmCpu.tick:prev_pc')
    if not ok:
        ctx.finding(rule, f'{tick.file}:QvmCpu.tick:prev_pc',
                    'tick() does not record prev_pc = pc before fetching',
                    tick.file, tick.line)
    # instruction handlers signal errors by raising (trap()), which records
    # the address and abandons the instruction; the dispatcher _trap()
    # returns, so a handler that calls it goes on executing with the
    # operands already popped and leaves trapped_addr stale
    rule_h = 'C10.handlers-signal-errors-by-raising'
    ctx.rule(rule_h, 'no instruction handler (_exec_*, generated families '
             'included) calls the non-raising dispatcher self._trap; errors '
             'go through self.trap, which records trapped_addr and raises')
    handlers, n_direct, n_gen = R.cpu_handlers(repo)
    n_h = 0
    for name, hf in sorted(handlers.items()):
        n_h += 1
        for c in ast.walk(hf.node):
            if isinstance(c, ast.Call) and dotted(c.func) == 'self._trap':
                arg = unparse(c.args[0]) if c.args else '?'
                construct = f'{tick.file}:QvmCpu.{name}:_trap({arg})'
                ctx.instance(rule_h, construct)
                ctx.finding(rule_h, construct,
                            f'{name} reports {arg} through self._trap(), '
                            f'which dispatches and returns: trapped_addr '
                            f'is not recorded and the handler keeps '
                            f'executing after the error', tick.file,
                            c.lineno)
    ctx.instance(rule_h, f'{tick.file}:QvmCpu:_exec_*',
                 sample={'handlers_examined': n_h})
    ctx.floor('instruction handlers examined for _trap calls', n_h, 100)
    trap = repo.func('qvm.cpu', 'QvmCpu.trap')
    ok = any(isinstance(s, ast.Assign) and
             dotted(s.targets[0]) == 'self.trapped_addr' and
             unparse(s.value) == 'self.prev_pc'
             for s in walk_shallow(trap.node))
    ctx.instance(rule, f'{trap.file}:QvmCpu.trap')
    if not ok:
        ctx.finding(rule, f'{trap.file}:QvmCpu.trap',
                    'trap() does not record trapped_addr = prev_pc',
                    trap.file, trap.line)


def dispatch(ctx):
    repo = ctx.repo
    _trap = repo.func('qvm.cpu', 'QvmCpu._trap')
    rule = 'C10.dispatch-shape'
    ctx.rule(rule, '_trap dispatches to the handler only when a target is '
             'armed and no handler is active: RESUME-NEXT mode continues '
             'after the failing statement, otherwise pc := target and the '
             'handler becomes active; the default report is reached only '
             'when nothing is armed')
    cfg = build_cfg(_trap.node, repo_noreturn)
    set_pc = [n for n in cfg.nodes if n.kind == 'stmt' and
              isinstance(n.ast, ast.Assign) and
              dotted(n.ast.targets[0]) == 'self.pc']
    set_active = [n for n in cfg.nodes if n.kind == 'stmt' and
                  isinstance(n.ast, ast.Assign) and
                  dotted(n.ast.targets[0]) == 'self.error_handler_active']
    halts = [n for n in cfg.nodes if n.kind == 'stmt' and
             isinstance(n.ast, ast.Assign) and
             dotted(n.ast.targets[0]) == 'self.halted']
    resn = [n for n in cfg.nodes if n.kind == 'stmt' and any(
        isinstance(c, ast.Call) and dotted(c.func) == 'self._exec_errresn'
        for c in ast.walk(n.ast))]
    construct = f'{_trap.file}:QvmCpu._trap'
    ctx.instance(rule, construct,
                 sample={'set_pc': len(set_pc), 'set_active':
                         len(set_active), 'halts': len(halts),
                         'resume_next_calls': len(resn)})
    if not set_pc or not set_active or not halts or not resn:
        ctx.finding(rule, construct + ':missing',
                    f'_trap lacks a dispatch element: pc assignment '
                    f'{len(set_pc)}, handler-active assignment '
                    f'{len(set_active)}, halt {len(halts)}, resume-next '
                    f'call {len(resn)}', _trap.file, _trap.line)
        return

    def cond_texts(n):
        return [(unparse(t.ast.test), lab) for t, lab in cfg.conditions(n)]
    for n in set_pc:
        cs = cond_texts(n)
        ctx.instance(rule, construct + ':pc=target', sample={'conds': cs})
        if unparse(n.ast.value) != 'self.trap_target':
            ctx.finding(rule, construct + ':pc-value',
                        f'handler dispatch sets pc to '
                        f'{unparse(n.ast.value)}', _trap.file, n.line)
        armed = any('not self.error_handler_active' in t and
                    'self.trap_target is not None' in t and lab == 'true'
                    for t, lab in cs)
        notnext = any("self.trap_target == 'next'" in t and lab == 'false'
                      for t, lab in cs)
        if not armed or not notnext:
            ctx.finding(rule, construct + ':pc-guard',
                        f'handler dispatch is guarded by {cs}; expected '
                        f'"no handler active and a target armed" and "not '
                        f'RESUME NEXT mode"', _trap.file, n.line)
    for n in set_active:
        cs = cond_texts(n)
        ctx.instance(rule, construct + ':active=True')
        if const(n.ast.value) is not True or not any(
                "self.trap_target == 'next'" in t and lab == 'false'
                for t, lab in cs):
            ctx.finding(rule, construct + ':active',
                        'error_handler_active is not set to True exactly on '
                        'the GOTO-handler dispatch path', _trap.file, n.line)
    for n in resn:
        cs = cond_texts(n)
        ctx.instance(rule, construct + ':resume-next')
        if not any("self.trap_target == 'next'" in t and lab == 'true'
                   for t, lab in cs):
            ctx.finding(rule, construct + ':resume-next-guard',
                        'RESUME NEXT continuation is not guarded by '
                        "trap_target == 'next'", _trap.file, n.line)
    for n in halts:
        cs = cond_texts(n)
        ctx.instance(rule, construct + ':halt')
        # halting must be unreachable from the dispatch branch
        for d in set_pc + resn:
            if n in cfg.reachable(d):
                ctx.finding(rule, construct + ':halt-after-dispatch',
                            'a dispatched error still reaches the default '
                            'halt', _trap.file, n.line)


def resume_instrs(ctx):
    repo = ctx.repo
    rule = 'C10.resume-targets'
    ctx.rule(rule, 'RESUME sets pc to the start of the statement containing '
             'trapped_addr and RESUME NEXT to its end; both look the '
             'statement up from self.trapped_addr and both leave handler '
             'mode (error_handler_active := False) so that later errors, '
             'returns and ON ERROR behave normally')
    for name, attr in (('_exec_errres', 'start_offset'),
                       ('_exec_errresn', 'end_offset')):
        f = repo.func('qvm.cpu', f'QvmCpu.{name}')
        construct = f'{f.file}:QvmCpu.{name}'
        pcs = [s for s in walk_shallow(f.node) if isinstance(s, ast.Assign)
               and dotted(s.targets[0]) == 'self.pc']
        lookups = [c for c in ast.walk(f.node) if isinstance(c, ast.Call)
                   and (dotted(c.func) or '').endswith('.find_stmt')]
        ctx.instance(rule, construct,
                     sample={'pc': [unparse(p.value) for p in pcs],
                             'lookup': [unparse(c) for c in lookups]})
        if len(pcs) != 1 or not (
                isinstance(pcs[0].value, ast.Attribute) and
                pcs[0].value.attr == attr and
                isinstance(pcs[0].value.value, ast.Name)):
            ctx.finding(rule, construct + ':pc',
                        f'{name} sets pc to '
                        f'{[unparse(p.value) for p in pcs]}; expected '
                        f'stmt.{attr}', f.file, f.line)
        if not lookups or not all(
                c.args and unparse(c.args[0]) == 'self.trapped_addr'
                for c in lookups):
            ctx.finding(rule, construct + ':lookup',
                        f'{name} does not look the statement up from '
                        f'self.trapped_addr', f.file, f.line)
        cfg = build_cfg(f.node, repo_noreturn)
        resets = [n for n in cfg.nodes if n.kind == 'stmt' and
                  isinstance(n.ast, ast.Assign) and
                  dotted(n.ast.targets[0]) == 'self.error_handler_active'
                  and const(n.ast.value) is False]
        ok = bool(resets) and cfg.must_pass(cfg.exit,
                                            lambda x: x in resets)
        ctx.instance(rule, construct + ':leaves-handler-mode',
                     sample={'resets': len(resets)})
        if not ok:
            ctx.finding(rule, construct + ':leaves-handler-mode',
                        f'{name} does not reset error_handler_active on its '
                        f'normal exit: after the first handled error every '
                        f'later error is reported as fatal and `ret` traps '
                        f'NO_RESUME (set True in _trap, never cleared)',
                        f.file, f.line)


def stack_restoration(ctx):
    repo = ctx.repo
    rule = 'C10.partial-results-discarded'
    ctx.rule(rule, 'the handler-dispatch path (_trap) or the resume '
             'instructions truncate the operand stack to the depth it had '
             'at the start of the failing statement; otherwise partial '
             'results of the failed statement remain')
    fs = [repo.func('qvm.cpu', f'QvmCpu.{n}')
          for n in ('_trap', '_exec_errres', '_exec_errresn')]
    found = False
    for f in fs:
        for s in ast.walk(f.node):
            if isinstance(s, ast.Delete) and any(
                    'self.stack' in unparse(t) for t in s.targets):
                found = True
            if isinstance(s, ast.Assign) and any(
                    'self.stack' in unparse(t) for t in s.targets):
                found = True
            if isinstance(s, ast.Call) and (dotted(s.func) or '') in (
                    'self.stack.clear',):
                found = True
            if isinstance(s, ast.While) and 'self.stack' in unparse(s.test):
                found = True
    construct = 'qvm/cpu.py:QvmCpu._trap+errres+errresn:stack'
    ctx.instance(rule, construct, sample={'truncation_found': found})
    if not found:
        ctx.finding(rule, construct,
                    'neither _trap nor errres/errresn truncates self.stack: '
                    'an error inside a sub-expression leaves its partial '
                    'operands on the operand stack after RESUME NEXT',
                    'qvm/cpu.py', fs[0].line)


def reserved_codes(ctx):
    repo = ctx.repo
    rule = 'C10.reserved-handler-codes-agree'
    ctx.rule(rule, 'gen_on_error, the assembler errhand arm and '
             '_exec_errhand agree on the reserved operands: 0 = ON ERROR '
             'GOTO 0 (off), 1 = ON ERROR RESUME NEXT')
    gens, _ = R.generators(repo)
    g = gens.get('OnErrorStmt')
    if g is None:
        raise AnalysisError('anchor vanished: generator for OnErrorStmt')
    emitted = {}
    for n in ast.walk(g.node):
        if isinstance(n, ast.If):
            t = unparse(n.test)
            for c in n.body:
                for a in ast.walk(c):
                    if isinstance(a, ast.Tuple) and a.elts and \
                            const(a.elts[0]) == 'errhand':
                        emitted[t] = unparse(a.elts[1])
            for c in n.orelse:
                if not isinstance(c, ast.If):
                    for a in ast.walk(c):
                        if isinstance(a, ast.Tuple) and a.elts and \
                                const(a.elts[0]) == 'errhand':
                            emitted['else'] = unparse(a.elts[1])
    construct = f'{g.file}:gen_on_error'
    ctx.instance(rule, construct, sample=emitted)
    want = {'node.resume_next': '1', 'node.goto_label == 0': '0',
            'else': 'node.canonical_goto_label'}
    if emitted != want:
        ctx.finding(rule, construct,
                    f'gen_on_error emits {emitted}; expected {want}',
                    g.file, g.line)
    asm = repo.func('qbee.qvm_codegen', 'QvmCode.assembled')
    reserved = None
    for n in ast.walk(asm.node):
        if isinstance(n, ast.If) and "== 'errhand'" in unparse(n.test):
            for m in ast.walk(n):
                if isinstance(m, ast.Compare) and \
                        isinstance(m.ops[0], ast.In) and \
                        isinstance(m.left, ast.Name) and \
                        isinstance(m.comparators[0], (ast.List,
                                                      ast.Tuple)):
                    reserved = sorted(const(e) for e in
                                      m.comparators[0].elts)
    construct = f'{asm.file}:QvmCode.assembled[errhand]'
    ctx.instance(rule, construct, sample={'unpatched': reserved})
    if reserved != [0, 1]:
        ctx.finding(rule, construct,
                    f'assembler leaves operands {reserved} unpatched; '
                    f'expected [0, 1]', asm.file, asm.line)
    eh = repo.func('qvm.cpu', 'QvmCpu._exec_errhand')
    mapping = {}
    for n in ast.walk(eh.node):
        if isinstance(n, ast.If) and isinstance(n.test, ast.Compare) and \
                dotted(n.test.left) == 'target' and len(n.test.ops) == 1 \
                and isinstance(n.test.ops[0], ast.Eq):
            for s in n.body:
                if isinstance(s, ast.Assign) and \
                        dotted(s.targets[0]) == 'self.trap_target':
                    mapping[const(n.test.comparators[0])] = unparse(s.value)
            for s in n.orelse:
                if isinstance(s, ast.Assign) and \
                        dotted(s.targets[0]) == 'self.trap_target':
                    mapping['else'] = unparse(s.value)
    construct = f'{eh.file}:QvmCpu._exec_errhand'
    ctx.instance(rule, construct, sample=mapping)
    if mapping != {0: 'None', 1: "'next'", 'else': 'target'}:
        ctx.finding(rule, construct,
                    f'_exec_errhand maps {mapping}; expected 0->None, '
                    f"1->'next', other->target", eh.file, eh.line)
    # the 'next' marker compared in _trap
    _trap = repo.func('qvm.cpu', 'QvmCpu._trap')
    ok = pat.has("self.trap_target == 'next'", _trap.node)
    ctx.instance(rule, f'{_trap.file}:QvmCpu._trap:next-marker')
    if not ok:
        ctx.finding(rule, f'{_trap.file}:QvmCpu._trap:next-marker',
                    "_trap does not compare trap_target with 'next'",
                    _trap.file, _trap.line)
    # handler labels are module level
    p = repo.func('qbee.compiler', 'Pass2.process_on_error_pre')
    txt = unparse(p.node)
    ok = 'self.compilation.main_routine.labels' in txt and \
        'LABEL_NOT_DEFINED' in txt
    ctx.instance(rule, f'{p.file}:Pass2.process_on_error_pre')
    if not ok:
        ctx.finding(rule, f'{p.file}:Pass2.process_on_error_pre',
                    'ON ERROR GOTO target is not restricted to module-level '
                    'labels (the dispatcher does not unwind frames)',
                    p.file, p.line)
    # resume emission
    gr = gens.get('ResumeStmt')
    arms = {}
    for n in ast.walk(gr.node):
        if isinstance(n, ast.If) and unparse(n.test) == 'node.next':
            arms['next'] = [const(a.elts[0]) for s in n.body
                            for a in ast.walk(s)
                            if isinstance(a, ast.Tuple) and a.elts]
            arms['plain'] = [const(a.elts[0]) for s in n.orelse
                             for a in ast.walk(s)
                             if isinstance(a, ast.Tuple) and a.elts]
    ctx.instance(rule, f'{gr.file}:gen_resume_stmt', sample=arms)
    if arms != {'next': ['errresn'], 'plain': ['errres']}:
        ctx.finding(rule, f'{gr.file}:gen_resume_stmt',
                    f'RESUME emission is {arms}; expected RESUME NEXT -> '
                    f'errresn, RESUME -> errres', gr.file, gr.line)
    # the parse action: RESUME [NEXT]
    pa = repo.func('qbee.grammar', 'parse_resume_stmt')
    arms = {}
    for n in ast.walk(pa.node):
        if isinstance(n, ast.If):
            t = unparse(n.test)
            for s in n.body:
                if isinstance(s, ast.Return):
                    arms[t] = unparse(s.value)
            for s in n.orelse:
                if isinstance(s, ast.Return):
                    arms['else'] = unparse(s.value)
    ctx.instance(rule, f'{pa.file}:parse_resume_stmt', sample=arms)
    if arms != {'len(toks) == 1': 'ResumeStmt(next=False)',
                'else': 'ResumeStmt(next=True)'}:
        ctx.finding(rule, f'{pa.file}:parse_resume_stmt',
                    f'RESUME parse action maps {arms}', pa.file, pa.line)


def run(ctx):
    ctx.clauses = [
        'failing address recorded on every error path into _trap',
        'dispatch shape of _trap; RESUME -> start, RESUME NEXT -> end; '
        'both leave handler mode',
        'operand stack restored on dispatch/resume',
        'reserved handler operands agree across generator, assembler, CPU',
        'Trapped cannot escape tick (shared with C07)',
        'block start/end records used to find statement boundaries span '
        'the right instructions (shared with C11)',
    ]
    ctx.not_decided = ['statement-granular resumption for concrete '
                       'programs (depends on the debug map at run time); '
                       'ERR values per cause']
    trapped_addr(ctx)
    dispatch(ctx)
    resume_instrs(ctx)
    stack_restoration(ctx)
    reserved_codes(ctx)
    # shared clause with C07: Trapped escaping tick
    cg = CallGraph(ctx.repo, mode='precise')
    saved = ctx.pid
    sub = _Rename(ctx, 'C07.', 'C10.')
    c07.tick_boundary(sub, cg)
    # RESUME finds statement boundaries in the debug map
    from .. import dbgrecords
    dbgrecords.check(ctx, 'C10')
    return ('Structural necessary conditions of ON ERROR/RESUME: CFG '
            'dominance of the trapped_addr assignment before each _trap '
            'call of tick(); path conditions of the dispatch statements in '
            '_trap; pc targets and handler-mode reset of errres/errresn; '
            'presence of an operand-stack truncation; agreement of the '
            'reserved errhand operands between generator, assembler and '
            'CPU. Does not decide statement-granular resumption for '
            'concrete programs.')


class _Rename:
    """Proxy that renames rule prefixes when a rule is shared."""

    def __init__(self, ctx, old, new):
        self._ctx, self._old, self._new = ctx, old, new

    def __getattr__(self, name):
        return getattr(self._ctx, name)

    def _r(self, rule):
        return rule.replace(self._old, self._new, 1)

    def rule(self, rule, text):
        return self._ctx.rule(self._r(rule), text)

    def instance(self, rule, *a, **k):
        return self._ctx.instance(self._r(rule), *a, **k)

    def finding(self, rule, *a, **k):
        return self._ctx.finding(self._r(rule), *a, **k)
