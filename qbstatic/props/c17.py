"""C17 -- PRINT layout (structural clauses)."""
import ast

from .. import registries as R
from .. import proto
from ..astutil import dotted, const, unparse, walk_shallow
from ..model import AnalysisError


def tag_protocol(ctx):
    repo = ctx.repo
    rule = 'C17.tag-protocol'
    ctx.rule(rule, 'tags emitted by gen_print_stmt {0 value, 1 semicolon, '
             '2 comma, 3 format string} are the tags _exec_print handles; '
             'tags 0 and 3 are followed by exactly one value on both sides; '
             'nargs counts exactly the cells pushed')
    gens, _ = R.generators(repo)
    g = gens.get('PrintStmt')
    if g is None:
        raise AnalysisError('anchor vanished: generator for PrintStmt')
    # emitter: walk statement groups; each group = statements of one branch
    groups = []

    def collect(body, cond):
        tags, exprs, incr = [], 0, 0
        for st in body:
            if isinstance(st, (ast.If, ast.For)):
                continue
            for n in ast.walk(st):
                if isinstance(n, ast.Tuple) and n.elts and \
                        const(n.elts[0]) == 'push%' and len(n.elts) == 2 \
                        and isinstance(const(n.elts[1]), int):
                    tags.append(const(n.elts[1]))
                if isinstance(n, ast.Call) and \
                        (dotted(n.func) or '').endswith('gen_code_for_node'):
                    exprs += 1
            if isinstance(st, ast.AugAssign) and \
                    isinstance(st.target, ast.Name):
                incr += const(st.value, 0)
        if tags or exprs or incr:
            groups.append((cond, tags, exprs, incr))
        for st in body:
            if isinstance(st, ast.If):
                collect(st.body, unparse(st.test))
                collect(st.orelse, 'not ' + unparse(st.test))
            elif isinstance(st, ast.For):
                collect(st.body, 'for ' + unparse(st.iter))
    collect(g.node.body, 'top')
    emitted = {}
    for cond, tags, exprs, incr in groups:
        if len(tags) == 1:
            emitted[tags[0]] = (exprs, incr, cond)
    construct = f'{g.file}:gen_print_stmt'
    ctx.instance(rule, construct, sample={'groups': groups})
    want = {3: (1, 2), 0: (1, 2), 1: (0, 1), 2: (0, 1)}
    for tag, (ex, inc) in want.items():
        c2 = f'{construct}[tag{tag}]'
        ctx.instance(rule, c2, sample={'emitted': emitted.get(tag)})
        if tag not in emitted:
            ctx.finding(rule, c2, f'tag {tag} is not emitted by a dedicated '
                        f'branch of gen_print_stmt', g.file, g.line)
            continue
        e, i, cond = emitted[tag]
        if e != ex:
            ctx.finding(rule, c2,
                        f'branch `{cond}` pushes tag {tag} followed by {e} '
                        f'value(s); expected {ex}', g.file, g.line)
    # tag meaning on the emitter side
    sep = {}
    for n in ast.walk(g.node):
        if isinstance(n, ast.If) and isinstance(n.test, ast.Compare) and \
                isinstance(n.test.left, ast.Attribute) and \
                n.test.left.attr == 'sep':
            tg = [const(t.elts[1]) for s in n.body for t in ast.walk(s)
                  if isinstance(t, ast.Tuple) and t.elts and
                  const(t.elts[0]) == 'push%']
            sep[const(n.test.comparators[0])] = tg
    ctx.instance(rule, construct + ':separators', sample=sep)
    if sep != {';': [1], ',': [2]}:
        ctx.finding(rule, construct + ':separators',
                    f'separator tags are {sep}; expected ";"->1, ","->2',
                    g.file, g.line)
    # count pushed last, then io terminal,print
    es = [e for e in proto.emit_sequence(g.node.body, fn=g.node)
          if e[0] in ('push', 'io')]
    tail = es[-2:]
    ctx.instance(rule, construct + ':tail', sample={'tail': tail})
    if [t[:2] for t in tail] != [('push', 'INTEGER'),
                                 ('io', 'terminal')] or \
            tail[0][2] != '<<var>>' or tail[1][2] != 'print':
        ctx.finding(rule, construct + ':tail',
                    f'gen_print_stmt ends with {tail}; expected push% nargs; '
                    f'io terminal,print', g.file, g.line)
    # consumer
    f = repo.func('qvm.machine', 'TerminalDevice._exec_print')
    handled = {}
    loop = None
    for n in ast.walk(f.node):
        if isinstance(n, ast.While):
            loop = n
            break
    if loop is None:
        raise AnalysisError('anchor vanished: tag loop in _exec_print')
    tagvar = proto.int_dispatch_var(loop)
    ivar = None
    if isinstance(loop.test, ast.Compare) and \
            isinstance(loop.test.left, ast.Name):
        ivar = loop.test.left.id
    if tagvar is None or ivar is None:
        raise AnalysisError('anchor vanished: tag/index variables of the '
                            'tag loop')
    for n in ast.walk(loop):
        if isinstance(n, ast.If) and isinstance(n.test, ast.Compare) and \
                dotted(n.test.left) == tagvar and \
                isinstance(const(n.test.comparators[0]), int):
            step = None
            uses_next = False
            target = None
            for s in n.body:
                for m in ast.walk(s):
                    if isinstance(m, ast.AugAssign) and \
                            dotted(m.target) == ivar:
                        step = const(m.value)
                    if isinstance(m, ast.Subscript) and \
                            unparse(m.slice).replace(' ', '') == \
                            f'{ivar}+1':
                        uses_next = True
                    if isinstance(m, ast.Call) and \
                            isinstance(m.func, ast.Attribute) and \
                            m.func.attr == 'append' and m.args:
                        a0 = m.args[0]
                        target = ('next-cell' if isinstance(
                            a0, ast.Subscript) else
                            ('sentinel:' + a0.id if isinstance(
                                a0, ast.Name) else unparse(a0)))
                    if isinstance(m, ast.Assign) and \
                            isinstance(m.targets[0], ast.Name) and \
                            isinstance(m.value, ast.Subscript):
                        target = 'format:' + m.targets[0].id
            handled[const(n.test.comparators[0])] = (step, uses_next, target)
    c3 = f'{f.file}:TerminalDevice._exec_print:tags'
    ctx.instance(rule, c3, sample={'handled': handled})
    want_c = {0: (2, True), 1: (1, False), 2: (1, False), 3: (2, True)}
    for tag, (step, nxt) in want_c.items():
        h = handled.get(tag)
        if h is None:
            ctx.finding(rule, f'{c3}[{tag}]', f'_exec_print does not handle '
                        f'tag {tag}', f.file, f.line)
        elif (h[0], h[1]) != (step, nxt):
            ctx.finding(rule, f'{c3}[{tag}]',
                        f'_exec_print consumes {h[0]} cell(s) for tag {tag} '
                        f'(reads next cell: {h[1]}); the generator pushes '
                        f'{step}', f.file, f.line)
    for tag in handled:
        if tag not in want_c:
            ctx.observe(f'_exec_print handles tag {tag} that the generator '
                        f'never emits')
    # what each tag means on the consumer side: tag 0 appends the next
    # cell, tag 3 binds the format string, tags 1/2 append two distinct
    # sentinels, of which the one for tag 2 (comma) is the one the layout
    # loop pads on and the one for tag 1 (semicolon) adds nothing
    meaning = {k: v[2] for k, v in handled.items()}
    ctx.instance(rule, c3 + ':meaning', sample=meaning)
    s1 = (meaning.get(1) or '')
    s2 = (meaning.get(2) or '')
    pad_on = None
    nothing_on = None
    for n in ast.walk(f.node):
        if isinstance(n, ast.If) and isinstance(n.test, ast.Compare) and \
                isinstance(n.test.ops[0], ast.Eq) and \
                len(n.test.ops) == 1:
            sides = [x.id for x in (n.test.left, n.test.comparators[0])
                     if isinstance(x, ast.Name) and
                     'sentinel:' + x.id in (s1, s2)]
            if len(sides) != 1:
                continue
            sent = 'sentinel:' + sides[0]
            if len(n.body) == 1 and isinstance(n.body[0], ast.Pass):
                nothing_on = sent
            elif any(isinstance(s_, (ast.Assign, ast.AugAssign))
                     for s_ in n.body):
                # the arm that changes the output buffer (pads)
                pad_on = sent
    ok = meaning.get(0) == 'next-cell' and \
        (meaning.get(3) or '').startswith('format:') and \
        s1.startswith('sentinel:') and s2.startswith('sentinel:') and \
        s1 != s2 and pad_on == s2 and nothing_on == s1
    if not ok:
        ctx.finding(rule, c3 + ':meaning',
                    f'tag meanings on the device side are {meaning}; layout '
                    f'pads on {pad_on} and adds nothing on {nothing_on}: '
                    f'expected 0 -> next cell, 3 -> format string, 1 -> the '
                    f'sentinel that adds nothing (semicolon), 2 -> the '
                    f'sentinel that pads (comma)', f.file, f.line)
    # nargs popped first as INTEGER, then nargs untyped cells, reversed
    ps = proto.pop_sequence(f.node.body, fn=f.node)
    ctx.instance(rule, c3 + ':pops', sample={'pops': ps[:3]})
    ok = len(ps) >= 2 and ps[0][:2] == ('pop', 'INTEGER') and \
        ps[1][0] == 'loop' and ps[1][1].startswith('range(<<') and \
        'CellType.INTEGER' in ps[1][1] and \
        [p[:2] for p in ps[1][2]] == [('pop', None)]
    rev = any(isinstance(c, ast.Call) and isinstance(c.func, ast.Attribute)
              and c.func.attr == 'reverse' for c in ast.walk(f.node))
    if not ok or not rev:
        ctx.finding(rule, c3 + ':pops',
                    f'_exec_print pops {ps[:2]} (reversed afterwards: {rev}); '
                    f'expected the INTEGER count, then that many cells, then '
                    f'reverse', f.file, f.line)
    return f


def purity(ctx, f):
    rule = 'C17.text-is-function-of-items-only'
    ctx.rule(rule, '_exec_print reads no machine or device state besides '
             'its popped arguments and writes only through '
             'impl.terminal_print')
    allowed_self = {'self._get_arg_from_stack', 'self._device_error',
                    'self.impl.terminal_print'}
    bad = []
    n_attr = 0
    for n in ast.walk(f.node):
        if isinstance(n, ast.Attribute):
            d = dotted(n)
            if d and d.startswith('self.') and not isinstance(
                    getattr(n, '_parent', None), ast.Attribute):
                n_attr += 1
                if d not in allowed_self:
                    bad.append((d, n.lineno))
        if isinstance(n, ast.Name) and n.id in ('globals', 'os', 'time',
                                                'datetime', 'random'):
            bad.append((n.id, n.lineno))
    construct = f'{f.file}:TerminalDevice._exec_print'
    ctx.instance(rule, construct, sample={'self_accesses': n_attr,
                                          'outside_allowlist': bad})
    for d, line in bad:
        ctx.finding(rule, f'{construct}:{d}',
                    f'_exec_print accesses {d}: the printed text would '
                    f'depend on state other than the item sequence',
                    f.file, line)
    ctx.floor('self accesses in _exec_print', n_attr, 5)


def line_end_guards(ctx, f):
    rule = 'C17.line-end-guard-siblings-agree'
    ctx.rule(rule, 'the plain and the USING branch of _exec_print both '
             'decide the trailing line break from "last printable is a '
             'separator" and both guard the empty item list')
    sites = []
    for n in ast.walk(f.node):
        if isinstance(n, ast.Compare) and \
                isinstance(n.ops[0], (ast.NotIn, ast.In)) \
                and isinstance(n.left, ast.Subscript) and \
                const(n.left.slice) == -1 and \
                isinstance(n.comparators[0], (ast.List, ast.Tuple)):
            # `len(x) == 0 or x[-1] not in [..]`  /  `x and x[-1] in [..]`
            guarded = False
            p = getattr(n, '_parent', None)
            want = ast.Or if isinstance(n.ops[0], ast.NotIn) else ast.And
            lst = unparse(n.left.value)
            if isinstance(p, ast.BoolOp) and isinstance(p.op, want):
                for v in p.values:
                    if v is n:
                        break
                    if lst in unparse(v):
                        guarded = True
            sites.append((n, guarded, len(n.comparators[0].elts)))
    if len(sites) < 2:
        # the line-end decision is written some other way; the layout rule
        # decides the behaviour of the plain branch itself
        ctx.observe(f'only {len(sites)} `x[-1] (not) in [separators]` '
                    f'test(s) in _exec_print; the sibling comparison of the '
                    f'line-end guards is skipped')
    for n, guarded, seps in sites:
        branch = 'using' if any(
            isinstance(a, ast.If) and isinstance(a.test, ast.Name) and
            any(n is x for s in a.body for x in ast.walk(s)) and
            any('PrintUsingFormatter' in unparse(s) for s in a.body)
            for a in ast.walk(f.node)) else 'plain'
        construct = f'{f.file}:TerminalDevice._exec_print:{branch}:line-end'
        ctx.instance(rule, construct, sample={'guarded_for_empty': guarded,
                                              'separators': seps})
        if seps != 2:
            ctx.finding(rule, construct + ':seps',
                        f'{branch} branch tests the last printable against '
                        f'{seps}', f.file, n.lineno)
        if not guarded:
            ctx.finding(rule, construct,
                        f'the {branch} branch indexes printables[-1] without '
                        f'the emptiness test its sibling branch has: PRINT '
                        f'USING "..."; with no items raises IndexError',
                        f.file, n.lineno)
    # "\r\n" appended under that test in both branches
    crlf = [n for n in ast.walk(f.node)
            if isinstance(n, ast.Constant) and n.value == '\r\n']
    ctx.instance(rule, f'{f.file}:TerminalDevice._exec_print:crlf',
                 sample={'count': len(crlf)})
    if len(crlf) < 2:
        ctx.finding(rule, f'{f.file}:TerminalDevice._exec_print:crlf',
                    'a branch of _exec_print no longer appends the line '
                    'break', f.file, f.line)
    # zone width
    # the padding width: the expression assigned to the name that is then
    # multiplied with ' ' in the comma branch
    zones = []
    for n in ast.walk(f.node):
        if isinstance(n, ast.If) and any(
                isinstance(x, ast.BinOp) and isinstance(x.op, ast.Mod)
                for s_ in n.body for x in ast.walk(s_)):
            for s_ in n.body:
                if isinstance(s_, ast.Assign) and \
                        isinstance(s_.targets[0], ast.Name) and any(
                            isinstance(x, ast.BinOp) and
                            isinstance(x.op, ast.Mod)
                            for x in ast.walk(s_.value)):
                    zones.append(s_.value)
    rule2 = 'C17.print-zone-arithmetic'
    ctx.rule(rule2, 'a comma pads to the next 14-column zone: the padding '
             'is W - (len(buf) % W) with one constant W = 14')
    from .. import opsem
    for z in zones:
        ctx.instance(rule2, f'{f.file}:TerminalDevice._exec_print:zone',
                     sample={'expr': unparse(z)})
        # replace len(<buffer>) by the column c and compare with the
        # language rule on every column 0..41
        lens = [x for x in ast.walk(z) if isinstance(x, ast.Call) and
                dotted(x.func) == 'len']
        ok = len(lens) >= 1
        if ok:
            e = opsem.subst(z, {})
            txt = unparse(z)
            for ln in lens:
                txt = txt.replace(unparse(ln), 'c')
            try:
                e = opsem.parse_expr(txt)
                ok = all(opsem._ev(e, {'c': c}) == 14 - (c % 14)
                         for c in range(0, 42))
            except Exception:
                ok = False
        if not ok:
            ctx.finding(rule2, f'{f.file}:TerminalDevice._exec_print:zone',
                        f'zone padding is {unparse(z)}; a comma must pad '
                        f'with 14 - (column mod 14) blanks, i.e. a full zone '
                        f'when the column is already on a zone boundary',
                        f.file, z.lineno)
    if not zones:
        # written some other way (ljust, a helper, ...): the layout rule
        # below decides the behaviour itself
        ctx.observe('no `W - (len(buf) % W)` padding expression in '
                    '_exec_print; zone behaviour is decided by '
                    'plain-print-layout-by-item-sequence alone')


def layout_by_items(ctx):
    """The plain branch of _exec_print, interpreted on every short sequence
    of string items, commas and semicolons, must print what the statement
    means: items in order, a comma pads to the next 14-column zone, a
    semicolon adds nothing, and a line break follows unless the statement
    ends with a separator.  Strings only, so no number formatting is
    involved; the handler computes with concrete lengths."""
    import itertools
    from .. import vmsim
    repo = ctx.repo
    rule = 'C17.plain-print-layout-by-item-sequence'
    ctx.rule(rule, 'TerminalDevice._exec_print (interpreted from the source '
             'on the tag protocol gen_print_stmt emits) prints, for every '
             'sequence of up to 3 items drawn from {"ab", "", "a<TAB>b", a '
             '14-character string, comma, semicolon}, exactly: the strings '
             'in order, blanks up to the next multiple of 14 for each comma '
             '(also a trailing one), nothing for a semicolon, and CR LF '
             'unless the last item is a separator')
    sim = vmsim.VmSim(repo)
    vmsim.install_primitives(sim)
    c = sim.cell
    alphabet = ['ab', '', 'x' * 14, 'y' * 17, 'a\tb', 0, -3, ',', ';']
    f = repo.func('qvm.machine', 'TerminalDevice._exec_print')
    n = 0
    bad = None
    undecided = 0
    for k in (0, 1, 2, 3):
        for items in itertools.product(alphabet, repeat=k):
            cells = []
            for it in items:
                if it == ';':
                    cells.append(c('INTEGER', 1))
                elif it == ',':
                    cells.append(c('INTEGER', 2))
                elif isinstance(it, int):
                    cells.append(c('INTEGER', 0))
                    cells.append(c('INTEGER', it))
                else:
                    cells.append(c('INTEGER', 0))
                    cells.append(c('STRING', it))
            cells.append(c('INTEGER', len(cells)))
            sim.io_args = []
            outs = sim.run_device('terminal', 'print', cells)
            args = list(sim.io_args)
            del sim.io_args
            if len(outs) != 1 or outs[0].kind != 'ok' or any(
                    not isinstance(a[1][0], str) for a in args if a[1]):
                undecided += 1
                continue
            n += 1
            got = ''.join(a[1][0] for a in args
                          if a[0] == 'terminal_print' and a[1])
            want = ''
            for it in items:
                if it == ',':
                    want += ' ' * (14 - len(want) % 14)
                elif isinstance(it, int):
                    # an integer prints with a leading blank (or minus
                    # sign) and a trailing blank
                    want += ('' if it < 0 else ' ') + str(it) + ' '
                elif it != ';':
                    want += it
            if not items or items[-1] not in (',', ';'):
                want += '\r\n'
            if got != want and bad is None:
                bad = (items, got, want)
    ctx.instance(rule, f'{f.file}:TerminalDevice._exec_print:plain',
                 sample={'sequences': n, 'undecided': undecided})
    ctx.floor('PRINT item sequences interpreted', n, 100)
    if bad is not None:
        items, got, want = bad
        ctx.finding(rule, f'{f.file}:TerminalDevice._exec_print:plain',
                    f'PRINT of the items {list(items)} writes {got!r}; the '
                    f'statement means {want!r} (zones of 14 columns, no '
                    f'line break after a trailing separator)', f.file,
                    f.line)


def run(ctx):
    ctx.clauses = [
        'tag protocol agreement between gen_print_stmt and _exec_print',
        'printed text is a function of the popped items only',
        'both branches guard "ends with a separator" alike; zone constant',
        'one tagged entry per PRINT item, in order (emission interpreter)',
    ]
    ctx.not_decided = ['zone arithmetic results and number text for '
                       'concrete values']
    f = tag_protocol(ctx)
    purity(ctx, f)
    line_end_guards(ctx, f)
    layout_by_items(ctx)
    from .. import gensim
    gensim.check_print_items(ctx, 'C17')
    return ('Emitter/consumer agreement of the PRINT argument protocol '
            '(tags, cells per tag, count), an effects rule on '
            'TerminalDevice._exec_print (reads only its arguments, writes '
            'only via impl.terminal_print), and sibling agreement of the '
            'line-end guards of the plain and USING branches. Layout values '
            'are not decided. Also: the plain branch of _exec_print interpreted on all short item sequences (strings, commas, semicolons) prints what the statement means; gen_print_stmt hands over one entry per item.')