"""C03 -- accepted programs are type- and stack-safe on the VM."""
from .. import registries as R
from .c09 import emittable_encodable
from .c05 import type_obligations
from .c04 import param_cells


def run(ctx):
    ctx.clauses = [
        'every emittable mnemonic / device operation exists and is '
        'executable',
        'type obligations induced by the generators are discharged by a '
        'pass',
        'call protocol: one cell per parameter',
        'per-generator stack discipline and consumer types (emission '
        'interpreter)',
    ]
    ctx.not_decided = ['value-dependent safety (bounds, overflow: traps the '
                       'language defines); dynamic store types through '
                       'references beyond the caller-side typing']
    instrs = R.instructions(ctx.repo)
    emittable_encodable(ctx, instrs, pid='C03')
    type_obligations(ctx, pid='C03')
    sub = _Rename(ctx, 'C04.', 'C03.')
    param_cells(sub)
    try:
        from .. import gensim
    except ImportError:
        gensim = None
    if gensim is not None:
        gensim.check_stack_discipline(ctx, 'C03')
    else:
        ctx.observe('emission interpreter not available in this build')
    return ('Abstract interpretation of the code generators against CPU and '
            'device signatures derived from the VM source: every emittable '
            'op exists and has a handler; every conversion obligation is '
            'discharged by a pass check; the call protocol pushes as many '
            'cells as the callee frame pops; (emission interpreter) each '
            'generator, run on abstract nodes of every admissible type '
            'assignment, emits instruction sequences that never type-trap, '
            'never underflow and have the net stack effect the induction '
            'hypothesis requires. Value-dependent traps are not decided.')


class _Rename:
    def __init__(self, ctx, old, new):
        self._ctx, self._old, self._new = ctx, old, new

    def __getattr__(self, name):
        return getattr(self._ctx, name)

    def _r(self, rule):
        return rule.replace(self._old, self._new, 1)

    def rule(self, rule, text):
        return self._ctx.rule(self._r(rule), text)

    def instance(self, rule, *a, **k):
        return self._ctx.instance(self._r(rule), *a, **k)

    def finding(self, rule, *a, **k):
        return self._ctx.finding(self._r(rule), *a, **k)
