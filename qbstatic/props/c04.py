"""C04 -- variables, array elements and record fields never overlap."""
import ast

from .. import registries as R
from ..astutil import dotted, const, unparse, walk_shallow
from ..model import AnalysisError
from .. import pat


# ---------------------------------------------------------------------------
# affine forms:  {'base':1, 'i':2, None:3}  ==  base + 2*i + 3

def affine(e, env):
    """Affine form of an index expression over symbolic names."""
    if isinstance(e, ast.Constant) and isinstance(e.value, int):
        return {None: e.value}
    if isinstance(e, ast.Name):
        if e.id in env:
            return dict(env[e.id])
        return {e.id: 1}
    if isinstance(e, ast.Attribute):
        return {unparse(e): 1}
    if isinstance(e, ast.Call) and dotted(e.func) == 'len':
        return {unparse(e): 1}
    if isinstance(e, ast.BinOp):
        l, r = affine(e.left, env), affine(e.right, env)
        if l is None or r is None:
            return None
        if isinstance(e.op, ast.Add):
            return _add(l, r)
        if isinstance(e.op, ast.Sub):
            return _add(l, _scale(r, -1))
        if isinstance(e.op, ast.Mult):
            if set(l) <= {None}:
                return _scale(r, l.get(None, 0))
            if set(r) <= {None}:
                return _scale(l, r.get(None, 0))
            return None
    return None


def _add(a, b):
    out = dict(a)
    for k, v in b.items():
        out[k] = out.get(k, 0) + v
    return {k: v for k, v in out.items() if v != 0 or k is None}


def _scale(a, c):
    return {k: v * c for k, v in a.items()}


def _norm(form, base_names, idx_names):
    """Rename base/index symbols to canonical B / I; drop zero terms."""
    if form is None:
        return None
    out = {}
    others = [k for k in form if k is not None and k not in base_names
              and k not in idx_names and k != 'I' and k != 'B']
    for k, v in form.items():
        if k in base_names:
            k = 'B'
        elif k in idx_names:
            k = 'I'
        elif len(others) == 1 and k == others[0] and \
                not any(b in form for b in base_names) and 'B' not in form:
            k = 'B'      # the single remaining symbol is the base
        out[k] = out.get(k, 0) + v
    out = {k: v for k, v in out.items() if v != 0}
    return tuple(sorted(out.items(), key=lambda kv: str(kv[0])))


def header_sites(ctx):
    """Array header map: ndims at B+1, element size at B+2, lower bound of
    dimension I at B+3+2I, upper bound at B+4+2I; header length 3+2n."""
    repo = ctx.repo
    rule = 'C04.array-header-layout-agrees'
    ctx.rule(rule, 'every site that writes or reads the array header '
             '(Array.__init__, initarrl, initarrg, arridx, lbound, ubound, '
             'QvmEval.read_array, memlayout.get_type_size) uses the same '
             'map: ndims at +1, element size at +2, bounds of dimension i '
             'at +3+2i / +4+2i, data after 3+2n cells')
    want = {
        'ndims': (('B', 1), (None, 1)),
        'elsize': (('B', 1), (None, 2)),
        'lbound': (('B', 1), ('I', 2), (None, 3)),
        'ubound': (('B', 1), ('I', 2), (None, 4)),
    }
    want = {k: tuple(sorted(v, key=lambda kv: str(kv[0])))
            for k, v in want.items()}
    handlers, _, _ = R.cpu_handlers(repo)

    def role_of(value_text):
        t = value_text.lower()
        if 'n_dims' in t or 'ndims' in t or 'len(bounds)' in t:
            return 'ndims'
        if 'element_size' in t:
            return 'elsize'
        if 'lbound' in t or t.endswith('lb'):
            return 'lbound'
        if 'ubound' in t or t.endswith('ub'):
            return 'ubound'
        return None
    # --- writers: initarrl / initarrg
    for name in ('_exec_initarrl', '_exec_initarrg'):
        f = handlers.get(name)
        if f is None:
            raise AnalysisError(f'anchor vanished: {name}')
        got = {}
        # index variable and bound names from
        #   for i, (lo, hi) in enumerate(bounds):
        ivars, lo_name, hi_name = {'i'}, None, None
        for n in ast.walk(f.node):
            if isinstance(n, ast.For) and isinstance(n.target, ast.Tuple) \
                    and len(n.target.elts) == 2 and \
                    isinstance(n.target.elts[0], ast.Name) and \
                    isinstance(n.target.elts[1], ast.Tuple) and \
                    len(n.target.elts[1].elts) == 2:
                ivars = {n.target.elts[0].id}
                lo_name = unparse(n.target.elts[1].elts[0])
                hi_name = unparse(n.target.elts[1].elts[1])
        params = [a.arg for a in f.node.args.args]
        for c in ast.walk(f.node):
            if isinstance(c, ast.Call) and isinstance(c.func, ast.Attribute)\
                    and c.func.attr == 'set_cell' and len(c.args) == 2:
                vt = unparse(c.args[1])
                role = role_of(vt)
                if lo_name and f', {lo_name})' in vt:
                    role = 'lbound'
                elif hi_name and f', {hi_name})' in vt:
                    role = 'ubound'
                elif len(params) >= 4 and f', {params[2]})' in vt:
                    role = 'ndims'
                elif len(params) >= 4 and f', {params[3]})' in vt:
                    role = 'elsize'
                form = _norm(affine(c.args[0], {}), {params[1]}
                             if len(params) > 1 else {'idx'}, ivars)
                got[role] = form
        construct = f'{f.file}:QvmCpu.{name}'
        ctx.instance(rule, construct, sample={k: str(v)
                                              for k, v in got.items()})
        for role, w in want.items():
            if got.get(role) != w:
                ctx.finding(rule, f'{construct}:{role}',
                            f'{name} writes {role} at {got.get(role)}; the '
                            f'header map requires {w}', f.file, f.line)
    # sibling identity modulo the segment
    a = unparse(handlers['_exec_initarrl'].node).replace(
        'self.cur_frame', 'SEG').replace('_exec_initarrl', 'X')
    b = unparse(handlers['_exec_initarrg'].node).replace(
        'self.globals_segment', 'SEG').replace('_exec_initarrg', 'X')
    ctx.instance(rule, 'qvm/cpu.py:initarrl<->initarrg')
    if a != b:
        ctx.finding(rule, 'qvm/cpu.py:initarrl<->initarrg',
                    'initarrl and initarrg differ in more than the segment '
                    'they write', 'qvm/cpu.py',
                    handlers['_exec_initarrg'].line)
    # --- Array.__init__ : header list positions
    ai = repo.func('qvm.cpu', 'Array.__init__')
    hdr = None
    hname = None
    for s in walk_shallow(ai.node):
        if isinstance(s, ast.Assign) and \
                isinstance(s.targets[0], ast.Name) \
                and isinstance(s.value, ast.List) and s.value.elts and \
                isinstance(s.value.elts[0], ast.Constant) and \
                s.value.elts[0].value is None:
            hdr = s.value
            hname = s.targets[0].id
    ext = None
    for c in ast.walk(ai.node):
        if isinstance(c, ast.Call) and \
                dotted(c.func) == f'{hname}.extend' \
                and c.args and isinstance(c.args[0], ast.List):
            ext = c.args[0]
    if hdr is None or ext is None:
        raise AnalysisError('anchor vanished: header list in Array.__init__')
    pos = [role_of(unparse(e)) if not (isinstance(e, ast.Constant) and
                                       e.value is None) else 'reserved'
           for e in hdr.elts]
    pos_ext = [role_of(unparse(e)) for e in ext.elts]
    construct = f'{ai.file}:Array.__init__'
    ctx.instance(rule, construct, sample={'fixed': pos, 'per_dim': pos_ext})
    if pos != ['reserved', 'ndims', 'elsize'] or \
            pos_ext != ['lbound', 'ubound']:
        ctx.finding(rule, construct,
                    f'Array header is {pos} + per dimension {pos_ext}; the '
                    f'header map requires [reserved, ndims, elsize] + '
                    f'[lbound, ubound]', ai.file, ai.line)
    # --- readers with a running base: arridx, read_array
    for mod, qn, basevar in (('qvm.cpu', 'QvmCpu._exec_arridx', None),
                             ('qvm.eval', 'QvmEval.read_array', None)):
        f = repo.func(mod, qn)
        # the running base: the name advanced by the constant 3
        for s in walk_shallow(f.node):
            if isinstance(s, ast.AugAssign) and \
                    isinstance(s.target, ast.Name) and \
                    const(s.value) == 3:
                basevar = s.target.id
        if basevar is None:
            raise AnalysisError(f'anchor vanished: running base in {qn}')
        env = {basevar: {'B': 1}}
        got = {}
        in_loop_step = None

        def scan(body, env, depth):
            nonlocal in_loop_step
            for st in body:
                if isinstance(st, (ast.FunctionDef,)):
                    continue
                if isinstance(st, ast.AugAssign) and \
                        dotted(st.target) == basevar and \
                        isinstance(st.op, ast.Add):
                    inc = affine(st.value, env)
                    if inc is None:
                        env[basevar] = None
                    elif depth == 0 and env[basevar] is not None:
                        env[basevar] = _add(env[basevar], inc)
                    elif depth > 0 and env[basevar] is not None and \
                            set(inc) <= {None}:
                        # per-iteration step: base advances by c each
                        # iteration -> base + c*I
                        in_loop_step = inc.get(None, 0)
                    continue
                if isinstance(st, ast.Assign) and \
                        dotted(st.targets[0]) == basevar:
                    f2 = affine(st.value, env)
                    if f2 is None or 'B' not in f2:
                        f2 = {'B': 1}    # (re)binding of the base
                    env[basevar] = f2
                    continue
                for c in ast.walk(st) if not isinstance(
                        st, (ast.For, ast.While, ast.If)) else []:
                    if isinstance(c, ast.Call) and \
                            isinstance(c.func, ast.Attribute) and \
                            c.func.attr == 'get_cell' and c.args and \
                            env.get(basevar) is not None:
                        tgt = ''
                        if isinstance(st, ast.Assign):
                            tgt = unparse(st.targets[0])
                        role = role_of(tgt)
                        form = affine(c.args[0], env)
                        if depth > 0 and form is not None:
                            form = _add(form, {'I': 0})
                        if role and role not in got:
                            got[role] = (form, depth)
                if isinstance(st, (ast.For, ast.While)):
                    scan(st.body, env, depth + 1)
                elif isinstance(st, ast.If):
                    scan(st.body, env, depth)
                    scan(st.orelse, env, depth)
        scan(f.node.body, env, 0)
        norm = {}
        for role, (form, depth) in got.items():
            if form is None:
                norm[role] = None
                continue
            if depth > 0 and in_loop_step:
                form = _add(form, {'I': in_loop_step})
            norm[role] = _norm(form, {'B'}, {'I'})
        construct = f'{f.file}:{qn}'
        ctx.instance(rule, construct,
                     sample={k: str(v) for k, v in norm.items()})
        for role, w in want.items():
            if norm.get(role) != w:
                ctx.finding(rule, f'{construct}:{role}',
                            f'{qn} reads {role} at {norm.get(role)}; the '
                            f'header map requires {w}', f.file, f.line)
    # --- lbound / ubound:  array_idx + 3 + (dim_idx - 1) * 2
    for name, role in (('_exec_lbound', 'lbound'), ('_exec_ubound',
                                                    'ubound')):
        f = handlers.get(name)
        got = None
        nd = None
        # the dimension operand: first typed LONG pop
        dim_var = None
        for s in walk_shallow(f.node):
            if isinstance(s, ast.Assign) and \
                    isinstance(s.targets[0], ast.Name) and \
                    isinstance(s.value, ast.Call) and \
                    dotted(s.value.func) == 'self.pop' and s.value.args \
                    and unparse(s.value.args[0]) == 'CellType.LONG' and \
                    dim_var is None:
                dim_var = s.targets[0].id
        for s in walk_shallow(f.node):
            if isinstance(s, ast.Assign) and \
                    isinstance(s.targets[0], ast.Name) and \
                    isinstance(s.value, ast.BinOp) and dim_var and \
                    dim_var in {x.id for x in ast.walk(s.value)
                                if isinstance(x, ast.Name)}:
                # dimension numbers are 1-based: I = dim_idx - 1
                form = affine(s.value, {})
                if form is not None:
                    c = form.get(dim_var, 0)
                    form = dict(form)
                    form.pop(dim_var, None)
                    form['I'] = c
                    form[None] = form.get(None, 0) + c
                    got = _norm(form, {'array_idx'}, {'I'})
                    break
            if isinstance(s, ast.Assign) and \
                    isinstance(s.targets[0], ast.Name) and \
                    isinstance(s.value, ast.Call) and \
                    isinstance(s.value.func, ast.Attribute) and \
                    s.value.func.attr == 'get_cell' and nd is None:
                nd = _norm(affine(s.value.args[0], {}), {'array_idx'}, set())
        construct = f'{f.file}:QvmCpu.{name}'
        ctx.instance(rule, construct, sample={'bound_at': str(got),
                                              'ndims_at': str(nd)})
        if got != want[role]:
            ctx.finding(rule, f'{construct}:{role}',
                        f'{name} reads the {role} of dimension i at {got}; '
                        f'the header map requires {want[role]}', f.file,
                        f.line)
        if nd != want['ndims']:
            ctx.finding(rule, f'{construct}:ndims',
                        f'{name} reads ndims at {nd}', f.file, f.line)
    # --- header size in memlayout
    gt = repo.func('qvm.memlayout', 'get_type_size')
    hs = None
    ok = False
    for s in ast.walk(gt.node):
        if isinstance(s, ast.Assign) and 'len(' in unparse(s.value):
            form = affine(s.value, {})
            if form is not None and any(
                    (k or '').startswith('len(') for k in form):
                hs = unparse(s.value)
                ok = form == {'len(type.array_dims)': 2, None: 3}
    ctx.instance(rule, f'{gt.file}:get_type_size:header_size',
                 sample={'expr': hs})
    if not ok:
        ctx.finding(rule, f'{gt.file}:get_type_size:header_size',
                    f'static arrays reserve header_size = {hs}; the header '
                    f'map needs 3 + 2*ndims cells', gt.file, gt.line)


def default_materialisation(ctx):
    repo = ctx.repo
    rule = 'C04.default-written-where-read'
    ctx.rule(rule, 'in each generated read*/readidx*/deref* handler the '
             'cell that receives the default value is the cell that was '
             'just read (reading an unset location must not change another '
             'location)')
    handlers, _, _ = R.cpu_handlers(repo)
    fams = {}
    for name, f in handlers.items():
        for fam in ('_exec_readidx', '_exec_read', '_exec_deref'):
            if name.startswith(fam) and hasattr(f, 'outer'):
                fams.setdefault(fam, []).append((name, f))
                break
    ctx.floor('generated read/readidx/deref handlers',
              sum(len(v) for v in fams.values()), 25)
    for fam, members in sorted(fams.items()):
        name, f = sorted(members)[0]
        reads, writes = [], []
        for c in ast.walk(f.node):
            if isinstance(c, ast.Call):
                d = dotted(c.func) or ''
                if d == 'self.read_var':
                    reads.append(unparse(c.args[1]))
                elif d == 'self.write_var':
                    writes.append(unparse(c.args[1]))
                elif d.endswith('.get_cell'):
                    reads.append(unparse(c.args[0]))
                elif d.endswith('.set_cell'):
                    writes.append(unparse(c.args[0]))
        construct = f'{f.file}:{fam}*-family'
        ctx.instance(rule, construct, sample={'reads': reads,
                                              'writes': writes,
                                              'members': len(members)})
        if not reads or not writes:
            ctx.finding(rule, construct,
                        f'{fam}* family no longer reads/writes a cell '
                        f'(reads {reads}, writes {writes})', f.file, f.line)
        elif set(writes) != set(reads):
            ctx.finding(rule, construct,
                        f'{fam}* handlers read cell {reads} but write the '
                        f'default value to cell {writes}: reading an unset '
                        f'field overwrites a different location',
                        f.file, f.line, facts={'reads': reads,
                                               'writes': writes})
        # default value: 0 for numeric, '' for string
        outer = f.outer
        dv = [unparse(s.value) for s in ast.walk(outer)
              if isinstance(s, ast.Assign) and
              dotted(s.targets[0]) == 'default_value']
        ctx.instance(rule, construct + ':default', sample={'default': dv})
        if dv != ["0 if _type.is_numeric else ''"]:
            ctx.finding(rule, construct + ':default',
                        f'default value of unset cells is {dv}; expected 0 '
                        f'for numeric types and the empty string',
                        f.file, outer.lineno)


def frame_layout(ctx):
    repo = ctx.repo
    rule = 'C04.frame-and-global-layout-agree'
    ctx.rule(rule, 'slot indices and sizes are derived by one size '
             'function in one order: get_local_var_idx walks params then '
             'local_vars; get_params_size / get_local_vars_size sum the '
             'same maps; _exec_frame allocates their sum; '
             'get_global_var_idx and the globals section use global_vars; '
             'get_dotted_index and QvmEval.read_struct accumulate field '
             'sizes in declaration order')
    gl = repo.func('qvm.memlayout', 'get_local_var_idx')
    loops = [unparse(n.iter) for n in gl.node.body
             if isinstance(n, ast.For)]
    ctx.instance(rule, f'{gl.file}:get_local_var_idx', sample={'walk':
                                                               loops})
    if loops != ['routine.params.items()', 'routine.local_vars.items()']:
        ctx.finding(rule, f'{gl.file}:get_local_var_idx',
                    f'local slots are assigned by walking {loops}; expected '
                    f'params then local_vars', gl.file, gl.line)
    for qn, src in (('get_local_var_idx', None), ('get_global_var_idx',
                                                  None)):
        f = repo.func('qvm.memlayout', qn)
        incs = [unparse(s.value) for s in ast.walk(f.node)
                if isinstance(s, ast.AugAssign) and
                isinstance(s.target, ast.Name)]
        ctx.instance(rule, f'{f.file}:{qn}:step', sample={'steps': incs})
        if not incs or not all(i.startswith('get_type_size(')
                               for i in incs):
            ctx.finding(rule, f'{f.file}:{qn}:step',
                        f'{qn} advances by {incs}, not by get_type_size of '
                        f'each variable', f.file, f.line)
    for qn, src in (('get_params_size', 'routine.params.values()'),
                    ('get_local_vars_size',
                     'routine.local_vars.values()')):
        f = repo.func('qvm.memlayout', qn)
        txt = unparse(f.node)
        ok = src in txt and 'get_type_size(routine.context, ' in txt and \
            'sum(' in txt
        ctx.instance(rule, f'{f.file}:{qn}')
        if not ok:
            ctx.finding(rule, f'{f.file}:{qn}',
                        f'{qn} is no longer the sum of get_type_size over '
                        f'{src}', f.file, f.line)
    fr = repo.func('qvm.cpu', 'QvmCpu._exec_frame')
    # structural: CallFrame(size=<param 1> + <param 2>, ...) in either order
    fr_params = [a.arg for a in fr.node.args.args[1:3]]
    ok = any(isinstance(c, ast.Call) and any(
        k.arg == 'size' and isinstance(k.value, ast.BinOp) and
        isinstance(k.value.op, ast.Add) and
        sorted(unparse(x) for x in (k.value.left, k.value.right)) ==
        sorted(fr_params) for k in c.keywords)
        for c in ast.walk(fr.node))
    ctx.instance(rule, f'{fr.file}:QvmCpu._exec_frame:size')
    if not ok:
        ctx.finding(rule, f'{fr.file}:QvmCpu._exec_frame:size',
                    'the frame is not sized params_size + local_vars_size',
                    fr.file, fr.line)
    gg = repo.func('qvm.memlayout', 'get_global_var_idx')
    ok = 'context.global_vars.items()' in unparse(gg.node)
    b = repo.func('qbee.qvm_codegen', 'QvmCode.__bytes__')
    ok2 = 'self._globals.items()' in unparse(b.node) and \
        'get_type_size(self.compilation, vtype)' in unparse(b.node)
    ic = repo.func('qbee.qvm_codegen', 'QvmCodeGen.init_code')
    ok3 = 'code._globals = self.compilation.global_vars' in unparse(ic.node)
    ctx.instance(rule, 'globals-layout', sample={'idx': ok, 'size': ok2,
                                                 'same_map': ok3})
    if not (ok and ok2 and ok3):
        ctx.finding(rule, 'qvm/memlayout.py:get_global_var_idx<->__bytes__',
                    f'global slot indices (walk global_vars: {ok}) and the '
                    f'globals section size (sum over _globals: {ok2}; '
                    f'_globals is global_vars: {ok3}) no longer derive from '
                    f'one map', gg.file, gg.line)
    gd = repo.func('qvm.memlayout', 'get_dotted_index')
    ok = pat.has('list(_S.fields).index(_V)', gd.node) and \
        pat.has('list(_S.fields.values())[:_F]', gd.node) and \
        pat.has('sum((get_type_size(context, _T) for _T in _P))', gd.node) \
        and pat.has('_IDX = 0\nfor _V in dotted_vars:\n    ...\n'
                    '    _IDX += _F\n    ...\nreturn _IDX', gd.node)
    ctx.instance(rule, f'{gd.file}:get_dotted_index')
    if not ok:
        ctx.finding(rule, f'{gd.file}:get_dotted_index',
                    'a field offset is no longer the sum of the sizes of '
                    'the fields declared before it', gd.file, gd.line)
    rs = repo.func('qvm.eval', 'QvmEval.read_struct')
    ok = pat.has('for _N, _T in _S.fields.items():\n    ...\n'
                 '    _I += get_type_size(self, _T)', rs.node)
    ctx.instance(rule, f'{rs.file}:QvmEval.read_struct')
    if not ok:
        ctx.finding(rule, f'{rs.file}:QvmEval.read_struct',
                    'the debugger walks record fields differently from '
                    'get_dotted_index', rs.file, rs.line)
    # static array size = product of ranges * element size + header
    gt = repo.func('qvm.memlayout', 'get_type_size')
    ok = pat.has('for _D in type.array_dims:\n'
                 '    _N = _D.static_ubound - _D.static_lbound + 1\n'
                 '    _S *= _N', gt.node) and \
        pat.has('_S *= _E\n_H = __\nreturn _S + _H', gt.node)
    ctx.instance(rule, f'{gt.file}:get_type_size:static-array')
    if not ok:
        ctx.finding(rule, f'{gt.file}:get_type_size:static-array',
                    'static array size is no longer prod(ubound - lbound + '
                    '1) * element size + header', gt.file, gt.line)


def deferred_frame_size(ctx):
    repo = ctx.repo
    rule = 'C04.frame-size-deferred-variables-resolved-late'
    ctx.rule(rule, 'generators insert compiler temporaries into '
             'routine.local_vars during code generation, so (a) the frame '
             'locals operand must be evaluated at assembly time (callable '
             'resolved in QvmInstr.final) and (b) variable operands must be '
             'resolved to slot indices in assembled(), not at emission')
    m = repo.module('qbee.qvm_codegen')
    inserters = []
    for f in m.functions.values():
        for s in walk_shallow(f.node):
            if isinstance(s, ast.Assign) and \
                    isinstance(s.targets[0], ast.Subscript) and \
                    unparse(s.targets[0].value).endswith('.local_vars'):
                inserters.append((f.qualname, s.lineno))
    ctx.instance(rule, 'local_vars-inserters',
                 sample={'sites': inserters})
    fin = repo.func('qbee.qvm_codegen', 'QvmInstr.final')
    ok = pat.has('_A() if callable(_A) else _A', fin.node)
    ctx.instance(rule, f'{fin.file}:QvmInstr.final:callable-operands')
    if inserters and not ok:
        ctx.finding(rule, f'{fin.file}:QvmInstr.final:callable-operands',
                    'QvmInstr.final no longer evaluates callable operands: '
                    'frame sizes would be fixed before FOR/SELECT '
                    'temporaries are added', fin.file, fin.line)
    asm = repo.func('qbee.qvm_codegen', 'QvmCode.assembled')
    n_idx = sum(1 for c in ast.walk(asm.node) if isinstance(c, ast.Call)
                and dotted(c.func) in ('get_local_var_idx',
                                       'get_global_var_idx'))
    ctx.instance(rule, f'{asm.file}:QvmCode.assembled:late-resolution',
                 sample={'index_lookups': n_idx})
    if n_idx < 8:
        ctx.finding(rule, f'{asm.file}:QvmCode.assembled:late-resolution',
                    f'only {n_idx} slot-index lookups remain in the '
                    f'assembler', asm.file, asm.line)
    for f in m.functions.values():
        if f.cls is not None:
            continue
        for c in walk_shallow(f.node):
            if isinstance(c, ast.Call) and dotted(c.func) in (
                    'get_local_var_idx', 'get_global_var_idx'):
                ctx.finding(rule, f'{f.file}:{f.qualname}:early-index',
                            f'{f.qualname} resolves a variable to a slot '
                            f'index at emission time; temporaries added '
                            f'later shift the slots', f.file, c.lineno)
    # temporaries get unique names
    gl = repo.func('qbee.qvm_codegen', 'QvmCodeGen.get_label')
    # structural: the label is an f-string that starts with '_' (users
    # cannot spell it) and contains a value that is fresh on every call --
    # an attribute the function increments, or next(<counter>)
    ok = False
    bumped = {dotted(x.target) for x in ast.walk(gl.node)
              if isinstance(x, ast.AugAssign) and
              isinstance(x.op, ast.Add)}
    for js in ast.walk(gl.node):
        if not isinstance(js, ast.JoinedStr) or not js.values:
            continue
        first = js.values[0]
        if not (isinstance(first, ast.Constant) and
                str(first.value).startswith('_')):
            continue
        for fv in js.values:
            if isinstance(fv, ast.FormattedValue):
                v = fv.value
                if isinstance(v, ast.Call) and dotted(v.func) == 'next':
                    ok = True
                if dotted(v) in bumped:
                    ok = True
    ctx.instance(rule, f'{gl.file}:QvmCodeGen.get_label')
    if not ok:
        ctx.finding(rule, f'{gl.file}:QvmCodeGen.get_label',
                    'compiler temporaries / labels are no longer made '
                    'unique by a counter and cannot be spelled by users '
                    '(leading underscore)', gl.file, gl.line)


def static_naming(ctx):
    repo = ctx.repo
    rule = 'C04.static-variables-are-routine-qualified'
    ctx.rule(rule, 'STATIC variables live in the global area under '
             '_static_<routine>_<name> and init_code registers them under '
             'that same full_name; lookups go params -> locals -> statics '
             '-> globals')
    fn = repo.func('qbee.evalctx', 'Variable.full_name')
    # structural: some returned f-string starts with a constant beginning
    # with '_' (not spellable by users) and interpolates both the routine's
    # name and the variable's own name
    ok = False
    for js in ast.walk(fn.node):
        if isinstance(js, ast.JoinedStr) and js.values and \
                isinstance(js.values[0], ast.Constant) and \
                str(js.values[0].value).startswith('_'):
            parts = [dotted(v.value) or '' for v in js.values
                     if isinstance(v, ast.FormattedValue)]
            if any(p.endswith('routine.name') for p in parts) and \
                    any(p == 'self.name' for p in parts):
                ok = True
    ctx.instance(rule, f'{fn.file}:Variable.full_name')
    if not ok:
        ctx.finding(rule, f'{fn.file}:Variable.full_name',
                    'static variables are no longer qualified with their '
                    'routine name: statics of two routines collide',
                    fn.file, fn.line)
    ic = repo.func('qbee.qvm_codegen', 'QvmCodeGen.init_code')
    # structural: a comprehension over <routine>.static_vars whose key is
    # <routine>.get_variable(<name>).full_name
    ok = False
    for comp in ast.walk(ic.node):
        if isinstance(comp, ast.DictComp) and any(
                'static_vars' in unparse(g_.iter) for g_ in comp.generators):
            k = comp.key
            if isinstance(k, ast.Attribute) and k.attr == 'full_name' and \
                    isinstance(k.value, ast.Call) and \
                    isinstance(k.value.func, ast.Attribute) and \
                    k.value.func.attr == 'get_variable':
                ok = True
    ctx.instance(rule, f'{ic.file}:QvmCodeGen.init_code:statics')
    if not ok:
        ctx.finding(rule, f'{ic.file}:QvmCodeGen.init_code:statics',
                    'init_code no longer registers statics under '
                    'Variable.full_name', ic.file, ic.line)
    gv = repo.func('qbee.evalctx', 'Routine.get_variable')
    order = []
    for n in ast.walk(gv.node):
        if isinstance(n, ast.If) and isinstance(n.test, ast.Compare) and \
                isinstance(n.test.ops[0], ast.In):
            order.append(unparse(n.test.comparators[0]))
    ctx.instance(rule, f'{gv.file}:Routine.get_variable',
                 sample={'order': order})
    if order != ['self.params', 'self.local_vars', 'self.static_vars',
                 'self.context.global_vars']:
        ctx.finding(rule, f'{gv.file}:Routine.get_variable',
                    f'variable lookup order is {order}', gv.file, gv.line)
    ig = repo.func('qbee.evalctx', 'Variable.is_global')
    ok = False
    for c_ in ast.walk(ig.node):
        if isinstance(c_, ast.Compare) and len(c_.ops) == 1 and \
                isinstance(c_.ops[0], ast.In) and \
                dotted(c_.left) == 'self.scope' and \
                isinstance(c_.comparators[0], (ast.Tuple, ast.List,
                                               ast.Set)):
            vals = {const(e) for e in c_.comparators[0].elts}
            if vals == {'global', 'static'}:
                ok = True
    ctx.instance(rule, f'{ig.file}:Variable.is_global')
    if not ok:
        ctx.finding(rule, f'{ig.file}:Variable.is_global',
                    'is_global no longer covers exactly global and static '
                    'scope', ig.file, ig.line)


def static_array_predicates(ctx):
    """The code generator decides `static (inline header) or dynamic
    (reference cell)` from VarDeclClause.array_dims_are_const; memlayout
    reserves the storage from Type.is_static_array.  The two must be the same
    predicate over the dimension ranges."""
    import re as _re
    repo = ctx.repo
    rule = 'C04.static-array-predicates-agree'
    ctx.rule(rule, 'VarDeclClause.array_dims_are_const (used by the code '
             'generator) and Type.is_static_array (used by the layout) '
             'quantify the same per-dimension predicate with the same '
             'quantifier (all / any) over the dimension list')
    sites = [('qbee.stmt', 'VarDeclClause.array_dims_are_const'),
             ('qbee.expr', 'Type.is_static_array')]
    got = []
    for mod, qn in sites:
        f = repo.func(mod, qn)
        q = None
        for c in ast.walk(f.node):
            if isinstance(c, ast.Call) and dotted(c.func) in ('all', 'any') \
                    and c.args and isinstance(c.args[0], (ast.GeneratorExp,
                                                          ast.ListComp)):
                ge = c.args[0]
                var = ge.generators[0].target
                vname = var.id if isinstance(var, ast.Name) else '?'
                elt = _re.sub(rf'\b{vname}\b', '_d', unparse(ge.elt))
                q = (dotted(c.func), elt, len(ge.generators[0].ifs))
        if q is None:
            raise AnalysisError(f'anchor vanished: quantifier in {qn}')
        got.append((f, qn, q))
        ctx.instance(rule, f'{f.file}:{qn}', sample={'quantifier': q[0],
                                                     'predicate': q[1]})
    if got[0][2] != got[1][2]:
        f = got[0][0]
        ctx.finding(rule, f'{f.file}:{got[0][1]}',
                    f'{got[0][1]} is {got[0][2][0]}({got[0][2][1]}) but '
                    f'{got[1][1]} is {got[1][2][0]}({got[1][2][1]}): for an '
                    f'array with one constant and one run-time dimension '
                    f'the generator and the layout disagree on whether the '
                    f'array is inline or behind a reference', f.file, f.line)


def global_lookup_key(ctx):
    """init_code registers STATIC variables in the global area under
    Variable.full_name; every site that turns a variable operand into a
    global slot must look it up under that same key."""
    repo = ctx.repo
    rule = 'C04.global-slots-looked-up-by-full-name'
    ctx.rule(rule, 'every call of get_global_var_idx in the assembler '
             'passes the variable\'s full_name (the key under which '
             'init_code registered it), in every arm alike; a bare name '
             'misses routine-qualified STATIC variables')
    f = repo.func('qbee.qvm_codegen', 'QvmCode.assembled')
    n = 0
    for body in (b for x in ast.walk(f.node)
                 for b in (getattr(x, 'body', None),
                           getattr(x, 'orelse', None))
                 if isinstance(b, list)):
        for i, st in enumerate(body):
            for c in ast.walk(st):
                if not (isinstance(c, ast.Call) and
                        dotted(c.func) == 'get_global_var_idx' and
                        len(c.args) >= 2):
                    continue
                if any(c is y for s2 in body[i + 1:] for y in ast.walk(s2)):
                    continue
                # only direct statements of this block
                if not any(c is y for y in ast.walk(st)) or \
                        isinstance(st, (ast.If, ast.For, ast.While,
                                        ast.Try, ast.With)):
                    continue
                n += 1
                a = c.args[1]
                ok = any(isinstance(y, ast.Attribute) and
                         y.attr == 'full_name' for y in ast.walk(a))
                if not ok and isinstance(a, ast.Name):
                    for prev in reversed(body[:i]):
                        if isinstance(prev, ast.Assign) and any(
                                isinstance(t, ast.Name) and t.id == a.id
                                for t in prev.targets):
                            ok = any(isinstance(y, ast.Attribute) and
                                     y.attr == 'full_name'
                                     for y in ast.walk(prev.value))
                            break
                arm = unparse(getattr(st, '_parent', st).test)[:50] \
                    if isinstance(getattr(st, '_parent', None), ast.If) \
                    else f'line-{n}'
                construct = f'{f.file}:QvmCode.assembled:{arm}'
                ctx.instance(rule, construct, sample={'by_full_name': ok})
                if not ok:
                    ctx.finding(rule, construct,
                                f'the arm `{arm}` looks the global slot up '
                                f'under the operand as written, not under '
                                f'Variable.full_name: a STATIC variable '
                                f'(registered as _static_<routine>_<name>) '
                                f'is not found -> KeyError in bytes(code)',
                                f.file, c.lineno)
    ctx.floor('get_global_var_idx call sites in the assembler', n, 4)


def param_cells(ctx):
    repo = ctx.repo
    rule = 'C04.one-cell-per-parameter'
    ctx.rule(rule, 'the caller pushes one value per argument '
             '(gen_code_for_args) and _exec_frame pops params_size values; '
             'the two agree only if every accepted parameter type occupies '
             'one cell or non-unit parameter types are rejected')
    gp = repo.func('qvm.memlayout', 'get_params_size')
    uses_size = 'get_type_size' in unparse(gp.node)
    # does any pass reject user-defined (non unit-size) parameter types?
    rejects = False
    for hn in ('Pass1.process_sub_block_pre',
               'Pass1.process_function_block_pre'):
        f = repo.func('qbee.compiler', hn)
        for n in ast.walk(f.node):
            if isinstance(n, ast.If) and any(isinstance(s, ast.Raise)
                                             for s in n.body) and (
                    'is_user_defined' in unparse(n.test) or
                    'is_builtin' in unparse(n.test)):
                rejects = True
    fr = repo.func('qvm.cpu', 'QvmCpu._exec_frame')
    first_param = fr.node.args.args[1].arg
    pops_per_cell = any(isinstance(n, ast.For) and
                        unparse(n.iter) == f'range({first_param})'
                        for n in ast.walk(fr.node))
    construct = 'qvm/memlayout.py:get_params_size<->QvmCpu._exec_frame'
    ctx.instance(rule, construct, sample={'params_size_sums_type_sizes':
                                          uses_size, 'frame_pops_per_cell':
                                          pops_per_cell,
                                          'record_params_rejected': rejects})
    if uses_size and pops_per_cell and not rejects:
        ctx.finding(rule, construct,
                    '_exec_frame pops get_params_size = sum of type sizes '
                    'values, but callers push one reference per argument: a '
                    'SUB with a record parameter of n>1 fields pops n '
                    'values (IndexError / stack corruption)', gp.file,
                    gp.line)


def run(ctx):
    ctx.clauses = [
        'array header layout agrees across its eight sites',
        'default values are written where they were read',
        'frame / global / record layouts derive from one size function',
        'frame size deferred, variable operands resolved at assembly',
        'STATIC variables are routine-qualified',
        'one cell per parameter',
        'element addressing is a mixed-radix form over the checked bounds '
        'and stays inside the reserved storage (polynomial domain)',
    ]
    ctx.not_decided = ['disjointness for concrete declaration shapes, '
                       'by-reference aliasing at run time, fresh locals per '
                       'activation, zero-initialisation values']
    header_sites(ctx)
    default_materialisation(ctx)
    frame_layout(ctx)
    deferred_frame_size(ctx)
    static_naming(ctx)
    static_array_predicates(ctx)
    global_lookup_key(ctx)
    param_cells(ctx)
    from .. import strides
    strides.check_record_layout(ctx, 'C04')
    strides.check_cpu_side(ctx, 'C04',
                           4 if ctx.tier == 'thorough' else 3)
    return ('Agreement of the layout constants and index arithmetic across '
            'the sites that re-derive them: header offsets are extracted as '
            'affine forms over (base, dimension) and compared with one '
            'header map; the generated read/readidx/deref families are '
            'checked to write the default where they read; slot and size '
            'functions are checked to walk the same maps in the same '
            'order; the element address computed by _exec_arridx and the '
            'sizes reserved by get_type_size / Array.__init__ are obtained '
            'as polynomials over symbolic bounds by abstract interpretation '
            'and checked for the mixed-radix (injective) form and for '
            'capacity, ranks 1..3 (4 at thorough). Does not decide '
            'disjointness for concrete programs or run-time aliasing.')
