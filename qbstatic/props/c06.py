"""C06 -- the compiler is total."""
import ast

from .. import registries as R
from ..astutil import dotted, const, unparse, walk_shallow, ancestors
from ..cfg import build_cfg, repo_noreturn
from ..model import AnalysisError
from .c07 import _implies_not_none

try:
    import re._parser as sre_parse
except ImportError:   # pragma: no cover
    import sre_parse


def stmt_level_classes(repo):
    """Node classes that the `stmt` grammar rule can deliver into a
    statement list: {class name: (rule, parse action FuncInfo)}."""
    g = repo.module('qbee.grammar')
    st = g.assigns.get('stmt')
    if st is None:
        raise AnalysisError('anchor vanished: grammar rule stmt')
    alts = []

    def collect(e):
        if isinstance(e, ast.BinOp) and isinstance(e.op, ast.BitOr):
            collect(e.left)
            collect(e.right)
        elif isinstance(e, ast.Name):
            alts.append(e.id)
        elif isinstance(e, ast.Call):
            for a in e.args:
                collect(a)
            if isinstance(e.func, ast.Attribute):
                collect(e.func.value)
    collect(st)
    actions = {}
    for rule, f in R.parse_actions(repo):
        actions.setdefault(rule, []).append(f)
    # aliases: beep_stmt = beep_kw etc. (a rule that is just another name)
    out = {}
    node_names = {c.name for c in R.node_classes(repo)}
    for rule in alts:
        fs = actions.get(rule)
        if not fs:
            continue
        for f in fs:
            for r in ast.walk(f.node):
                if isinstance(r, ast.Return) and r.value is not None:
                    for c in ast.walk(r.value):
                        if isinstance(c, ast.Call) and \
                                dotted(c.func) in node_names:
                            out[dotted(c.func)] = (rule, f)
                    if isinstance(r.value, ast.Name):
                        # return stmts / clause / var: find constructors
                        # assigned or appended to that name
                        nm = r.value.id
                        rule_src = unparse(g.assigns.get(rule)) \
                            if g.assigns.get(rule) is not None else ''
                        for c in ast.walk(f.node):
                            if isinstance(c, ast.Call) and \
                                    dotted(c.func) in node_names:
                                # constructor under `tok == 'kw'`: feasible
                                # only if the rule mentions that keyword
                                feasible = True
                                for a in ancestors(c):
                                    if isinstance(a, ast.If) and \
                                            isinstance(a.test, ast.Compare) \
                                            and isinstance(
                                                const(a.test.comparators[0]),
                                                str) and any(
                                                c is y for s_ in a.body
                                                for y in ast.walk(s_)):
                                        kw = const(a.test.comparators[0])
                                        if f'{kw}_kw' not in rule_src:
                                            feasible = False
                                if not feasible:
                                    continue
                                par = getattr(c, '_parent', None)
                                if isinstance(par, ast.Assign) and \
                                        dotted(par.targets[0]) == nm:
                                    out[dotted(c.func)] = (rule, f)
                                if isinstance(par, ast.Call) and \
                                        dotted(par.func) == f'{nm}.append':
                                    out[dotted(c.func)] = (rule, f)
    return alts, out


def dispatch_exhaustive(ctx):
    repo = ctx.repo
    rule = 'C06.statement-dispatch-exhaustive'
    ctx.rule(rule, 'every node class the stmt rule can put into a statement '
             'list is a block start/end (consumed by parse_string), has a '
             'code generator, or is rejected unconditionally by a pass '
             'handler; a generator that depends on an enclosing block '
             '(reads codegen.cur_blocks[-1]) needs a pass check that the '
             'statement is inside that block')
    alts, classes = stmt_level_classes(repo)
    ctx.floor('stmt alternatives', len(alts), 60)
    ctx.floor('statement-level node classes', len(classes), 55)
    gens, dup = R.generators(repo)
    ctx.floor('generator_for registrations', len(gens), 63)
    for d in dup:
        ctx.finding(rule, f'qbee/qvm_codegen.py:generator_for[{d}]:dup',
                    f'two generators registered for {d} (InternalError at '
                    f'import)', 'qbee/qvm_codegen.py', 1)
    blocks = R.block_classes(repo)
    consumed = set()
    for b, (s, e, ci) in blocks.items():
        consumed |= {s, e}
    handlers = {}
    for pcls, nn, which, f in R.pass_handlers(repo):
        handlers.setdefault(nn, []).append(f)
    name_of = {c.name: R.node_name(repo, c) for c in R.node_classes(repo)}
    # which generators read the enclosing-block context directly
    ctx_readers = set()
    for cname, g in gens.items():
        for n in walk_shallow(g.node):
            if isinstance(n, ast.Subscript) and \
                    dotted(n.value) == 'codegen.cur_blocks' and \
                    const(n.slice) == -1:
                ctx_readers.add(cname)
    child_fields = {c.name: R.child_fields(repo, c)
                    for c in R.node_classes(repo)}

    def needs_context(cname, seen=()):
        if cname in ctx_readers:
            return cname
        # children generated from this generator: clause classes built by
        # the same parse action
        return None
    for cname, (grule, pa) in sorted(classes.items()):
        construct = f'qbee/grammar.py:stmt:{grule}:{cname}'
        status = None
        if cname in consumed:
            status = 'block start/end'
        elif cname in gens:
            status = 'generator'
        ctx.instance(rule, construct, sample={'class': cname,
                                              'status': status})
        hn = R.handler_name(name_of.get(cname) or '')
        if status is None:
            # rejected unconditionally?
            rejected = False
            cond_reject = []
            for f in handlers.get(hn, []):
                for s in f.node.body:
                    if isinstance(s, ast.Raise):
                        rejected = True
                for n in ast.walk(f.node):
                    if isinstance(n, ast.If) and any(
                            isinstance(s, ast.Raise) for s in n.body):
                        cond_reject.append(unparse(n.test)[:70])
            if not rejected:
                ctx.finding(rule, construct,
                            f'{cname} (grammar rule {grule}) can appear in '
                            f'a statement list but has no code generator '
                            f'and is not rejected unconditionally '
                            f'(conditional checks: {cond_reject or "none"}); '
                            f'outside its owning block code generation '
                            f'raises InternalError', pa.file, pa.line)
    # context-dependent generators: CaseStmt -> clause generators
    clause_parents = {
        # parent statement class -> child classes its generator emits
        'CaseStmt': ['SimpleCaseClause', 'CompareCaseClause',
                     'RangeCaseClause'],
    }
    for cname, (grule, pa) in sorted(classes.items()):
        kids = [cname] + clause_parents.get(cname, [])
        dep = [k for k in kids if k in ctx_readers]
        if not dep or cname in consumed:
            continue
        hn = R.handler_name(name_of.get(cname) or '')
        checked = any(
            isinstance(n, ast.Raise) for f in handlers.get(hn, [])
            for n in ast.walk(f.node))
        construct = f'qbee/grammar.py:stmt:{grule}:{cname}:needs-block'
        ctx.instance(rule, construct, sample={'reads_context_via': dep,
                                              'pass_check': checked})
        if not checked:
            ctx.finding(rule, construct,
                        f'{cname} is generated by code that reads '
                        f'codegen.cur_blocks[-1] ({dep}) but no pass handler '
                        f'rejects a {cname} outside its block: a stray '
                        f'statement crashes code generation', pa.file,
                        pa.line)


def optional_children(ctx):
    repo = ctx.repo
    rule = 'C06.optional-children-guarded'
    ctx.rule(rule, "a child field that some pass handler or generator of "
             "the node class tests for None/truthiness may be None; every "
             "other use of it as a node (gen_code_for_node(node.F), "
             "node.F.type, gen_code_for_conv(.., node.F)) must be dominated "
             "by a test of that field (or of a field its constructor ties "
             "to it)")
    gens, _ = R.generators(repo)
    hs = R.pass_handlers(repo)
    name_of = {c.name: R.handler_name(R.node_name(repo, c) or '')
               for c in R.node_classes(repo)}
    by_handler = {}
    for pcls, nn, which, f in hs:
        by_handler.setdefault(nn, []).append(f)
    # co-null groups from constructor asserts:
    # assert (a is not None and b is not None) or (a is None and b is None)
    conull = {}
    for ci in R.node_classes(repo):
        init = ci.methods.get('__init__')
        if not init:
            continue
        for a in walk_shallow(init.node):
            if isinstance(a, ast.Assert):
                t = unparse(a.test)
                names = sorted({n.id for n in ast.walk(a.test)
                                if isinstance(n, ast.Name)})
                if ' is None' in t and ' is not None' in t and \
                        len(names) >= 2 and ' or ' in t:
                    conull[ci.name] = set(names)
    n_checked = 0
    for cname, g in sorted(gens.items()):
        funcs = [g] + by_handler.get(name_of.get(cname, ''), [])
        tested = set()
        for f in funcs:
            for n in ast.walk(f.node):
                tests = []
                if isinstance(n, (ast.If, ast.IfExp, ast.While)):
                    tests.append(n.test)
                for t in tests:
                    for sub in ast.walk(t):
                        d = dotted(sub) if isinstance(
                            sub, ast.Attribute) else None
                        if d and d.startswith('node.') and \
                                d.count('.') == 1:
                            par = getattr(sub, '_parent', None)
                            # plain truthiness / is None tests only
                            if isinstance(par, (ast.If, ast.IfExp,
                                                ast.BoolOp, ast.UnaryOp)) \
                                    or (isinstance(par, ast.Compare) and
                                        isinstance(par.comparators[0],
                                                   ast.Constant) and
                                        par.comparators[0].value is None):
                                tested.add(d.split('.')[1])
        if not tested:
            continue
        for f in funcs:
            cfg = None
            for n in walk_shallow(f.node):
                field = None
                if isinstance(n, ast.Call):
                    d = dotted(n.func) or ''
                    args = []
                    if d.endswith('gen_code_for_node') and n.args:
                        args = [n.args[0]]
                    elif d == 'gen_code_for_conv' and len(n.args) > 1:
                        args = [n.args[1]]
                    for a in args:
                        da = dotted(a)
                        if da and da.startswith('node.') and \
                                da.count('.') == 1 and \
                                da.split('.')[1] in tested:
                            field = da.split('.')[1]
                elif isinstance(n, ast.Attribute) and \
                        isinstance(n.value, ast.Attribute) and \
                        dotted(n.value.value) == 'node' and \
                        n.value.attr in tested and n.attr == 'type':
                    field = n.value.attr
                if field is None:
                    continue
                n_checked += 1
                if cfg is None:
                    cfg = build_cfg(f.node, repo_noreturn)
                st = n
                while not isinstance(st, ast.stmt):
                    st = st._parent
                group = {field}
                if cname in conull and field in conull[cname]:
                    group = conull[cname]
                guarded = False
                for x in cfg.nodes:
                    if x.ast is st:
                        for tnode, lab in cfg.conditions(x):
                            for fld in group:
                                if _implies_not_none(tnode.ast.test, lab,
                                                     f'node.{fld}'):
                                    guarded = True
                # same-expression guard (node.F and not node.F.type...)
                for a in ancestors(n):
                    if a is st:
                        break
                    if isinstance(a, ast.BoolOp) and \
                            isinstance(a.op, ast.And):
                        for v in a.values:
                            if any(n is y for y in ast.walk(v)):
                                break
                            for fld in group:
                                if _implies_not_none(v, 'true',
                                                     f'node.{fld}'):
                                    guarded = True
                if isinstance(st, ast.If) and isinstance(st.test, ast.BoolOp)\
                        and isinstance(st.test.op, ast.And) and \
                        any(n is y for y in ast.walk(st.test)):
                    for v in st.test.values:
                        if any(n is y for y in ast.walk(v)):
                            break
                        for fld in group:
                            if _implies_not_none(v, 'true', f'node.{fld}'):
                                guarded = True
                construct = f'{f.file}:{f.qualname}:node.{field}'
                ctx.instance(rule, construct, sample={'guarded': guarded})
                if not guarded:
                    ctx.finding(rule, construct,
                                f'{f.qualname} uses node.{field} as a node '
                                f'at line {n.lineno} without a dominating '
                                f'test of it, although {cname}.{field} is '
                                f'tested for None elsewhere (it is '
                                f'optional): code generation fails for the '
                                f'omitted form', f.file, n.lineno)
    ctx.floor('optional-child uses examined', n_checked, 20)


def builtin_tables(ctx):
    repo = ctx.repo
    rule = 'C06.builtin-function-tables-agree'
    ctx.rule(rule, 'the keyword alternatives of builtin_func, the keys of '
             'BuiltinFuncCall.type, of the arg_spec table and the arms of '
             'gen_builtin_func_call name the same functions (a name missing '
             'from one table raises InternalError / assert False)')
    g = repo.module('qbee.grammar')
    bf = g.assigns.get('builtin_func')
    kws = {}
    for n in ast.walk(g.tree):
        if isinstance(n, ast.Assign) and isinstance(n.value, ast.Call) and \
                dotted(n.value.func) == 'CaselessKeyword' and \
                isinstance(n.targets[0], ast.Name):
            kws[n.targets[0].id] = const(n.value.args[0])
    # first Opt/Located argument: the alternation of keywords
    alts = set()
    if bf is None:
        raise AnalysisError('anchor vanished: builtin_func')
    first = None
    for n in ast.walk(bf):
        if isinstance(n, ast.BinOp) and isinstance(n.op, ast.BitOr):
            first = n
            break

    def coll(e):
        if isinstance(e, ast.BinOp) and isinstance(e.op, ast.BitOr):
            coll(e.left)
            coll(e.right)
        elif isinstance(e, ast.Name) and e.id in kws:
            alts.add(kws[e.id])
    coll(first)
    tf = repo.func('qbee.expr', 'BuiltinFuncCall.type')
    type_keys = set()
    for n in ast.walk(tf.node):
        if isinstance(n, ast.Dict) and len(n.keys) > 10:
            type_keys = {const(k) for k in n.keys}
    from ..obligations import builtin_arg_spec
    spec_keys = set(builtin_arg_spec(repo))
    gens, _ = R.generators(repo)
    gb = gens.get('BuiltinFuncCall')
    arms = set()
    for n in ast.walk(gb.node):
        if isinstance(n, ast.If) and isinstance(n.test, ast.Compare) and \
                dotted(n.test.left) == 'node.name':
            arms.add(const(n.test.comparators[0]))
    tables = {'grammar builtin_func': alts,
              'BuiltinFuncCall.type': type_keys,
              'arg_spec': spec_keys,
              'gen_builtin_func_call': arms}
    ctx.floor('builtin functions', len(alts), 26)
    allnames = set().union(*tables.values())
    for name in sorted(allnames):
        missing = [t for t, s in tables.items() if name not in s]
        ctx.instance(rule, f'builtin:{name}', sample={'missing_in': missing})
        if missing:
            ctx.finding(rule, f'builtin:{name}',
                        f'built-in function {name!r} is missing from '
                        f'{missing} (present in '
                        f'{[t for t in tables if t not in missing]})',
                        'qbee/grammar.py', getattr(bf, 'lineno', 1))


def token_tables(ctx):
    repo = ctx.repo
    rule = 'C06.token-lookups-total'
    ctx.rule(rule, 'dict lookups keyed by a grammar token cover every token '
             'the grammar can deliver: compare_op alternatives vs. '
             'binary_op_from_token; operator literals/keywords of the '
             'expression grammar; DEFtype keywords vs. the def_type table')
    g = repo.module('qbee.grammar')
    f = repo.func('qbee.expr', 'Operator.binary_op_from_token')
    keys = set()
    for n in ast.walk(f.node):
        if isinstance(n, ast.Dict):
            keys = {const(k) for k in n.keys}
    co = g.assigns.get('compare_op')
    if co is None or not isinstance(co, ast.Call):
        raise AnalysisError('anchor vanished: compare_op')
    rx = const(co.args[0])
    alts = set()
    parsed = sre_parse.parse(rx)

    def lits(items):
        s = ''
        for op, av in items:
            if str(op) == 'LITERAL':
                s += chr(av)
            else:
                return None
        return s

    def walk(items):
        for op, av in items:
            if str(op) == 'BRANCH':
                for b in av[1]:
                    s = lits(b)
                    if s is not None:
                        alts.add(s)
                    else:
                        walk(b)
            elif str(op) == 'SUBPATTERN':
                walk(av[3])
            elif str(op) == 'IN':
                for o, a in av:
                    if str(o) == 'LITERAL':
                        alts.add(chr(a))
    walk(list(parsed))
    # branches with common prefixes are factored by the regex parser;
    # recover alternatives textually as a cross-check
    inner = rx.strip('()')
    text_alts = set(inner.split('|')) if '|' in inner else set()
    alts = text_alts or alts
    ctx.floor('compare_op alternatives', len(alts), 3)
    # the language has six comparisons and three alternative spellings
    LANGUAGE = ('=', '<>', '><', '<', '>', '<=', '=<', '>=', '=>')
    for sp in LANGUAGE:
        ctx.instance(rule, f'compare_op-spelling:{sp}')
        if sp not in alts:
            ctx.finding(rule, f'qbee/grammar.py:compare_op-spelling[{sp}]',
                        f'the comparison spelling {sp!r} is no longer an '
                        f'alternative of compare_op: a program that writes '
                        f'`a {sp} b` is rejected (or parsed as something '
                        f'else) although the operator table still defines '
                        f'it', 'qbee/grammar.py', co.lineno)
    for a in sorted(alts):
        ctx.instance(rule, f'compare_op:{a}')
        if a not in keys:
            ctx.finding(rule, f'qbee/grammar.py:compare_op[{a}]',
                        f'comparison token {a!r} accepted by the grammar is '
                        f'not a key of binary_op_from_token (KeyError in the '
                        f'parse action)', 'qbee/grammar.py', co.lineno)
    # operator literals of the left-assoc levels
    lit_tokens = {}
    kw_tokens = {}
    for n in ast.walk(g.tree):
        if isinstance(n, ast.Assign) and isinstance(n.targets[0], ast.Name) \
                and isinstance(n.value, ast.Call):
            d = dotted(n.value.func)
            if d == 'Literal' and n.value.args:
                lit_tokens[n.targets[0].id] = const(n.value.args[0])
            elif d == 'CaselessKeyword' and n.value.args:
                kw_tokens[n.targets[0].id] = const(n.value.args[0])
    for rulename, opnames in (('muldiv_op', ['mul', 'div']),
                              ('addsub_op', ['plus', 'minus']),
                              ('intdiv_op', ['intdiv_op']),
                              ('mod', ['mod_kw']), ('and', ['and_kw']),
                              ('or', ['or_kw']), ('xor', ['xor_kw']),
                              ('eqv', ['eqv_kw']), ('imp', ['imp_kw'])):
        for on in opnames:
            tok = lit_tokens.get(on) or kw_tokens.get(on)
            ctx.instance(rule, f'operator-token:{on}', sample={'token': tok})
            if tok is None:
                raise AnalysisError(f'anchor vanished: operator terminal '
                                    f'{on}')
            if tok not in keys:
                ctx.finding(rule, f'qbee/grammar.py:{on}',
                            f'operator token {tok!r} is not a key of '
                            f'binary_op_from_token', 'qbee/grammar.py', 1)
    # deftype
    pd = repo.func('qbee.grammar', 'parse_deftype')
    dkeys = set()
    for n in ast.walk(pd.node):
        if isinstance(n, ast.Dict):
            dkeys = {const(k) for k in n.keys}
    dt = g.assigns.get('deftype_stmt')
    dalts = {kw_tokens[n.id] for n in ast.walk(dt)
             if isinstance(n, ast.Name) and n.id in kw_tokens and
             n.id.startswith('def')}
    ctx.instance(rule, 'deftype', sample={'grammar': sorted(dalts),
                                          'table': sorted(dkeys)})
    if dalts != dkeys:
        ctx.finding(rule, 'qbee/grammar.py:parse_deftype',
                    f'DEFtype keywords of the grammar {sorted(dalts)} differ '
                    f'from the def_type table {sorted(dkeys)}',
                    pd.file, pd.line)
    # unary tokens
    uf = repo.func('qbee.expr', 'Operator.unary_op_from_token')
    ukeys = set()
    for n in ast.walk(uf.node):
        if isinstance(n, ast.Dict):
            ukeys = {const(k) for k in n.keys}
    pu = repo.func('qbee.grammar', 'parse_unary_expr')
    guard = set()
    for n in ast.walk(pu.node):
        if isinstance(n, ast.Compare) and isinstance(n.ops[0], ast.In) and \
                isinstance(n.comparators[0], (ast.Tuple, ast.List)):
            guard = {const(e) for e in n.comparators[0].elts}
    ctx.instance(rule, 'unary-tokens', sample={'guard': sorted(guard),
                                               'table': sorted(ukeys)})
    if guard != ukeys:
        ctx.finding(rule, 'qbee/grammar.py:parse_unary_expr',
                    f'unary tokens tested in parse_unary_expr '
                    f'{sorted(guard)} differ from unary_op_from_token '
                    f'{sorted(ukeys)}', pu.file, pu.line)


def data_label_lookup(ctx):
    repo = ctx.repo
    rule = 'C06.restore-label-lookup-total'
    ctx.rule(rule, 'the label -> DATA part lookup used by RESTORE <label> '
             'is total over the labels the pass accepts (any defined label '
             'of the routine), i.e. it does not use list.index/dict[...] '
             'over the labels that own DATA without a guard')
    f = repo.func('qbee.qvm_codegen', 'QvmCode.get_data_label_index')
    partial = [unparse(c) for c in ast.walk(f.node)
               if isinstance(c, ast.Call) and
               isinstance(c.func, ast.Attribute) and c.func.attr == 'index']
    guarded = any(isinstance(n, ast.Try) for n in ast.walk(f.node)) or any(
        isinstance(n, ast.Compare) and isinstance(n.ops[0], (ast.In,
                                                             ast.NotIn))
        for n in ast.walk(f.node))
    p = repo.func('qbee.compiler', 'Pass2.process_restore_pre')
    restricts = '.data' in unparse(p.node)
    construct = f'{f.file}:QvmCode.get_data_label_index'
    ctx.instance(rule, construct, sample={'partial_ops': partial,
                                          'guarded': guarded,
                                          'pass_restricts_to_data_labels':
                                          restricts})
    if partial and not guarded and not restricts:
        ctx.finding(rule, construct,
                    'RESTORE <label> accepts any defined label but the part '
                    'index is list(self._data.keys()).index(label): a label '
                    'that owns no DATA raises ValueError in the code '
                    'generator', f.file, f.line)


def _integral_can_hold_rejects_nonfinite(repo):
    f = repo.func('qbee.expr', 'Type.can_hold')
    arms = 0
    for n in ast.walk(f.node):
        if isinstance(n, ast.If) and isinstance(n.test, ast.Compare) and \
                any(isinstance(c, ast.Attribute) and
                    c.attr in ('INTEGER', 'LONG')
                    for c in ast.walk(n.test)):
            r = n.body[0] if n.body else None
            if isinstance(r, ast.Return) and \
                    isinstance(r.value, ast.Compare) and \
                    len(r.value.ops) == 2:
                arms += 1
    return arms >= 2


def compile_time_partial_ops(ctx):
    repo = ctx.repo
    rule = 'C06.compile-time-partial-operation'
    ctx.rule(rule, 'round()/int() applied at compile time to a float '
             'constant taken from the program is guarded against '
             'non-finite values (1D400 parses to inf) or its OverflowError '
             'is caught')
    f = repo.func('qbee.qvm_codegen', 'QvmCode.optimize')
    n = 0
    for c in ast.walk(f.node):
        if isinstance(c, ast.Call) and dotted(c.func) == 'round' and \
                c.args and isinstance(c.args[0], ast.Name):
            n += 1
            guarded = False
            arg = c.args[0].id
            under_integral = under_can_hold = False
            prev = c
            for a in ancestors(c):
                if isinstance(a, ast.Try):
                    guarded = True
                if isinstance(a, ast.If) and ('isfinite' in unparse(a.test)
                                              or 'isinf' in unparse(a.test)):
                    guarded = True
                if isinstance(a, ast.If) and any(prev is b for b in a.body):
                    for t in ast.walk(a.test):
                        if isinstance(t, ast.Attribute) and \
                                t.attr == 'is_integral':
                            under_integral = True
                        if isinstance(t, ast.Call) and \
                                isinstance(t.func, ast.Attribute) and \
                                t.func.attr == 'can_hold' and t.args and \
                                isinstance(t.args[0], ast.Name) and \
                                t.args[0].id == arg:
                            under_can_hold = True
                prev = a
            if under_integral and under_can_hold and \
                    _integral_can_hold_rejects_nonfinite(repo):
                # Type.can_hold of an integral type is a chained range
                # comparison, which is False for inf and NaN
                guarded = True
            construct = f'{f.file}:QvmCode.optimize:round(push-operand)'
            ctx.instance(rule, construct, sample={'guarded': guarded})
            if not guarded:
                ctx.finding(rule, construct,
                            'the push+conv peephole fold applies round() to '
                            'a float push operand without a finiteness '
                            'guard: `x& = 1D400` at -O2 raises OverflowError '
                            'in the compiler', f.file, c.lineno)
    ctx.floor('compile-time round() sites in optimize', n, 1)


def asserted_preconditions(ctx):
    repo = ctx.repo
    rule = 'C06.asserted-precondition-established-by-callers'
    ctx.rule(rule, 'ArrayDimRange.static_lbound/static_ubound assert that '
             'the bound is constant; every use (compile passes, layout, '
             'listing writer) must be dominated by a test that establishes '
             'it (is_static_array / is_const / array_dims_are_const), else '
             'an accepted program with a dynamic array raises '
             'AssertionError')
    establishing = ('is_static_array', 'is_const', 'array_dims_are_const')
    # confirm the belief: the properties do assert constness
    for qn in ('ArrayDimRange.static_lbound', 'ArrayDimRange.static_ubound'):
        f = repo.func('qbee.stmt', qn)
        if not any(isinstance(s, ast.Assert) and 'is_const' in unparse(s)
                   for s in f.node.body):
            ctx.observe(f'{qn} no longer asserts constness; the rule is '
                        f'vacuous for it')
            return
    n = 0
    for f in repo.all_functions():
        if f.module.name == 'qbee.stmt' and f.qualname.startswith(
                'ArrayDimRange.'):
            continue
        uses = [x for x in ast.walk(f.node) if isinstance(x, ast.Attribute)
                and x.attr in ('static_lbound', 'static_ubound')]
        if not uses:
            continue
        cfg = build_cfg(f.node, repo_noreturn)
        for u in uses:
            n += 1
            st = u
            while not isinstance(st, ast.stmt):
                st = st._parent
            # enclosing function may be a nested def (fmt_type)
            owner = st
            while not isinstance(owner, (ast.FunctionDef, ast.Lambda)):
                owner = owner._parent
            c = cfg if owner is f.node else build_cfg(owner, repo_noreturn)
            guarded = False
            for x in c.nodes:
                if x.ast is st:
                    for tnode, lab in c.conditions(x):
                        if tnode.kind != 'test':
                            continue
                        t = tnode.ast.test
                        neg = isinstance(t, ast.UnaryOp) and \
                            isinstance(t.op, ast.Not)
                        txt = unparse(t.operand if neg else t)
                        if any(e in txt for e in establishing) and (
                                (not neg and lab == 'true') or
                                (neg and lab == 'false')):
                            guarded = True
            # comprehension filter / same-expression conjunction
            for a in ancestors(u):
                if isinstance(a, ast.comprehension) and any(
                        any(e in unparse(i) for e in establishing)
                        for i in a.ifs):
                    guarded = True
                if a is st:
                    break
            construct = f'{f.file}:{f.qualname}:{u.attr}'
            ctx.instance(rule, construct, sample={'guarded': guarded})
            if not guarded:
                ctx.finding(rule, construct,
                            f'{f.qualname} reads .{u.attr} without a '
                            f'dominating is_static_array / is_const test: '
                            f'for a dynamic array the assert in '
                            f'ArrayDimRange.{u.attr} fails '
                            f'(AssertionError)', f.file, u.lineno)
    ctx.floor('uses of static array bounds', n, 5)


def run(ctx):
    ctx.clauses = [
        'statement dispatch exhaustiveness',
        'optional children are guarded (contradiction rule)',
        'built-in function tables agree',
        'token lookups are total',
        'RESTORE label lookup is total',
        'armed compile-time partial operations',
        'parse actions succeed on every shape their rule delivers '
        '(thorough tier: grammar shape analysis)',
    ]
    ctx.not_decided = ['termination, recursion depth of the parser, memory']
    dispatch_exhaustive(ctx)
    optional_children(ctx)
    builtin_tables(ctx)
    token_tables(ctx)
    data_label_lookup(ctx)
    compile_time_partial_ops(ctx)
    asserted_preconditions(ctx)
    from .. import gensim
    gensim.check_generator_totality(ctx, 'C06')
    try:
        from .. import grammar_shapes
    except ImportError:
        grammar_shapes = None
    if grammar_shapes is not None:
        grammar_shapes.check_parse_actions(ctx, 'C06')
    return ('Exhaustiveness and agreement analysis of the compiler\'s '
            'dispatch tables (grammar alternatives -> parse actions -> node '
            'classes -> generators / pass handlers; built-in function '
            'tables; token tables via re._parser), a contradiction rule for '
            'optional child fields decided on the CFG, and shape analysis '
            'of parse actions against the token-list shapes their grammar '
            'rule can deliver. Does not decide termination or resource '
            'limits.')
