"""C13 -- debugger expression evaluation (structural clauses)."""
import ast

from .. import registries as R
from .. import effects
from ..astutil import dotted, const, unparse, walk_shallow, ancestors
from ..callgraph import CallGraph
from ..cfg import build_cfg, repo_noreturn
from ..model import AnalysisError
from .c07 import _implies_not_none

MACHINE_MUTATORS = {'set_cell', 'push', 'pop', 'append_local', 'write_var',
                    'set_temp_reference', 'tick', 'run', 'next', 'trap',
                    '_trap', 'connect_device', 'execute'}


# raise sites that the class-hierarchy call graph reaches from do_print but
# that cannot execute there; frozen with one reason each
RAISE_EXEMPT = {
    'qbee/compiler.py:CompilationUnit.eval_lvalue:raise InternalError':
        'in the debugger every tree is bound to the QvmEval context '
        '(Cmd.do_print: tree.bind(self.eval_context)), so context.'
        'eval_lvalue is QvmEval.eval_lvalue, never CompilationUnit\'s',
    'qbee/exceptions.py:CompileError.__init__:raise InternalError':
        'raised only for a non-string message; every construction passes a '
        'literal or f-string',
    'qbee/expr.py:BuiltinFuncCall.type:raise InternalError':
        'the name comes from the keyword alternatives of builtin_func, all '
        'of which are keys of the type table (C06 builtin-table agreement)',
    'qbee/expr.py:Type.py_type:raise ValueError':
        'only for user-defined/unknown types; the evaluation path applies '
        'it to literal and numeric element types',
    'qbee/expr.py:Type.type_char:raise ValueError':
        'only for user-defined/unknown types; reached via __repr__ only',
    'qbee/expr.py:UnaryOp.eval:raise InternalError':
        'op is a unary Operator member by the assert in UnaryOp.__init__ '
        'and all three members have an arm',
    'qbee/node.py:Node.children:raise InternalError':
        'child fields hold nodes or lists of nodes by construction of the '
        'parse actions',
    'qbee/node.py:Node.context:raise InternalError':
        'do_print binds the tree before evaluating it',
}


def eval_tree(ctx, cg):
    """Functions reachable from Cmd.do_print during evaluation."""
    repo = ctx.repo
    root = repo.func('qvm.dbg', 'Cmd.do_print')

    def stop(f):
        # pyparsing internals are outside the repo; grammar parse actions
        # run inside the first try of do_print (parse errors are caught)
        return f.module.name == 'qbee.grammar'
    reach = cg.reachable([root], stop=stop)
    reach = {f for f in reach if f.module.name != 'qbee.grammar'}
    return root, reach


def read_only(ctx, root, reach):
    rule = 'C13.evaluation-is-read-only'
    ctx.rule(rule, 'no function reachable from Cmd.do_print writes machine '
             'state: no store/delete/mutator call through cpu, segments, '
             'frames or cells, and no CPU instruction handler is reachable')
    n = 0
    for f in sorted(reach, key=lambda f: f.key):
        n += 1
        construct = f'{f.file}:{f.qualname}'
        bad = []
        if f.name.startswith('_exec_') and f.module.name in ('qvm.cpu',
                                                             'qvm.machine'):
            bad.append(('handler', f.qualname, f.line))
        for kind, rootname, path, line, text in effects.writes(f.node):
            comps = ([rootname] if rootname else []) + \
                (path.split('.') if path else [])
            through = [c for c in comps[:-1] if c in (
                'cpu', 'machine', 'segment', 'frame', 'globals_segment',
                'cur_frame', 'stack')]
            if kind == 'mutcall' and comps[-1] in MACHINE_MUTATORS and \
                    (through or rootname in ('segment', 'frame')):
                bad.append((kind, text, line))
            elif kind != 'mutcall' and (through or rootname in (
                    'segment', 'frame', 'cell_value')):
                bad.append((kind, text, line))
        ctx.instance(rule, construct,
                     sample={'writes': bad} if bad else None)
        for kind, text, line in bad:
            ctx.finding(rule, f'{construct}:{text}',
                        f'evaluation path reaches {f.qualname}, which '
                        f'writes machine state ({kind} {text})', f.file,
                        line)
    ctx.floor('functions on the evaluation path', n, 15)


def only_eval_errors(ctx, root, reach, cg):
    repo = ctx.repo
    rule = 'C13.only-evaluation-errors-escape'
    ctx.rule(rule, 'explicit raise statements reachable from the '
             'evaluation step of Cmd.do_print raise EvalError, the only '
             'class that step catches')
    # what does the evaluation try catch?
    caught = set()
    trys = [n for n in walk_shallow(root.node) if isinstance(n, ast.Try)]
    for t in trys:
        if any('.eval()' in unparse(s) for s in t.body):
            for h in t.handlers:
                if isinstance(h.type, ast.Tuple):
                    caught |= {dotted(e) for e in h.type.elts}
                elif h.type is None:
                    caught.add('*')
                else:
                    caught.add(dotted(h.type))
    if not caught:
        raise AnalysisError('anchor vanished: try around tree.eval() in '
                            'do_print')
    bind_guarded = any(
        any('.bind(' in unparse(s) for s in t.body) for t in trys)
    n = 0
    for f in sorted(reach, key=lambda f: f.key):
        if f == root:
            continue
        for r in walk_shallow(f.node):
            if not isinstance(r, ast.Raise) or r.exc is None:
                continue
            e = r.exc.func if isinstance(r.exc, ast.Call) else r.exc
            cls = (dotted(e) or unparse(e)).split('.')[-1]
            n += 1
            construct = f'{f.file}:{f.qualname}:raise {cls}'
            ok = cls in caught or '*' in caught or 'Exception' in caught \
                or bool(set(EXC_BASES.get(cls, ())) & caught)
            # raised and caught locally?
            for a in ancestors(r):
                if isinstance(a, ast.Try) and any(
                        r in list(ast.walk(s)) for s in a.body):
                    for h in a.handlers:
                        hs = {dotted(x) for x in h.type.elts} if \
                            isinstance(h.type, ast.Tuple) else \
                            {dotted(h.type) if h.type else '*'}
                        if cls in hs or '*' in hs:
                            ok = True
            if not ok:
                # caught at every call site of f on the evaluation path?
                callers = [g for g in reach if f in cg.edges.get(g, ())]
                sites_ok = []
                for g in callers:
                    for call, targets in cg.sites.get(g, ()):
                        if f not in targets:
                            continue
                        c_ok = False
                        for a in ancestors(call):
                            if a is g.node:
                                break
                            if isinstance(a, ast.Try) and any(
                                    call in list(ast.walk(s_))
                                    for s_ in a.body):
                                for h in a.handlers:
                                    hs = {dotted(x) for x in h.type.elts} \
                                        if isinstance(h.type, ast.Tuple) \
                                        else {dotted(h.type) if h.type
                                              else '*'}
                                    if cls in hs or '*' in hs or \
                                            'Exception' in hs:
                                        c_ok = True
                        sites_ok.append(c_ok)
                if sites_ok and all(sites_ok):
                    ok = True
            ctx.instance(rule, construct, sample={'class': cls, 'caught':
                                                  ok})
            if not ok and construct in RAISE_EXEMPT:
                ctx.observe(f'{construct} reachable only in the call-graph '
                            f'over-approximation: {RAISE_EXEMPT[construct]}')
                continue
            if not ok:
                ctx.finding(rule, construct,
                            f'{f.qualname} raises {cls} on the debugger '
                            f'evaluation path; do_print catches only '
                            f'{sorted(caught)}, so the debugger crashes '
                            f'instead of reporting an evaluation error',
                            f.file, r.lineno)
    ctx.floor('raise statements on the evaluation path', n, 10)
    return caught


EXC_BASES = {
    'OverflowError': ('ArithmeticError',),
    'ZeroDivisionError': ('ArithmeticError',),
    'FloatingPointError': ('ArithmeticError',),
    'IndexError': ('LookupError',),
    'KeyError': ('LookupError',),
}


def partial_arith(ctx, reach, caught):
    rule = 'C13.partial-arithmetic-caught'
    ctx.rule(rule, 'division/modulo/power applied to evaluated operands on '
             'the evaluation path raise ZeroDivisionError/OverflowError; '
             'do_print must catch them (or the operation must be guarded)')
    n = 0
    for f in sorted(reach, key=lambda f: f.key):
        if f.module.name not in ('qbee.expr', 'qvm.eval'):
            continue
        ops = [x for x in ast.walk(f.node) if isinstance(x, ast.BinOp) and
               isinstance(x.op, (ast.Div, ast.FloorDiv, ast.Mod, ast.Pow))
               and isinstance(x.left, ast.Name) and
               isinstance(x.right, ast.Name)]
        if not ops:
            continue
        n += len(ops)
        construct = f'{f.file}:{f.qualname}:partial-arithmetic'
        ok = {'ZeroDivisionError', 'OverflowError'} <= caught or \
            'ArithmeticError' in caught or 'Exception' in caught or \
            '*' in caught
        ctx.instance(rule, construct,
                     sample={'ops': [unparse(o) for o in ops][:5],
                             'caught_by_do_print': ok})
        if not ok:
            ctx.finding(rule, construct,
                        f'{f.qualname} applies {[unparse(o) for o in ops]} '
                        f'to evaluated operands; do_print catches only '
                        f'{sorted(caught)}: `print 1/0` crashes the '
                        f'debugger with ZeroDivisionError', f.file,
                        ops[0].lineno)
    ctx.floor('partial arithmetic operations on the evaluation path', n, 3)


def frame_guard(ctx):
    repo = ctx.repo
    rule = 'C13.frame-state-guarded'
    ctx.rule(rule, 'QvmEval methods that dereference cpu.cur_frame test it '
             'for None first (it is None after the program finished); '
             'sibling methods must agree (eval_var tests it)')
    ci = repo.cls('qvm.eval', 'QvmEval')
    n = 0
    testers = []
    for name, f in ci.methods.items():
        cfg = None
        # locals aliasing self.cpu.cur_frame
        aliases = {'self.cpu.cur_frame'}
        for s in walk_shallow(f.node):
            if isinstance(s, ast.Assign) and \
                    unparse(s.value) == 'self.cpu.cur_frame' and \
                    isinstance(s.targets[0], ast.Name):
                aliases.add(s.targets[0].id)
        for node in walk_shallow(f.node):
            if not (isinstance(node, ast.Attribute) and
                    isinstance(node.ctx, ast.Load) and
                    unparse(node.value) in aliases and
                    node.attr != 'cur_frame'):
                continue
            n += 1
            subj = unparse(node.value)
            if cfg is None:
                cfg = build_cfg(f.node, repo_noreturn)
            st = node
            while not isinstance(st, ast.stmt):
                st = st._parent
            guarded = False
            for x in cfg.nodes:
                if x.ast is st:
                    for tnode, lab in cfg.conditions(x):
                        for a in aliases:
                            if _implies_not_none(tnode.ast.test, lab, a):
                                guarded = True
            construct = f'{f.file}:QvmEval.{name}:{subj}.{node.attr}'
            ctx.instance(rule, construct, sample={'guarded': guarded})
            if guarded:
                testers.append(name)
            else:
                ctx.finding(rule, construct,
                            f'QvmEval.{name} dereferences {subj}.{node.attr} '
                            f'without testing the frame for None (sibling '
                            f'eval_var raises EvalError("No stack frame")): '
                            f'`print x` after the program finished raises '
                            f'AttributeError', f.file, node.lineno)
    ctx.floor('cur_frame dereferences in QvmEval', n, 2)


def shared_layout(ctx):
    repo = ctx.repo
    rule = 'C13.layout-is-shared-not-rederived'
    ctx.rule(rule, 'qvm/eval.py obtains variable slots and type sizes from '
             'qvm.memlayout (get_global_var_idx, get_local_var_idx, '
             'get_type_size), the functions the assembler uses')
    m = repo.module('qvm.eval')
    for name in ('get_global_var_idx', 'get_local_var_idx', 'get_type_size'):
        imp = m.imports.get(name)
        used = any(isinstance(c, ast.Call) and dotted(c.func) == name
                   for c in ast.walk(m.tree))
        ctx.instance(rule, f'{m.relpath}:{name}',
                     sample={'import': imp, 'used': used})
        if imp != ('attr', 'qvm.memlayout', name) or not used:
            ctx.finding(rule, f'{m.relpath}:{name}',
                        f'qvm/eval.py does not use memlayout.{name} '
                        f'(import {imp}, used {used})', m.relpath, 1)
    # eval_var: globals from globals_segment, locals from cur_frame
    f = repo.func('qvm.eval', 'QvmEval.eval_var')
    rets = [unparse(r.value) for r in ast.walk(f.node)
            if isinstance(r, ast.Return) and r.value is not None]
    ok = any('self.cpu.globals_segment' in r and 'get_global_var_idx' in r
             for r in rets) and any(
        'self.cpu.cur_frame' in r for r in rets)
    ctx.instance(rule, f'{f.file}:QvmEval.eval_var', sample={'returns':
                                                             rets})
    if not ok:
        ctx.finding(rule, f'{f.file}:QvmEval.eval_var',
                    f'eval_var returns {rets}; expected (globals_segment, '
                    f'global idx) and (cur_frame, local idx)', f.file,
                    f.line)
    # frame -> routine mapping by code_start
    fr = repo.func('qvm.dbg', 'Cmd.find_routine')
    from .. import pat
    ok = pat.has('_R.start_offset <= addr < _R.end_offset', fr.node)
    ctx.instance(rule, f'{fr.file}:Cmd.find_routine')
    if not ok:
        ctx.finding(rule, f'{fr.file}:Cmd.find_routine',
                    'find_routine no longer selects the routine whose code '
                    'range contains the address', fr.file, fr.line)
    cs = repo.func('qvm.cpu', 'QvmCpu._exec_frame')
    ok = any(isinstance(c, ast.Call) and any(
        k.arg == 'code_start' and unparse(k.value) == 'self.pc'
        for k in c.keywords) for c in ast.walk(cs.node))
    ctx.instance(rule, f'{cs.file}:QvmCpu._exec_frame:code_start')
    if not ok:
        ctx.finding(rule, f'{cs.file}:QvmCpu._exec_frame:code_start',
                    'frames are no longer tagged with the address after '
                    'their frame instruction', cs.file, cs.line)


def const_lookup_order(ctx):
    repo = ctx.repo
    rule = 'C13.const-lookup-order-agrees-with-compiler'
    ctx.rule(rule, 'the debugger resolves a CONST name in the same order as '
             'the compiler: the current routine\'s local CONSTs shadow the '
             'module-level ones (sibling agreement of '
             'CompilationUnit.eval_lvalue and QvmEval.eval_lvalue)')
    from ..astutil import canon
    orders = {}
    for mod, qn in (('qbee.compiler', 'CompilationUnit.eval_lvalue'),
                    ('qvm.eval', 'QvmEval.eval_lvalue')):
        f = repo.func(mod, qn)
        order = []
        for n in ast.walk(f.node):
            if isinstance(n, ast.If) and any(isinstance(s, ast.Return)
                                             for s in n.body):
                t = canon(n.test, f.node)
                has_l = 'local_consts' in t
                has_g = 'global_consts' in t
                if has_l != has_g:
                    order.append((n.lineno, 'local' if has_l else 'global'))
        order.sort()
        orders[qn] = [k for _, k in order]
        ctx.instance(rule, f'{f.file}:{qn}', sample={'order': orders[qn]})
    a, b = orders.values()
    if a[:2] != ['local', 'global']:
        raise AnalysisError('anchor vanished: const lookup order in '
                            'CompilationUnit.eval_lvalue')
    if b[:2] != a[:2]:
        f = repo.func('qvm.eval', 'QvmEval.eval_lvalue')
        ctx.finding(rule, f'{f.file}:QvmEval.eval_lvalue:const-order',
                    f'the debugger looks CONST names up in order {b} but '
                    f'the compiler in order {a}: inside a procedure a local '
                    f'CONST that shadows a module-level one evaluates to '
                    f'the wrong value', f.file, f.line)


def subscript_rounding(ctx):
    """The machine rounds a fractional array subscript (conv to LONG is
    int(round(x))); the evaluator must convert the same way."""
    repo = ctx.repo
    rule = 'C13.subscripts-rounded-like-the-machine'
    ctx.rule(rule, 'every int(...) conversion in qvm/eval.py is applied to '
             'round(...), as the conv handlers of the CPU do for a float '
             'subscript (truncation would select a different element)')
    n = 0
    for f in repo.all_functions():
        if f.module.name != 'qvm.eval':
            continue
        for c in walk_shallow(f.node):
            if isinstance(c, ast.Call) and dotted(c.func) == 'int' and \
                    len(c.args) == 1:
                n += 1
                a = c.args[0]
                ok = isinstance(a, ast.Call) and dotted(a.func) == 'round'
                construct = f'{f.file}:{f.qualname}:int()'
                ctx.instance(rule, construct, sample={'rounds': ok})
                if not ok:
                    ctx.finding(rule, construct,
                                f'{f.qualname} converts with '
                                f'`{unparse(c)[:50]}` (truncation); the '
                                f'machine rounds a fractional subscript, so '
                                f'`print a(x!)` shows a different element '
                                f'than the program reads', f.file, c.lineno)
    ctx.floor('int() conversions in qvm/eval.py', n, 1)


def segment_index_pairs(ctx):
    """A storage location is a (segment, index) pair.  Wherever the
    evaluator rebinds the segment it reads from (following a reference) it
    must rebind the index with it: an index that belongs to the old segment
    addresses an unrelated cell of the new one."""
    repo = ctx.repo
    rule = 'C13.segment-and-index-rebound-together'
    ctx.rule(rule, 'in qvm/eval.py the two names passed together as '
             '(segment, index) to read_array / read_struct / get_cell are '
             'reassigned together: a branch that assigns the segment name '
             'also assigns the index name (following a REFERENCE switches '
             'both)')
    n = 0
    for f in repo.all_functions():
        if f.module.name != 'qvm.eval':
            continue
        pairs = set()
        for c in walk_shallow(f.node):
            if isinstance(c, ast.Call) and isinstance(c.func, ast.Attribute):
                if c.func.attr in ('read_array', 'read_struct') and \
                        len(c.args) >= 2 and \
                        isinstance(c.args[0], ast.Name) and \
                        isinstance(c.args[1], ast.Name):
                    pairs.add((c.args[0].id, c.args[1].id))
                if c.func.attr == 'get_cell' and \
                        isinstance(c.func.value, ast.Name) and c.args and \
                        isinstance(c.args[0], ast.Name):
                    pairs.add((c.func.value.id, c.args[0].id))
        params = {a.arg for a in f.node.args.args}
        for seg, idx in sorted(pairs):
            if seg in params and idx in params and not any(
                    isinstance(x, ast.Name) and x.id == seg and
                    isinstance(x.ctx, ast.Store)
                    for x in walk_shallow(f.node)):
                continue
            # every statement list in which seg is assigned
            for body in (b for x in ast.walk(f.node)
                         for b in (getattr(x, 'body', None),
                                   getattr(x, 'orelse', None))
                         if isinstance(b, list)):
                def assigned(name, stmts):
                    for st in stmts:
                        if isinstance(st, ast.Assign):
                            for t in st.targets:
                                for e in (t.elts if isinstance(
                                        t, (ast.Tuple, ast.List)) else [t]):
                                    if isinstance(e, ast.Name) and \
                                            e.id == name:
                                        return st
                    return None
                sa = assigned(seg, body)
                if sa is None:
                    continue
                n += 1
                ia = assigned(idx, body)
                construct = (f'{f.file}:{f.qualname}:'
                             f'{unparse(sa.value)[:40]}')
                ctx.instance(rule, construct,
                             sample={'index_rebound': ia is not None})
                if ia is None:
                    ctx.finding(rule, construct,
                                f'{f.qualname} rebinds the segment '
                                f'(`{unparse(sa)[:60]}`) without rebinding '
                                f'the index it is used with: later reads '
                                f'address the new segment at the old '
                                f'variable offset', f.file, sa.lineno)
    ctx.floor('segment rebinding sites in qvm/eval.py', n, 2)


def run(ctx):
    ctx.clauses = [
        'evaluation is read-only (effects over the call tree of do_print)',
        'only EvalError escapes the evaluation step',
        'cur_frame is tested before use (sibling agreement)',
        'variable layout is taken from qvm.memlayout',
        'the array reader visits the addresses _exec_arridx computes '
        '(polynomial domain)',
    ]
    ctx.not_decided = ['agreement of evaluated values with the running '
                       'program (behavioural)']
    cg = CallGraph(ctx.repo, mode='cha')
    root, reach = eval_tree(ctx, cg)
    ctx.extra['evaluation_path_functions'] = sorted(f.key for f in reach)
    read_only(ctx, root, reach)
    caught = only_eval_errors(ctx, root, reach, cg)
    partial_arith(ctx, reach, caught)
    frame_guard(ctx)
    shared_layout(ctx)
    const_lookup_order(ctx)
    segment_index_pairs(ctx)
    subscript_rounding(ctx)
    from .. import strides
    strides.check_reader_side(ctx, 'C13',
                              4 if ctx.tier == 'thorough' else 3)
    strides.check_accessor(ctx, 'C13', 4 if ctx.tier == 'thorough' else 3)
    return ('Effects and escape analysis over the class-hierarchy call graph '
            'rooted at Cmd.do_print: no machine-state write and no CPU '
            'handler is reachable; explicit raises on that path are compared '
            'with what do_print catches; cur_frame dereferences in QvmEval '
            'must be dominated by a None test; layout helpers come from '
            'qvm.memlayout; the element addresses read by QvmEval.read_array are '
            'obtained as polynomials in the loop iteration numbers and '
            'compared with the address polynomial of _exec_arridx. Value '
            'agreement is NOT decided. Also: QArray.at accepts exactly the index tuples _exec_arridx accepts (polynomial domain), segment and index are rebound together, subscripts are rounded like the machine.')