"""C09 -- module writer, loader, disassembler and listing agree."""
import ast

from .. import registries as R
from .. import fmt as F
from ..astutil import dotted, const, unparse, walk_shallow, fstring_pattern, \
    local_defs
from ..cfg import build_cfg, repo_noreturn
from ..model import AnalysisError
from .. import pat

PSEUDO = ('_label', '_dbg_info_start', '_dbg_info_end', '_empty_block')
TYPE_CHARS = '%&!#$'


def _loop_over(fn_node, what):
    for n in ast.walk(fn_node):
        if isinstance(n, ast.For) and what in unparse(n.iter):
            return n
        if isinstance(n, ast.While) and what in unparse(n.test):
            return n
    return None


def codec_agreement(ctx):
    repo = ctx.repo
    instrs = R.instructions(repo)
    opcls = R.operand_classes(repo)
    ctx.floor('instructions', len(instrs), 141)
    ctx.floor('operand classes', len(opcls), 8)
    asm = repo.func('qbee.qvm_codegen', 'QvmCode.assembled')
    dis = repo.func('qvm.module', 'QModule.disassemble')
    asm_loop = _loop_over(asm.node, 'self._instrs')
    dis_loop = next((n for n in ast.walk(dis.node)
                     if isinstance(n, ast.While)), None)
    if asm_loop is None or dis_loop is None:
        raise AnalysisError('anchor vanished: assembler/disassembler loop')
    bconv = F.bconv_helper(asm.node)
    helpers = {bconv[0]: bconv[1]} if bconv else {}
    asm_subj = F.dispatch_subject(asm_loop.body)
    dis_subj = F.dispatch_subject(dis_loop.body)

    rule = 'C09.codec-agreement'
    ctx.rule(rule, 'for every opcode the assembler arm, the Operand '
             'encode/decode classes used by the CPU and the disassembler '
             'arm use the same operand count, widths and signedness')
    rule_cov = 'C09.codec-dispatch-coverage'
    ctx.rule(rule_cov, 'every opcode that carries operands is handled by a '
             'specific arm of the assembler and of the disassembler; '
             'operand-less opcodes reach no packing arm')
    codes = {}
    for op, d in sorted(instrs.items()):
        if d.code in codes:
            ctx.finding('C09.opcode-unique', f'qvm/instrs.py:def_instr[{op}]',
                        f'opcode {d.code} used by {codes[d.code]} and {op}',
                        'qvm/instrs.py', d.line)
        codes[d.code] = op
        for c in d.operands:
            if c not in opcls:
                raise AnalysisError(f'operand class {c} of {op} not found')
        enc = ''.join(F.strip(opcls[c]['enc'][0]) for c in d.operands)
        dec = ''.join(F.strip(opcls[c]['dec'][0]) for c in d.operands)
        wa = F.ChainWalk(op, helpers, asm_subj)
        wa.walk(asm_loop.body)
        a_fmts = list(wa.formats)
        for test, f1, f2 in wa.alt_formats:
            # both sides of an undecidable test must pack alike
            if f1 and f2 and [F.strip(x) for x in f1] != \
                    [F.strip(x) for x in f2]:
                ctx.finding(rule, f'{asm.file}:QvmCode.assembled[{op}]:alt',
                            f'arm for {op} packs {f1} or {f2} depending on '
                            f'{test}', asm.file, asm.line)
            a_fmts += f1 or f2
        a = ''.join(F.strip(x) for x in a_fmts)
        wd = F.ChainWalk(op, None, dis_subj)
        wd.walk(dis_loop.body)
        d_fmts = list(wd.formats)
        for test, f1, f2 in wd.alt_formats:
            d_fmts += f1 or f2
        dd = ''.join(F.strip(x) for x in d_fmts)
        construct = f'qvm/instrs.py:def_instr[{op}]'
        ctx.instance(rule, construct, nontrivial=bool(d.operands),
                     sample={'op': op, 'asm': a, 'instr_enc': enc,
                             'instr_dec': dec, 'disasm': dd}
                     if d.operands else None)
        sides = {'assembler': a, 'Operand._encode': enc,
                 'Operand._decode (CPU)': dec, 'disassembler': dd}
        if len(set(sides.values())) != 1:
            ctx.finding(rule, construct,
                        f'operand encodings of {op!r} disagree: {sides}',
                        'qvm/instrs.py', d.line, facts=sides)
        ctx.instance(rule_cov, construct, nontrivial=bool(d.operands))
        if d.operands and (wa.arm is None or wd.arm is None):
            ctx.finding(rule_cov, construct + ':coverage',
                        f'{op!r} carries operands {d.operands} but '
                        f'{"assembler" if wa.arm is None else "disassembler"}'
                        f' has no arm for it', 'qvm/instrs.py', d.line)
    # size attribute equals format width
    rule_sz = 'C09.operand-size-matches-format'
    ctx.rule(rule_sz, 'Operand.size equals struct.calcsize of its formats')
    for name, info in opcls.items():
        ctx.instance(rule_sz, f'qvm/instrs.py:{name}',
                     sample={'size': info['size'], 'enc': info['enc'],
                             'dec': info['dec']})
        for f in info['enc'] + info['dec']:
            if F.width(f) != info['size']:
                ctx.finding(rule_sz, f'qvm/instrs.py:{name}',
                            f'{name}.size={info["size"]} but format {f} is '
                            f'{F.width(f)} bytes', 'qvm/instrs.py',
                            info['line'])
    return instrs, asm, asm_loop, asm_subj


def _fmt_sites(fn_node, kinds):
    """[(loop depth, format, lineno, target/assigned name)]"""
    out = []

    def visit(node, depth):
        for ch in ast.iter_child_nodes(node):
            d = depth + (1 if isinstance(ch, (ast.For, ast.While)) else 0)
            if isinstance(ch, ast.Call) and dotted(ch.func) in kinds and \
                    ch.args and isinstance(const(ch.args[0]), str):
                out.append((depth, const(ch.args[0]), ch.lineno, ch))
            visit(ch, d)
    visit(fn_node, 0)
    return out


def section_agreement(ctx):
    repo = ctx.repo
    rule = 'C09.section-writer-reader-agreement'
    ctx.rule(rule, 'each field of the literal, data and globals sections '
             'and the section framing is written and read with the same '
             'width and signedness; the empty-item marker is negative on '
             'both sides; strings use cp437 on both sides')
    w = repo.func('qbee.qvm_codegen', 'QvmCode.__bytes__')
    readers = {
        'literals': repo.func('qvm.module', 'parse_literals_section'),
        'data': repo.func('qvm.module', 'parse_data_section'),
        'global': repo.func('qvm.module', 'parse_globals_section'),
        'frame': repo.func('qvm.module', 'QModule.parse'),
    }
    # writer: classify pack calls by the section variable they feed
    wsites = {'literals': [], 'data': [], 'global': [], 'frame': []}

    def section_of(call):
        st = call
        while st is not None and not isinstance(st, ast.stmt):
            st = getattr(st, '_parent', None)
        tgt = None
        if isinstance(st, ast.AugAssign):
            tgt = dotted(st.target)
        elif isinstance(st, ast.Assign):
            tgt = dotted(st.targets[0])
        if tgt:
            for k in ('literals', 'data', 'global'):
                if tgt.startswith(k):
                    return k
        return 'frame'
    for depth, f, line, call in _fmt_sites(w.node, ('struct.pack',)):
        sec = section_of(call)
        # depth inside a generator expression counts as framing
        wsites[sec].append((depth, f, line, unparse(call.args[1])
                            if len(call.args) > 1 else ''))
    for sec, rf in readers.items():
        rs = _fmt_sites(rf.node, ('struct.unpack',))
        # group by depth, keep first format per depth (all at one depth must
        # agree on the writer side)
        wby = {}
        for depth, f, line, arg in wsites[sec]:
            wby.setdefault(depth, []).append((f, line, arg))
        rby = {}
        for depth, f, line, call in rs:
            rby.setdefault(depth, []).append((f, line))
        if sec == 'frame':
            # single length field each side
            wby = {0: [x for v in wby.values() for x in v]}
            rby = {0: [x for v in rby.values() for x in v]}
        if not wby or not rby:
            raise AnalysisError(f'anchor vanished: {sec} section formats '
                                f'(writer {wby}, reader {rby})')
        for depth in sorted(set(wby) | set(rby)):
            construct = f'{w.file}:QvmCode.__bytes__:{sec}[depth{depth}]'
            wf = sorted({F.strip(f) for f, _, _ in wby.get(depth, [])})
            rfm = sorted({F.strip(f) for f, _ in rby.get(depth, [])})
            ctx.instance(rule, construct,
                         sample={'section': sec, 'loop_depth': depth,
                                 'writer': wf, 'reader': rfm,
                                 'writer_args': [a for _, _, a in
                                                 wby.get(depth, [])]})
            if wf != rfm:
                wl = wby.get(depth, [(None, w.line, '')])[0][1]
                ctx.finding(rule, construct,
                            f'{sec} section field at loop depth {depth} is '
                            f'written as {wf} (args '
                            f'{[a for _, _, a in wby.get(depth, [])]}) but '
                            f'read as {rfm} in {rf.qualname}',
                            w.file, wl, facts={'writer': wf, 'reader': rfm})
    # empty marker: writer packs a negative constant at the item depth and
    # the reader tests `size < 0`
    marker = [a for d, f, l, a in wsites['data'] if a.startswith('-')]
    rd = readers['data']
    neg_test = any(isinstance(n, ast.Compare) and
                   isinstance(n.ops[0], ast.Lt) and
                   const(n.comparators[0]) == 0
                   for n in ast.walk(rd.node))
    construct = f'{w.file}:QvmCode.__bytes__:data:empty-marker'
    ctx.instance(rule, construct, sample={'writer_marker': marker,
                                          'reader_tests_negative': neg_test})
    if not marker or not neg_test:
        ctx.finding(rule, construct,
                    f'empty DATA item marker: writer packs {marker}, reader '
                    f'negative-size test present: {neg_test}', w.file,
                    w.line)
    # code pages
    enc = {const(c.args[0]) for c in ast.walk(w.node)
           if isinstance(c, ast.Call) and isinstance(c.func, ast.Attribute)
           and c.func.attr == 'encode' and c.args}
    dec = set()
    for k in ('literals', 'data'):
        dec |= {const(c.args[0]) for c in ast.walk(readers[k].node)
                if isinstance(c, ast.Call) and
                isinstance(c.func, ast.Attribute) and
                c.func.attr == 'decode' and c.args}
    construct = f'{w.file}:QvmCode.__bytes__:codepage'
    ctx.instance(rule, construct, sample={'encode': sorted(map(str, enc)),
                                          'decode': sorted(map(str, dec))})
    if len(enc) != 1 or enc != dec:
        ctx.finding(rule, construct,
                    f'string code pages differ: writer {enc}, reader {dec}',
                    w.file, w.line)
    # section ids
    rule_id = 'C09.section-ids'
    ctx.rule(rule_id, 'section ids written equal the ids the loader '
             'dispatches on')
    wids = set()
    for n in ast.walk(w.node):
        if isinstance(n, ast.Call) and isinstance(n.func, ast.Attribute) \
                and n.func.attr == 'append' and n.args and \
                isinstance(n.args[0], ast.Tuple) and \
                isinstance(const(n.args[0].elts[0]), int):
            wids.add(const(n.args[0].elts[0]))
    rids = set()
    for n in ast.walk(readers['frame'].node):
        if isinstance(n, ast.Compare) and \
                isinstance(n.left, ast.Name) and \
                isinstance(n.ops[0], ast.Eq) and \
                isinstance(const(n.comparators[0]), int) and \
                isinstance(getattr(n, '_parent', None), ast.If):
            rids.add(const(n.comparators[0]))
    ctx.instance(rule_id, f'{w.file}:QvmCode.__bytes__:ids',
                 sample={'written': sorted(wids), 'read': sorted(rids)})
    if not wids or not wids <= rids:
        ctx.finding(rule_id, f'{w.file}:QvmCode.__bytes__:ids',
                    f'section ids written {sorted(wids)} not all handled by '
                    f'the loader {sorted(rids)}', w.file, w.line)


def jump_operands(ctx, instrs, asm, asm_loop, asm_subj):
    rule = 'C09.jump-operands-are-instruction-starts'
    ctx.rule(rule, 'label addresses are recorded only from the running code '
             'offset in the _label arm; the offset advances only by the '
             'bytes just appended; every Label-operand opcode is patched '
             'from the label table')
    # roles, identified structurally
    n, b = pat.first('_OFF += 1 + len(_B)', asm_loop)
    if n is None:
        n, b = pat.first('_OFF += len(_B) + 1', asm_loop)
    if n is None:
        # any update of an int accumulator inside the loop is suspect
        upd = [x for x in ast.walk(asm_loop) if isinstance(x, ast.AugAssign)
               and isinstance(x.target, ast.Name)]
        raise_or = [u for u in upd if 'len(' in unparse(u.value)]
        if raise_or:
            u = raise_or[0]
            ctx.instance(rule, f'{asm.file}:QvmCode.assembled:offset+=')
            ctx.finding(rule, f'{asm.file}:QvmCode.assembled:offset+=',
                        f'the code offset is advanced by {unparse(u.value)}, '
                        f'not by 1 + len(operand bytes)', asm.file,
                        u.lineno)
            return
        raise AnalysisError('anchor vanished: code offset update')
    off = unparse(b['_OFF'])
    bargs = unparse(b['_B'])
    construct = f'{asm.file}:QvmCode.assembled:offset+='
    ctx.instance(rule, construct, sample={'offset_var': off,
                                          'operand_bytes': bargs})
    # appended bytes: CODE += OPC + B in the same block, OPC one byte
    body = None
    for fld in ('body', 'orelse'):
        if n in getattr(n._parent, fld, []):
            body = getattr(n._parent, fld)
    app = [(x, m) for s_ in body or []
           for x, m in pat.find_all('_CODE += _OPC + _B2', s_)]
    ok = False
    code_var = None
    for x, m in app:
        if unparse(m['_B2']) == bargs:
            code_var = unparse(m['_CODE'])
            opc = unparse(m['_OPC'])
            ok = any(pat.match(f'{opc} = bytes([__])', s_) is not None
                     for s_ in body)
    if not ok:
        ctx.finding(rule, construct,
                    f'the offset advances by 1 + len({bargs}) but the bytes '
                    f'appended in the same block are not one opcode byte '
                    f'plus {bargs}', asm.file, n.lineno)
    # only one update of the offset in the loop
    upd = [x for x in ast.walk(asm_loop)
           if isinstance(x, (ast.AugAssign, ast.Assign)) and
           unparse(x.target if isinstance(x, ast.AugAssign)
                   else x.targets[0]) == off]
    ctx.instance(rule, construct + ':single-update',
                 sample={'updates': len(upd)})
    if len(upd) != 1:
        ctx.finding(rule, construct + ':single-update',
                    f'{len(upd)} updates of the code offset in the assembly '
                    f'loop (expected 1)', asm.file, asm_loop.lineno)
    # label table: L[name] = OFF, only in the _label arm
    stores = pat.find_all('_L[_N] = _V', asm_loop)
    lab = [(x, m) for x, m in stores
           if isinstance(m['_L'], ast.Name)]
    label_tabs = {}
    for x, m in lab:
        label_tabs.setdefault(unparse(m['_L']), []).append((x, m))
    # the label table is the one read in the patch loop
    patch_loop = None
    for x in ast.walk(asm.node):
        if isinstance(x, ast.For) and x is not asm_loop and \
                pat.has('_C[_P:_P + 4] = struct.pack(__, _A)', x):
            patch_loop = x
    if patch_loop is None:
        raise AnalysisError('anchor vanished: patch loop')
    pn, pm = pat.first('_A = _L[_K]', patch_loop)
    ctx.instance(rule, f'{asm.file}:QvmCode.assembled:patch-loop')
    if pn is None:
        ctx.finding(rule, f'{asm.file}:QvmCode.assembled:patch-loop',
                    'patch values are not read from the label table',
                    asm.file, patch_loop.lineno)
        return
    ltab = unparse(pm['_L'])
    ptab = unparse(patch_loop.iter.func.value) if isinstance(
        patch_loop.iter, ast.Call) and isinstance(
        patch_loop.iter.func, ast.Attribute) else None
    n_lab = 0
    for x, m in label_tabs.get(ltab, []):
        n_lab += 1
        c2 = f'{asm.file}:QvmCode.assembled:labels[]='
        ctx.instance(rule, c2, sample={'value': unparse(m['_V'])})
        if unparse(m['_V']) != off:
            ctx.finding(rule, c2,
                        f'label address recorded as {unparse(m["_V"])}, not '
                        f'the running code offset {off}', asm.file,
                        x.lineno)
    if n_lab == 0:
        raise AnalysisError('anchor vanished: label table store')
    for op, d in instrs.items():
        if 'Label' not in d.operands:
            continue
        w = F.ChainWalk(op, None, asm_subj)
        w.walk(asm_loop.body)
        patched = any(
            pat.has(f'{ptab}[{off} + 1] = __', st) for st in w.stmts) \
            if ptab else False
        c3 = f'{asm.file}:QvmCode.assembled[{op}]:patched'
        ctx.instance(rule, c3, sample={'op': op, 'patched': patched})
        if not patched:
            ctx.finding(rule, c3,
                        f'{op!r} has a Label operand but its assembler arm '
                        f'does not register a patch at offset + 1',
                        asm.file, asm.line)


def frame_declarations(ctx):
    repo = ctx.repo
    rule = 'C09.frame-declaration'
    ctx.rule(rule, 'each routine label is followed by `frame` whose operands '
             'are get_params_size(R) and a deferred get_local_vars_size(R) '
             'of the routine R registered by add_routine in that generator')
    gens, _ = R.generators(repo)
    for gname, prefix in (('Program', '_sub_'), ('SubBlock', '_sub_'),
                          ('FunctionBlock', '_func_')):
        g = gens.get(gname)
        if g is None:
            raise AnalysisError(f'anchor vanished: generator for {gname}')
        construct = f'{g.file}:{g.qualname}'
        adds = []
        routine_expr = None
        for n in walk_shallow(g.node):
            if isinstance(n, ast.Call) and isinstance(n.func, ast.Attribute):
                if n.func.attr == 'add_routine' and n.args:
                    routine_expr = unparse(n.args[0])
                if n.func.attr == 'add' and dotted(n.func.value) == 'code':
                    for a in n.args:
                        if isinstance(a, ast.Tuple) and a.elts:
                            adds.append((n.lineno, a))
        adds.sort(key=lambda t: (t[0], t[1].col_offset))
        ops = [const(a.elts[0]) for _, a in adds]
        ctx.instance(rule, construct, sample={'ops': ops[:6],
                                              'routine': routine_expr})
        if routine_expr is None:
            ctx.finding(rule, construct, 'generator does not register its '
                        'routine with code.add_routine', g.file, g.line)
            continue
        try:
            li = ops.index('_label')
        except ValueError:
            ctx.finding(rule, construct, 'no routine label emitted',
                        g.file, g.line)
            continue
        lab = adds[li][1]
        ltxt = unparse(lab.elts[1]) if len(lab.elts) > 1 else ''
        if repr(prefix) not in ltxt:
            ctx.finding(rule, construct + ':label',
                        f'routine label is {ltxt}, expected prefix '
                        f'{prefix!r}', g.file, lab.lineno)
        if li + 1 >= len(ops) or ops[li + 1] != 'frame':
            ctx.finding(rule, construct + ':frame',
                        f'routine label is followed by {ops[li + 1:li + 2]} '
                        f'instead of frame', g.file, lab.lineno)
            continue
        fr = adds[li + 1][1]
        if len(fr.elts) != 3:
            ctx.finding(rule, construct + ':frame', 'frame does not have '
                        'two operands', g.file, fr.lineno)
            continue
        p, v = fr.elts[1], fr.elts[2]
        ok_p = isinstance(p, ast.Call) and \
            dotted(p.func) == 'get_params_size' and \
            unparse(p.args[0]) == routine_expr
        ok_v = isinstance(v, ast.Lambda) and isinstance(v.body, ast.Call) \
            and dotted(v.body.func) == 'get_local_vars_size' and \
            unparse(v.body.args[0]) == routine_expr
        if not ok_p:
            ctx.finding(rule, construct + ':params',
                        f'frame params operand is {unparse(p)}; expected '
                        f'get_params_size({routine_expr})', g.file,
                        fr.lineno)
        if not ok_v:
            ctx.finding(rule, construct + ':locals',
                        f'frame locals operand is {unparse(v)}; expected a '
                        f'deferred (lambda) get_local_vars_size('
                        f'{routine_expr}) because FOR/SELECT generators add '
                        f'locals during code generation', g.file, fr.lineno)
    # call-site prefixes agree
    rule2 = 'C09.routine-label-prefixes'
    ctx.rule(rule2, "call sites and the assembler's cur_routine tracking use "
             "the same '_sub_'/'_func_' label prefixes")
    for gname, prefix in (('CallStmt', '_sub_'), ('FuncCall', '_func_')):
        g = gens.get(gname)
        txt = unparse(g.node)
        ctx.instance(rule2, f'{g.file}:{g.qualname}',
                     sample={'prefix': prefix})
        if f"'call', {prefix!r} + node.name" not in txt:
            ctx.finding(rule2, f'{g.file}:{g.qualname}',
                        f'call target is not {prefix!r} + node.name',
                        g.file, g.line)
    asm = repo.func('qbee.qvm_codegen', 'QvmCode.assembled')
    atxt = unparse(asm.node)
    for prefix in ('_sub_', '_func_'):
        ctx.instance(rule2, f'{asm.file}:QvmCode.assembled:{prefix}')
        if not pat.has(f'if __.startswith({prefix!r}):\n    ...', asm.node):
            ctx.finding(rule2, f'{asm.file}:QvmCode.assembled:{prefix}',
                        f'assembler does not switch cur_routine on labels '
                        f'starting with {prefix!r}', asm.file, asm.line)
    # user identifiers cannot start with '_'
    g = repo.module('qbee.grammar')
    ui = g.assigns.get('untyped_identifier')
    ok = ui is not None and pat.has('Word(alphas, alphanums)', ui)
    ctx.instance(rule2, 'qbee/grammar.py:untyped_identifier',
                 sample={'definition': unparse(ui) if ui else None})
    if not ok:
        ctx.finding(rule2, 'qbee/grammar.py:untyped_identifier',
                    'identifier terminal is no longer Word(alphas, '
                    'alphanums): user names might spell internal labels '
                    '(leading underscore)', 'qbee/grammar.py',
                    getattr(ui, 'lineno', 0))


def emitted_ops(repo):
    """All op strings code generators can emit: [(pattern, holes, lineno,
    FuncInfo)]."""
    m = repo.module('qbee.qvm_codegen')
    out = []
    for f in m.functions.values():
        if f.cls is not None and f.cls.name == 'QvmCode' and \
                f.name != 'optimize':
            continue
        for n in walk_shallow(f.node):
            if isinstance(n, ast.Call) and isinstance(n.func, ast.Attribute) \
                    and n.func.attr == 'add' and \
                    dotted(n.func.value) == 'code':
                for a in n.args:
                    if isinstance(a, ast.Tuple) and a.elts:
                        first = a.elts[0]
                        if isinstance(first, ast.Name):
                            # op = {...}[key]  ->  every value of the dict
                            vals = _dict_values_of(f.node, first.id)
                            if vals:
                                for v in vals:
                                    out.append((v, [], a, f))
                                continue
                        pat, holes = fstring_pattern(first)
                        out.append((pat, holes, a, f))
    return out


def _dict_values_of(fn_node, name):
    vals = []
    for n in walk_shallow(fn_node):
        if isinstance(n, ast.Assign) and len(n.targets) == 1 and \
                dotted(n.targets[0]) == name:
            v = n.value
            if isinstance(v, ast.Subscript) and isinstance(v.value, ast.Dict):
                for x in v.value.values:
                    if isinstance(const(x), str):
                        vals.append(const(x))
                    else:
                        return None
            else:
                return None
    return vals


def _hole_domain(h, fn_node):
    """A hole bound to a local whose every definition is a one-character
    string constant ranges over those characters (scope: l/g); any other
    hole is a type character."""
    if isinstance(h, ast.Name) and fn_node is not None:
        ds = local_defs(fn_node).get(h.id, [])
        vals = []
        for kind, v in ds:
            if kind == 'assign' and isinstance(v, ast.IfExp):
                vals += [const(v.body), const(v.orelse)]
            elif kind == 'assign':
                vals.append(const(v))
            else:
                vals.append(None)
        if vals and all(isinstance(x, str) and len(x) == 1 for x in vals):
            return ''.join(sorted(set(vals)))
    return TYPE_CHARS


def expand(pat, holes, fn_node=None):
    """Expansions of an op pattern: scope holes over l/g, others over type
    chars.  Returns [(op, has_string_char)]."""
    import itertools
    if not holes:
        return [(pat, False, [])]
    doms = []
    for h in holes:
        doms.append(_hole_domain(h, fn_node))
    out = []
    for combo in itertools.product(*doms):
        s = pat
        for c in combo:
            s = s.replace('{}', c, 1)
        typed = [c for c, d in zip(combo, doms) if d == TYPE_CHARS]
        out.append((s, '$' in typed, typed))
    return out


def emittable_encodable(ctx, instrs, pid='C09'):
    repo = ctx.repo
    rule = f'{pid}.emittable-subset-of-encodable'
    ctx.rule(rule, 'every op string a generator can emit (families '
             'expanded over scope and type characters) is a pseudo-op or an '
             'instruction with a CPU handler; every io device/operation '
             'exists in QVM_DEVICES and on the device class')
    handlers, _, _ = R.cpu_handlers(repo)
    mangling = R.op_mangling(repo)
    devs = R.devices(repo)
    devcls = R.device_classes(repo)
    ems = emitted_ops(repo)
    ctx.floor('code.add emission sites', len(ems), 150)
    for pat, holes, tup, f in ems:
        construct = f'{f.file}:{f.qualname}:{pat}'
        if pat is None:
            ctx.instance(rule, f'{f.file}:{f.qualname}:L{tup.lineno}')
            ctx.finding(rule, f'{f.file}:{f.qualname}:dynamic-op',
                        f'op of emitted instruction {unparse(tup)} is not a '
                        f'constant or f-string; cannot be resolved',
                        f.file, tup.lineno)
            continue
        exps = expand(pat, holes, f.node)
        ctx.instance(rule, construct, sample={'pattern': pat,
                                              'expansions': len(exps)})
        if pat in PSEUDO:
            continue
        # conv family: numeric src != dst only
        fam_has_string = any(op in instrs for op, s, _ in exps if s)
        for e in exps:
            op, has_s = e[0], e[1]
            typed = e[2] if len(e) > 2 else []
            if pat.startswith('conv') and len(op) >= 6 and (
                    op[-1] == op[-2] or '$' in op[-2:]):
                # same-type / string conversions are never requested by
                # gen_code_for_conv for well-typed operands (C03 clause 4)
                continue
            if has_s and not fam_has_string:
                continue
            if op not in instrs:
                ctx.finding(rule, construct,
                            f'generator {f.qualname} can emit {op!r} '
                            f'(pattern {pat!r}) which is not an instruction',
                            f.file, tup.lineno)
                continue
            h = R.mangle(op, mangling)
            if h not in handlers:
                ctx.finding(rule, construct + ':handler',
                            f'emitted instruction {op!r} has no CPU handler '
                            f'{h}', f.file, tup.lineno)
        if pat == 'io':
            dev = const(tup.elts[1]) if len(tup.elts) > 1 else None
            dop = const(tup.elts[2]) if len(tup.elts) > 2 else None
            c2 = f'{f.file}:{f.qualname}:io:{dev}.{dop}'
            ctx.instance(rule, c2, sample={'device': dev, 'op': dop})
            if dev not in devs or dop not in devs[dev]['ops']:
                ctx.finding(rule, c2, f'io {dev}.{dop} not in QVM_DEVICES',
                            f.file, tup.lineno)
            elif dev not in devcls or \
                    repo.find_method(devcls[dev], f'_exec_{dop}') is None:
                ctx.finding(rule, c2 + ':impl',
                            f'device class for {dev!r} has no _exec_{dop}',
                            f.file, tup.lineno)
    # every instruction in the table has a handler (executable table)
    rule_h = f'{pid}.instruction-has-handler'
    ctx.rule(rule_h, 'each instruction of the table has a CPU handler or is '
             'never emitted')
    emitted_all = set()
    for pat, holes, tup, f in ems:
        if pat:
            emitted_all |= {e[0] for e in expand(pat, holes, f.node)}
    for op, d in instrs.items():
        h = R.mangle(op, mangling)
        ctx.instance(rule_h, f'qvm/instrs.py:def_instr[{op}]',
                     nontrivial=op in emitted_all)
        if h not in handlers and op not in emitted_all:
            ctx.observe(f'instruction {op!r} has no handler {h} but is never '
                        f'emitted')


def listing_uses_final(ctx):
    repo = ctx.repo
    rule = 'C09.listing-and-assembler-share-final-form'
    ctx.rule(rule, 'the listing writer and the assembler both derive '
             'mnemonic and operands from QvmInstr.final')
    for qn in ('QvmCode.__str__', 'QvmCode.assembled'):
        f = repo.func('qbee.qvm_codegen', qn)
        uses = pat.has('for _I in self._instrs:\n    __, *__ = _I.final\n'
                       '    ...', f.node)
        ctx.instance(rule, f'{f.file}:{qn}', sample={'uses_final': uses})
        if not uses:
            ctx.finding(rule, f'{f.file}:{qn}',
                        f'{qn} does not take op/operands from instr.final',
                        f.file, f.line)


def text_codec_agreement(ctx):
    """Strings in the literal and data sections are written with one text
    codec and must be read back with the same one (bytes.decode() without
    an argument is UTF-8)."""
    repo = ctx.repo
    rule = 'C09.section-text-codec-agrees'
    ctx.rule(rule, 'every str.encode(...) in QvmCode.__bytes__ and every '
             'bytes.decode(...) in qvm/module.py names its codec explicitly, '
             'and readers and writer use the same codec')
    w = repo.func('qbee.qvm_codegen', 'QvmCode.__bytes__')
    enc = []
    for c_ in ast.walk(w.node):
        if isinstance(c_, ast.Call) and isinstance(c_.func, ast.Attribute) \
                and c_.func.attr == 'encode':
            enc.append((const(c_.args[0]) if c_.args else None, c_.lineno))
    dec = []
    m = repo.module('qvm.module')
    for f in repo.all_functions():
        if f.module is not m:
            continue
        for c_ in ast.walk(f.node):
            if isinstance(c_, ast.Call) and \
                    isinstance(c_.func, ast.Attribute) and \
                    c_.func.attr == 'decode':
                dec.append((const(c_.args[0]) if c_.args else None,
                            c_.lineno, f))
    if not enc or not dec:
        raise AnalysisError('anchor vanished: text codecs of the sections')
    codecs = {e[0] for e in enc}
    ctx.instance(rule, f'{w.file}:QvmCode.__bytes__:encode',
                 sample={'codecs': sorted(map(str, codecs))})
    for cd, line in enc:
        if cd is None:
            ctx.finding(rule, f'{w.file}:QvmCode.__bytes__:encode',
                        'a section string is encoded without naming the '
                        'codec', w.file, line)
    for cd, line, f in dec:
        construct = f'{f.file}:{f.qualname}:decode'
        ctx.instance(rule, construct, sample={'codec': cd})
        if cd is None or cd not in codecs:
            ctx.finding(rule, construct,
                        f'{f.qualname} decodes section text with '
                        f'{cd or "the default codec (UTF-8)"}; the writer '
                        f'uses {sorted(map(str, codecs))}: a non-ASCII '
                        f'character does not survive the module file',
                        f.file, line)


def assembler_operand_order(ctx):
    """An instruction with several operands is packed in the order of its
    operands (the order of the listing, of instrs.def_instr and of the
    disassembler)."""
    repo = ctx.repo
    rule = 'C09.operands-packed-in-operand-order'
    ctx.rule(rule, 'in every arm of QvmCode.assembled that unpacks several '
             'operands (`a, b = args`) the k-th value given to struct.pack '
             'is derived from the k-th operand')
    f = repo.func('qbee.qvm_codegen', 'QvmCode.assembled')
    n = 0
    for holder in ast.walk(f.node):
        for fld in ('body', 'orelse'):
            body = getattr(holder, fld, None)
            if not (isinstance(body, list) and body and
                    isinstance(body[0], ast.stmt)):
                continue
            names = None
            derived = {}
            for st in body:
                if isinstance(st, ast.Assign) and len(st.targets) == 1 and \
                        isinstance(st.targets[0], (ast.Tuple, ast.List)) \
                        and isinstance(st.value, ast.Name) and \
                        all(isinstance(e, ast.Name)
                            for e in st.targets[0].elts) and \
                        len(st.targets[0].elts) >= 2:
                    names = [e.id for e in st.targets[0].elts]
                    derived = {nm: {k} for k, nm in enumerate(names)}
                    continue
                if names is None:
                    continue
                if isinstance(st, ast.Assign) and len(st.targets) == 1 and \
                        isinstance(st.targets[0], ast.Name):
                    src = set()
                    for x in ast.walk(st.value):
                        if isinstance(x, ast.Name) and x.id in derived:
                            src |= derived[x.id]
                    if any(isinstance(c, ast.Call) and
                           dotted(c.func) == 'struct.pack'
                           for c in ast.walk(st.value)):
                        pass
                    else:
                        derived[st.targets[0].id] = src
                for c in ast.walk(st):
                    if isinstance(c, ast.Call) and \
                            dotted(c.func) == 'struct.pack' and \
                            len(c.args) - 1 == len(names):
                        n += 1
                        order = []
                        for a in c.args[1:]:
                            src = set()
                            for x in ast.walk(a):
                                if isinstance(x, ast.Name) and \
                                        x.id in derived:
                                    src |= derived[x.id]
                            order.append(sorted(src))
                        arm = unparse(holder.test)[:50] if isinstance(
                            holder, ast.If) and fld == 'body' else 'arm'
                        construct = f'{f.file}:QvmCode.assembled:{arm}'
                        # the k-th packed value must depend on the k-th
                        # operand (it may also use an earlier one, as the
                        # device operation is looked up per device)
                        ok = all(k in o for k, o in enumerate(order))
                        ctx.instance(rule, construct,
                                     sample={'order': order})
                        if not ok:
                            ctx.finding(rule, construct,
                                        f'the arm `{arm}` packs its '
                                        f'operands in the order {order} '
                                        f'(positions of the source '
                                        f'operands): the encoded operands '
                                        f'are swapped with respect to the '
                                        f'listing and the disassembler',
                                        f.file, c.lineno)
    ctx.floor('multi-operand pack sites in the assembler', n, 4)


def disassembler_operands_unaltered(ctx):
    """QModule.disassemble must show what is encoded: the operands it prints
    are the values struct.unpack returned (or a formatting of them), never a
    recomputed value."""
    repo = ctx.repo
    rule = 'C09.disassembler-shows-decoded-operands-unaltered'
    ctx.rule(rule, 'in QModule.disassemble every name that receives a '
             'struct.unpack result keeps it until it is listed as an '
             'operand: no reassignment (rounding, masking, arithmetic) '
             'between decoding and printing; index bookkeeping (idx) is '
             'exempt')
    f = repo.func('qvm.module', 'QModule.disassemble')
    n = 0
    decoded = {}
    for st in ast.walk(f.node):
        if isinstance(st, ast.Assign) and isinstance(st.value, ast.Call) \
                and dotted(st.value.func) == 'struct.unpack':
            for t in st.targets:
                for e in (t.elts if isinstance(t, (ast.Tuple, ast.List))
                          else [t]):
                    if isinstance(e, ast.Name):
                        decoded.setdefault(e.id, []).append(st)
    for name in sorted(decoded):
        n += 1
        others = []
        for st in ast.walk(f.node):
            tg = []
            if isinstance(st, ast.Assign):
                tg = [t for t in st.targets]
            elif isinstance(st, (ast.AugAssign, ast.AnnAssign)):
                tg = [st.target]
            for t in tg:
                for e in (t.elts if isinstance(t, (ast.Tuple, ast.List))
                          else [t]):
                    if isinstance(e, ast.Name) and e.id == name and \
                            st not in decoded[name]:
                        others.append(st)
        fmts = sorted({str(const(d.value.args[0])) for d in decoded[name]
                       if d.value.args})
        construct = f'{f.file}:QModule.disassemble:unpack[{"|".join(fmts)}]'
        ctx.instance(rule, construct, sample={'decoded_at': [
            d.lineno for d in decoded[name]], 'reassigned': len(others)})
        for st in others:
            ctx.finding(rule, construct,
                        f'the decoded operand `{name}` is recomputed '
                        f'({unparse(st)[:60]}) before it is printed: the '
                        f'disassembly no longer shows the encoded value',
                        f.file, st.lineno)
    ctx.floor('decoded operand names in disassemble', n, 8)


def run(ctx):
    ctx.clauses = [
        'three-codec operand agreement for all opcodes; dispatch coverage',
        'section writer/reader field agreement, empty marker, code page, '
        'section ids',
        'jump operands are instruction starts (labels/cur_offset/patching)',
        'frame declarations and routine label prefixes',
        'emittable ops are encodable and executable',
    ]
    ctx.not_decided = ['byte equality for concrete programs; size limits '
                       'only reached by huge programs']
    instrs, asm, asm_loop, asm_subj = codec_agreement(ctx)
    section_agreement(ctx)
    jump_operands(ctx, instrs, asm, asm_loop, asm_subj)
    frame_declarations(ctx)
    emittable_encodable(ctx, instrs)
    listing_uses_final(ctx)
    disassembler_operands_unaltered(ctx)
    assembler_operand_order(ctx)
    text_codec_agreement(ctx)
    return ('Sibling-agreement analysis of the three instruction codecs '
            '(QvmCode.assembled if/elif chain evaluated per opcode, '
            'qvm.instrs Operand classes, QModule.disassemble chain), of the '
            'section writer (QvmCode.__bytes__) against the section readers '
            '(qvm.module), and structural rules on label/offset bookkeeping '
            'and frame declarations. Decides format agreement and address '
            'bookkeeping; does not decide byte equality for concrete '
            'programs.')
