"""C20 -- determinism: absence of nondeterminism sources."""
import ast

from .. import registries as R
from .. import effects
from ..astutil import dotted, const, unparse, walk_shallow, ancestors, \
    decorators
from ..model import AnalysisError

# names whose use makes output depend on process, time or environment
SOURCE_MODULES = {'time', 'datetime', 'random', 'uuid', 'tempfile',
                  'threading', 'multiprocessing', 'secrets', 'socket',
                  'getpass', 'platform'}
SOURCE_CALLS = {'id', 'os.getpid', 'os.getcwd', 'os.urandom', 'os.times',
                'os.getenv', 'os.environ.get', 'os.path.abspath',
                'os.path.realpath', 'os.listdir', 'os.scandir', 'glob.glob',
                'object.__hash__', 'os.getppid', 'os.uname'}
SOURCE_ATTRS = {'os.environ'}

# classes through which the property routes clock, randomness and files
PERIPHERAL_CLASSES = {'BasePeripheralsImpl', 'SmartTerminalMixin',
                      'DumbTerminalMixin', 'SmartPeripheralsImpl',
                      'DumbPeripheralsImpl'}
# modules outside the compile/execute paths the property speaks about
OUT_OF_SCOPE = {'qvm.terminal', 'qvm.subterminal', 'qvm.run', 'qvm.dbg',
                'qvm.disasm'}
# registration-time constructs allowed to write class-level tables
REGISTRATION = {
    'qbee.codegen:CodeGenMetaclass.__new__':
        'runs at class creation (import time) only',
    'qbee.codegen:BaseCodeGen.generator_for.decorator':
        'decorator applied at import time only',
    'qbee.stmt:BlockNodeMetaclass.__new__':
        'runs at class creation (import time) only',
    'qvm.instrs:def_instr': 'called only from module level at import time',
    'qbee.grammar:parse_action.wrapper':
        'decorator applied at import time only',
}


def in_scope(f):
    if f.module.name in OUT_OF_SCOPE:
        return False
    if f.cls is not None and f.cls.name in PERIPHERAL_CLASSES:
        return False
    if f.name in ('main', 'config_logging', 'draw_tree', 'perror',
                  'signal_handler'):
        return False
    return True


def sources(ctx):
    repo = ctx.repo
    rule = 'C20.no-nondeterminism-source'
    ctx.rule(rule, 'no use of clock, randomness, process identity, '
             'environment, working directory, object identity or '
             'thread/process APIs on the compile and execute paths (outside '
             'the peripherals implementation classes); hash() only inside '
             '__hash__')
    n = 0
    for f in repo.all_functions():
        if not in_scope(f):
            continue
        n += 1
        construct = f'{f.file}:{f.qualname}'
        bad = []
        for node in walk_shallow(f.node):
            if isinstance(node, ast.Call):
                d = dotted(node.func) or ''
                if d in SOURCE_CALLS:
                    bad.append((d, node.lineno))
                if d == 'hash' and f.name != '__hash__':
                    bad.append(('hash() outside __hash__', node.lineno))
                root = d.split('.')[0]
                imp = f.module.imports.get(root)
                if imp and imp[0] == 'module' and \
                        imp[1].split('.')[0] in SOURCE_MODULES:
                    bad.append((d, node.lineno))
                if imp and imp[0] == 'attr' and \
                        imp[1].split('.')[0] in SOURCE_MODULES:
                    bad.append((f'{imp[1]}.{imp[2]}', node.lineno))
            elif isinstance(node, ast.Attribute):
                d = dotted(node) or ''
                if d in SOURCE_ATTRS:
                    bad.append((d, node.lineno))
        ctx.instance(rule, construct, nontrivial=True,
                     sample={'uses': bad} if bad else None)
        for what, line in bad:
            ctx.finding(rule, f'{construct}:{what}',
                        f'{f.qualname} uses {what}: output would depend on '
                        f'process, time or environment', f.file, line)
    # module level statements too (import-time effects)
    for m in repo.modules.values():
        if m.name in OUT_OF_SCOPE:
            continue
        for st in m.tree.body:
            if isinstance(st, (ast.FunctionDef, ast.ClassDef, ast.Import,
                               ast.ImportFrom)):
                continue
            for node in ast.walk(st):
                if isinstance(node, ast.Call):
                    d = dotted(node.func) or ''
                    root = d.split('.')[0]
                    imp = m.imports.get(root)
                    if d in SOURCE_CALLS or (
                            imp and imp[1].split('.')[0] in SOURCE_MODULES):
                        ctx.finding(rule, f'{m.relpath}:<module>:{d}',
                                    f'module-level use of {d}', m.relpath,
                                    node.lineno)
    ctx.floor('functions examined for nondeterminism sources', n, 400)


def set_order(ctx):
    repo = ctx.repo
    rule = 'C20.set-iteration-order-does-not-leak'
    ctx.rule(rule, 'every set construction is tracked by the name it is '
             'bound to; iterating such a value (for, list(), tuple(), join, '
             'unpacking, comprehension) is a finding unless wrapped in '
             'sorted() or consumed order-insensitively')
    set_names = {}     # name -> [(file, line)]
    for f in list(repo.all_functions()):
        if f.module.name in OUT_OF_SCOPE:
            continue
        for n in walk_shallow(f.node):
            val = None
            tgt = None
            if isinstance(n, ast.Assign) and len(n.targets) == 1:
                val, tgt = n.value, n.targets[0]
            elif isinstance(n, ast.AnnAssign) and n.value is not None:
                val, tgt = n.value, n.target
            if val is None:
                continue
            is_set = (isinstance(val, ast.Call) and
                      dotted(val.func) in ('set', 'frozenset')) or \
                isinstance(val, (ast.Set, ast.SetComp))
            if is_set:
                name = tgt.attr if isinstance(tgt, ast.Attribute) else \
                    (tgt.id if isinstance(tgt, ast.Name) else None)
                if name:
                    kind = 'attr' if isinstance(tgt, ast.Attribute) else \
                        f'local:{f.key}'
                    set_names.setdefault((name, kind), []).append(
                        (f.file, n.lineno))
    ctx.floor('set constructions', len(set_names), 4)
    # parameters that receive a set: DefTypeStmt(def_type, letters)
    # follow one level: call sites passing a set-typed local positionally
    flows = []
    for (name, kind), where in list(set_names.items()):
        if not kind.startswith('local:'):
            continue
        fkey = kind[len('local:'):]
        f = [g for g in repo.all_functions() if g.key == fkey][0]
        for c in walk_shallow(f.node):
            if isinstance(c, ast.Call):
                for i, a in enumerate(c.args):
                    if isinstance(a, ast.Name) and a.id == name:
                        r = repo.resolve_expr(f.module, c.func)
                        if r and r[0] == 'class':
                            init = repo.find_method(r[1], '__init__')
                            if init:
                                params = [p.arg for p in
                                          init.node.args.args][1:]
                                if i < len(params):
                                    flows.append((init, params[i], f, c))
    for init, param, src, call in flows:
        set_names.setdefault((param, f'local:{init.key}'), []).append(
            (init.file, init.line))

    def iteration_contexts(fnode, name, is_attr):
        out = []
        for n in ast.walk(fnode):
            def matches(e):
                if is_attr:
                    return isinstance(e, ast.Attribute) and e.attr == name
                return isinstance(e, ast.Name) and e.id == name
            if isinstance(n, (ast.For, ast.comprehension)) and \
                    matches(n.iter):
                out.append(('for', n))
            elif isinstance(n, ast.Call) and n.args and matches(n.args[0]):
                d = dotted(n.func) or ''
                if d in ('list', 'tuple', 'enumerate', 'iter', 'next',
                         'zip', 'map', 'filter', 'reversed') or \
                        d.endswith('.join') or d.endswith('.extend'):
                    out.append((d, n))
            elif isinstance(n, ast.Starred) and matches(n.value):
                out.append(('*', n))
            elif isinstance(n, ast.Assign) and \
                    isinstance(n.targets[0], (ast.Tuple, ast.List)) and \
                    matches(n.value):
                out.append(('unpack', n))
        return out
    for (name, kind), where in sorted(set_names.items()):
        is_attr = kind == 'attr'
        funcs = list(repo.all_functions()) if is_attr else \
            [g for g in repo.all_functions()
             if g.key == kind[len('local:'):]]
        for f in funcs:
            if f.module.name in OUT_OF_SCOPE:
                continue
            for what, node in iteration_contexts(f.node, name, is_attr):
                construct = f'{f.file}:{f.qualname}:iterate:{name}'
                line = getattr(node, 'lineno', f.line)
                ok, why = _discharged(repo, f, node, name)
                ctx.instance(rule, construct,
                             sample={'how': what, 'discharged': why})
                if not ok:
                    ctx.finding(rule, construct,
                                f'{f.qualname} iterates the set-valued '
                                f'{name!r} ({what}) created at {where[0]}: '
                                f'iteration order depends on the hash seed',
                                f.file, line)
        ctx.instance(rule, f'set:{name}:{kind}', sample={'created': where})


def _discharged(repo, f, node, name):
    """An iteration is harmless when wrapped in sorted() or when the
    materialised list is only consumed order-insensitively."""
    for a in ancestors(node):
        if isinstance(a, ast.Call) and dotted(a.func) in ('sorted', 'set',
                                                          'frozenset', 'len',
                                                          'sum', 'min',
                                                          'max', 'any',
                                                          'all'):
            return True, f'inside {dotted(a.func)}()'
    # self.X = list(name): check every consumer of attribute X
    p = getattr(node, '_parent', None)
    if isinstance(p, ast.Assign) and \
            isinstance(p.targets[0], ast.Attribute):
        attr = p.targets[0].attr
        consumers = []
        for g in repo.all_functions():
            for n in ast.walk(g.node):
                if isinstance(n, ast.Attribute) and n.attr == attr and \
                        isinstance(n.ctx, ast.Load):
                    consumers.append((g, n))
        for g, n in consumers:
            ok = False
            for a in ancestors(n):
                if isinstance(a, ast.Call) and dotted(a.func) == 'sorted':
                    ok = True
                    break
                if isinstance(a, ast.For) and a.iter is n or (
                        isinstance(a, ast.For) and
                        n in list(ast.walk(a.iter))):
                    # commutative fill: body is `d[f(loopvar)] = value`
                    # statements whose value does not mention the loop var
                    lv = {x.id for x in ast.walk(a.target)
                          if isinstance(x, ast.Name)}
                    body_ok = True
                    derived = set(lv)
                    for s in a.body:
                        if isinstance(s, ast.Assign) and \
                                isinstance(s.targets[0], ast.Name) and \
                                not isinstance(s.value, ast.Call) or (
                                    isinstance(s, ast.Assign) and
                                    isinstance(s.targets[0], ast.Name)):
                            # letter = letter.lower()
                            derived.add(s.targets[0].id)
                            continue
                        if isinstance(s, ast.Assign) and \
                                isinstance(s.targets[0], ast.Subscript):
                            used = {x.id for x in ast.walk(s.value)
                                    if isinstance(x, ast.Name)}
                            if used & derived:
                                body_ok = False
                            continue
                        body_ok = False
                    ok = body_ok
                    break
                if isinstance(a, (ast.FunctionDef, ast.Lambda)):
                    break
            if not ok:
                return False, (f'consumer of .{attr} in {g.qualname} is '
                               f'order-sensitive')
        return True, (f'materialised into .{attr}; all {len(consumers)} '
                      f'consumers are sorted() or a commutative dict fill')
    return False, 'no order-insensitive consumer recognised'


def process_state(ctx):
    repo = ctx.repo
    rule = 'C20.no-process-wide-state-written-after-import'
    ctx.rule(rule, 'function bodies do not write class attributes or '
             'module globals (no `global`, no ClassName.attr stores or '
             'mutations, no mutable default arguments), apart from '
             'registration-time constructs that run at import only')
    n = 0
    for f in repo.all_functions():
        if f.module.name in OUT_OF_SCOPE:
            continue
        n += 1
        key = f'{f.module.name}:{f.qualname}'
        construct = f'{f.file}:{f.qualname}'
        bad = []
        for kind, names, line in effects.global_decls(f.node):
            if kind == 'global':
                bad.append((f'global {",".join(names)}', line))
        local = set()
        for x in walk_shallow(f.node):
            if isinstance(x, ast.Name) and isinstance(x.ctx, ast.Store):
                local.add(x.id)
        params = {a.arg for a in f.node.args.args + f.node.args.kwonlyargs}
        if f.node.args.vararg:
            params.add(f.node.args.vararg.arg)
        if f.node.args.kwarg:
            params.add(f.node.args.kwarg.arg)
        p = f.parent
        outer_locals = set()
        while p is not None:
            outer_locals |= {a.arg for a in p.node.args.args}
            for x in walk_shallow(p.node):
                if isinstance(x, ast.Name) and isinstance(x.ctx, ast.Store):
                    outer_locals.add(x.id)
            p = p.parent
        for kind, root, path, line, text in effects.writes(f.node):
            if root is None or root in local or root in params or \
                    root in outer_locals:
                if root == 'cls' and kind in ('store', 'aug', 'mutcall'):
                    # classmethod writing class state
                    if f.node.args.args and \
                            f.node.args.args[0].arg == 'cls' and path:
                        bad.append((f'{kind} {text}', line))
                continue
            r = repo.resolve_name(f.module, root)
            if r is None:
                continue
            if r[0] == 'class' and path:
                bad.append((f'{kind} {text} (class attribute)', line))
            elif r[0] == 'value':
                bad.append((f'{kind} {text} (module global)', line))
            elif r[0] == 'module' and path and kind != 'mutcall':
                bad.append((f'{kind} {text} (module attribute)', line))
        for d in list(f.node.args.defaults) + [
                x for x in f.node.args.kw_defaults if x is not None]:
            # a default is evaluated once, at import: an object built by a
            # call there is shared by every later call of the function
            # (harmless only for immutable values)
            if isinstance(d, (ast.List, ast.Dict, ast.Set, ast.ListComp,
                              ast.DictComp, ast.SetComp)) or (
                    isinstance(d, ast.Call) and dotted(d.func) not in (
                        'tuple', 'frozenset', 'int', 'float', 'str', 'bool',
                        'bytes', 'object', 'property')):
                bad.append((f'mutable default {unparse(d)}', d.lineno))
        ctx.instance(rule, construct, nontrivial=True,
                     sample={'writes': bad} if bad else None)
        if bad and key in REGISTRATION:
            ctx.observe(f'{construct} writes process-wide tables '
                        f'({[b[0] for b in bad]}): {REGISTRATION[key]}')
            continue
        for what, line in bad:
            ctx.finding(rule, f'{construct}:{what}',
                        f'{f.qualname} writes process-wide state ({what}): '
                        f'the result of a later compilation/run in the same '
                        f'process could depend on earlier ones', f.file,
                        line)
    ctx.floor('functions examined for process-wide writes', n, 400)
    # registration helpers are really only called at import time
    m = repo.module('qvm.instrs')
    inner_calls = [c for f in m.functions.values()
                   for c in ast.walk(f.node)
                   if isinstance(c, ast.Call) and
                   dotted(c.func) == 'def_instr']
    ctx.instance(rule, 'qvm/instrs.py:def_instr:callers')
    if inner_calls:
        ctx.finding(rule, 'qvm/instrs.py:def_instr:callers',
                    'def_instr is called from a function body, not only at '
                    'import time', 'qvm/instrs.py', inner_calls[0].lineno)
    # per-compilation counters live on instances: whatever get_label draws
    # its fresh numbers from is bound on self in __init__
    cg = repo.cls('qbee.qvm_codegen', 'QvmCodeGen')
    init = cg.methods.get('__init__')
    gl = cg.methods.get('get_label')
    if gl is None:
        raise AnalysisError('anchor vanished: QvmCodeGen.get_label')
    sources = set()
    for x in ast.walk(gl.node):
        if isinstance(x, ast.AugAssign) and dotted(x.target) and \
                dotted(x.target).startswith('self.'):
            sources.add(dotted(x.target))
        if isinstance(x, ast.Call) and dotted(x.func) == 'next' and x.args \
                and (dotted(x.args[0]) or '').startswith('self.'):
            sources.add(dotted(x.args[0]))
    ctx.instance(rule, f'{cg.file}:QvmCodeGen.label_counter',
                 sample={'sources': sorted(sources)})
    if not sources:
        ctx.finding(rule, f'{cg.file}:QvmCodeGen.label_counter',
                    'get_label no longer draws its numbers from a counter '
                    'held by the code generator instance', cg.file, gl.line)
    for src in sorted(sources):
        ok = init is not None and any(
            isinstance(s_, ast.Assign) and dotted(s_.targets[0]) == src
            for s_ in walk_shallow(init.node))
        if not ok:
            ctx.finding(rule, f'{cg.file}:QvmCodeGen.label_counter',
                        f'{src}, from which get_label numbers the generated '
                        f'labels and hidden variables, is not initialised '
                        f'per instance in __init__: numbering continues '
                        f'from earlier compilations in the process',
                        cg.file, gl.line)
    comp = repo.func('qbee.compiler', 'Compiler.__init__')
    ok = 'CompilationUnit()' in unparse(comp.node)
    ctx.instance(rule, f'{comp.file}:Compiler.__init__')
    if not ok:
        ctx.finding(rule, f'{comp.file}:Compiler.__init__',
                    'Compiler no longer creates a fresh CompilationUnit',
                    comp.file, comp.line)
    # packrat memoisation stays off (its cache is process-wide)
    g = repo.module('qbee.grammar')
    on = any(isinstance(c, ast.Call) and
             (dotted(c.func) or '').endswith('enable_packrat')
             for c in ast.walk(g.tree))
    ctx.instance(rule, 'qbee/grammar.py:enable_packrat')
    if on:
        ctx.observe('qbee/grammar.py enables packrat memoisation (a '
                    'process-wide cache); results should not depend on it')


MUTABLE_CTORS = ('dict', 'list', 'set', 'defaultdict', 'OrderedDict',
                 'deque', 'count', 'itertools.count', 'Counter',
                 'collections.defaultdict', 'collections.OrderedDict',
                 'collections.deque', 'collections.Counter')


def shared_class_state(ctx):
    """A mutable object bound in a class body is one object for the whole
    process.  Unless every class that inherits it rebinds `self.X` in its
    __init__, a mutation through an instance (`self.X[k] = v`,
    `obj.X.append(..)`, `next(self.X)`) is a write to process-wide state."""
    repo = ctx.repo
    rule = 'C20.class-level-mutable-not-shared-through-instances'
    ctx.rule(rule, 'a dict/list/set/counter created in a class body is '
             'either rebound per instance in __init__ (self.X = ...) or '
             'never mutated through an instance; registration tables '
             'filled at import time are exempt by name')
    shared = {}     # attr name -> [(class, value text)]
    n = 0
    for m in repo.modules.values():
        if m.name in OUT_OF_SCOPE:
            continue
        for c in m.classes.values():
            if 'Enum' in repo.base_names(c):
                continue
            for name, v in c.class_attrs.items():
                mutable = isinstance(v, (ast.Dict, ast.List, ast.Set,
                                         ast.ListComp, ast.DictComp,
                                         ast.SetComp)) or (
                    isinstance(v, ast.Call) and
                    dotted(v.func) in MUTABLE_CTORS)
                if not mutable:
                    continue
                n += 1
                # classes that see this object: c and its subclasses that
                # do not rebind it per instance
                sharers = []
                for m2 in repo.modules.values():
                    for c2 in m2.classes.values():
                        mro = repo.mro(c2)
                        if c not in mro:
                            continue
                        rebound = False
                        for k in mro[:mro.index(c) + 1]:
                            init = k.methods.get('__init__')
                            if init is not None and any(
                                    isinstance(s, (ast.Assign,
                                                   ast.AnnAssign)) and
                                    any(dotted(t) == f'self.{name}'
                                        for t in (s.targets if isinstance(
                                            s, ast.Assign) else [s.target]))
                                    for s in ast.walk(init.node)):
                                rebound = True
                        if not rebound:
                            sharers.append(c2.name)
                ctx.instance(rule, f'{c.file}:{c.name}.{name}',
                             sample={'value': unparse(v)[:40],
                                     'shared_by': sharers[:6]})
                if sharers:
                    shared.setdefault(name, []).append((c, unparse(v)[:40]))
    ctx.floor('mutable class-level attributes examined', n, 80)
    # mutations through an instance
    for f in repo.all_functions():
        if f.module.name in OUT_OF_SCOPE:
            continue
        key = f'{f.module.name}:{f.qualname}'
        if key in REGISTRATION:
            continue
        sites = []
        for kind, root, path, line, text in effects.writes(f.node):
            parts = path.split('.') if path else []
            if kind == 'mutcall':
                parts = parts[:-1]
                tail_is_attr = False
            else:
                # `obj.X = v` rebinds (creates an instance attribute);
                # `obj.X[k] = v` mutates
                tail_is_attr = text.endswith('.' + parts[-1]) if parts \
                    else False
            for i, p in enumerate(parts):
                if p in shared and not (tail_is_attr and kind == 'store'
                                        and i == len(parts) - 1):
                    if root in ('cls',) or (
                            root and repo.resolve_name(f.module, root) and
                            repo.resolve_name(f.module, root)[0] == 'class'):
                        continue        # reported by the class-store rule
                    sites.append((p, kind, text, line))
        for c in ast.walk(f.node):
            if isinstance(c, ast.Call) and dotted(c.func) == 'next' and \
                    c.args and isinstance(c.args[0], ast.Attribute) and \
                    c.args[0].attr in shared:
                sites.append((c.args[0].attr, 'next', unparse(c)[:40],
                              c.lineno))
        for attr, kind, text, line in sites:
            owners = ', '.join(f'{c.name}.{attr} = {v}'
                               for c, v in shared[attr])
            ctx.finding(rule, f'{f.file}:{f.qualname}:{kind} {text}',
                        f'{f.qualname} mutates `{text}`, but {owners} is '
                        f'created once in the class body and not rebound per '
                        f'instance: the object is shared by every '
                        f'compilation/run in the process', f.file, line)


STR_METHODS = {'lower', 'upper', 'strip', 'lstrip', 'rstrip', 'split',
               'startswith', 'endswith', 'replace', 'join', 'encode',
               'decode', 'format', 'isalpha', 'isdigit', 'isnumeric',
               'find', 'index', 'count', 'title', 'capitalize'}


def _memo_numeric(fnode):
    memo = None
    for d in getattr(fnode, 'decorator_list', []):
        name = dotted(d.func) if isinstance(d, ast.Call) else dotted(d)
        if name and name.split('.')[-1] in ('lru_cache', 'cache'):
            memo = unparse(d)
    if memo is None:
        return None, set()
    params = [a.arg for a in fnode.args.args if a.arg not in
              ('self', 'cls')]
    numeric = set()
    for x in ast.walk(fnode):
        names = []
        if isinstance(x, ast.BinOp) and isinstance(
                x.op, (ast.Add, ast.Sub, ast.Mult, ast.Div, ast.Pow,
                       ast.FloorDiv, ast.Mod)):
            names = [x.left, x.right]
        elif isinstance(x, ast.Compare) and any(
                isinstance(c, ast.Constant) and
                isinstance(c.value, (int, float)) and
                not isinstance(c.value, bool)
                for c in [x.left] + x.comparators):
            names = [x.left] + x.comparators
        elif isinstance(x, ast.Call) and dotted(x.func) in (
                'round', 'abs', 'int', 'float', 'str', 'format',
                'ctypes.c_float', 'math.floor'):
            names = list(x.args)
        elif isinstance(x, ast.UnaryOp) and isinstance(x.op, ast.USub):
            names = [x.operand]
        for nm in names:
            if isinstance(nm, ast.Name) and nm.id in params:
                numeric.add(nm.id)
        # a parameter whose attributes are read is an object: two objects
        # that compare equal (by a user-defined __eq__/__hash__, which may
        # ignore fields the function reads) share one cache entry
        if isinstance(x, ast.Attribute) and isinstance(x.value, ast.Name) \
                and x.value.id in params and x.attr not in STR_METHODS:
            numeric.add(x.value.id)
    return memo, numeric


_MEMO_POSITIVE = '''
@lru_cache(maxsize=None)
def fmt(n, kind):
    if n >= 0:
        return ' ' + str(n)
    return str(n)
'''
_MEMO_NEGATIVE = '''
@lru_cache(maxsize=None)
def lookup(name):
    return TABLE[name.lower()]
'''


def memoised_functions(ctx):
    """functools caches are process-wide state written after import.  They
    are harmless only when equal keys stand for indistinguishable
    arguments; numbers break that (0.0 == -0.0, 1 == 1.0 == True share one
    entry unless typed=True, and -0.0/0.0 share one even then)."""
    repo = ctx.repo
    rule = 'C20.memoised-function-keys-are-exact'
    ctx.rule(rule, 'a function on the compile/execute path that is '
             'memoised with functools.lru_cache/cache takes no numeric '
             'parameter (numeric keys that compare equal, 0.0/-0.0 or '
             '1/1.0/True, would make its result depend on which call came '
             'first in the process)')
    n = 0
    for f in repo.all_functions():
        if f.module.name in OUT_OF_SCOPE:
            continue
        n += 1
        memo, numeric = _memo_numeric(f.node)
        if memo is None:
            continue
        construct = f'{f.file}:{f.qualname}:{memo}'
        ctx.instance(rule, construct, sample={'numeric_params':
                                              sorted(numeric)})
        if numeric:
            ctx.finding(rule, construct,
                        f'{f.qualname} is memoised ({memo}) and its '
                        f'parameter(s) {sorted(numeric)} are numbers or '
                        f'objects: keys that compare equal but differ (0.0 '
                        f'and -0.0; 1, 1.0 and True; objects whose __eq__ '
                        f'ignores a field the function reads) share one '
                        f'cache entry, so the result depends on what the '
                        f'process computed before',
                        f.file, f.line)
    ctx.floor('functions examined for memoisation', n, 400)
    # the expected count on a clean tree is zero: keep the detector honest
    pos = _memo_numeric(ast.parse(_MEMO_POSITIVE).body[0])
    neg = _memo_numeric(ast.parse(_MEMO_NEGATIVE).body[0])
    if pos[1] != {'n'} or neg[0] is None or neg[1]:
        raise AnalysisError('memoisation detector self-check failed')


def run(ctx):
    ctx.clauses = [
        'no nondeterminism source on compile/execute paths',
        'set iteration order cannot leak',
        'no process-wide mutable state written after import',
    ]
    ctx.not_decided = ['determinism of pyparsing internals and CPython '
                       '(assumed); dict iteration is insertion-ordered by '
                       'the language']
    ctx.assumptions = ['dicts iterate in insertion order (language '
                       'guarantee)', 'the debug section (gzip+pickle) is '
                       'outside the byte-identity claim']
    sources(ctx)
    set_order(ctx)
    process_state(ctx)
    shared_class_state(ctx)
    memoised_functions(ctx)
    return ('Absence of nondeterminism sources decided by three '
            'whole-repository scans over resolved names: uses of clock/'
            'random/process/environment APIs outside the peripherals '
            'classes, iteration of set-valued names (with consumer '
            'analysis), and writes to class attributes or module globals '
            'from function bodies (registration-time constructs listed with '
            'reasons). Also: class-level mutables mutated through instances, call-valued default arguments, functools caches on numeric or object parameters.')