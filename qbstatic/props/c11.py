"""C11 -- the debug map attributes every instruction to its statement
(structural clauses)."""
import ast

from .. import registries as R
from ..astutil import dotted, const, unparse, walk_shallow
from ..cfg import build_cfg, repo_noreturn
from ..model import AnalysisError
from .c08 import optimizer_window


def bracketing(ctx):
    repo = ctx.repo
    rule = 'C11.markers-bracket-every-generator-call'
    ctx.rule(rule, 'BaseCodeGen.gen_code_for_node calls start_dbg_info '
             'before and end_dbg_info after the generator on every normal '
             'path, and the two functions apply the same sequence of guards '
             '(so markers come in matched pairs for the same nodes)')
    f = repo.func('qbee.codegen', 'BaseCodeGen.gen_code_for_node')
    cfg = build_cfg(f.node, repo_noreturn)

    def calls(name):
        return [n for n in cfg.nodes if n.kind == 'stmt' and any(
            isinstance(c, ast.Call) and dotted(c.func) == name
            for c in ast.walk(n.ast))]
    start = calls('self.start_dbg_info')
    end = calls('self.end_dbg_info')
    from ..astutil import local_defs
    gvars = {name for name, ds in local_defs(f.node).items()
             if any(k == 'assign' and 'generator_funcs' in unparse(v)
                    for k, v in ds)}
    gen = [n for n in cfg.nodes if n.kind == 'stmt' and any(
        isinstance(c, ast.Call) and isinstance(c.func, ast.Name) and
        c.func.id in gvars for c in ast.walk(n.ast))]
    construct = f'{f.file}:BaseCodeGen.gen_code_for_node'
    ctx.instance(rule, construct, sample={'start': len(start), 'end':
                                          len(end), 'gen': len(gen)})
    if not (start and end and gen):
        raise AnalysisError('anchor vanished: start/end/gen calls in '
                            'gen_code_for_node')
    for g in gen:
        if not cfg.must_pass(g, lambda x: x in start):
            ctx.finding(rule, construct + ':start',
                        'the generator can run without start_dbg_info',
                        f.file, g.line)
        r = cfg.reachable(g, blocked_nodes=end)
        if cfg.exit in r:
            ctx.finding(rule, construct + ':end',
                        'the generator can return normally without '
                        'end_dbg_info', f.file, g.line)
    for s in start:
        # same node argument
        pass
    args = set()
    for n in start + end:
        for c in ast.walk(n.ast):
            if isinstance(c, ast.Call) and dotted(c.func) in (
                    'self.start_dbg_info', 'self.end_dbg_info'):
                args.add(tuple(unparse(a) for a in c.args))
    ctx.instance(rule, construct + ':args', sample={'args': sorted(args)})
    if len(args) != 1:
        ctx.finding(rule, construct + ':args',
                    f'start/end markers are called with different '
                    f'arguments: {sorted(args)}', f.file, f.line)
    # sibling guards
    guards = {}
    for name in ('start_dbg_info', 'end_dbg_info'):
        g = repo.func('qbee.codegen', f'BaseCodeGen.{name}')
        seq = []
        for st in g.node.body:
            if isinstance(st, ast.If) and len(st.body) == 1 and \
                    isinstance(st.body[0], ast.Return):
                seq.append(unparse(st.test))
        emitted = [const(t.elts[0]) for t in ast.walk(g.node)
                   if isinstance(t, ast.Tuple) and t.elts and
                   isinstance(const(t.elts[0]), str)]
        guards[name] = (seq, emitted, g)
    s_seq, s_em, sg = guards['start_dbg_info']
    e_seq, e_em, eg = guards['end_dbg_info']
    construct = f'{sg.file}:BaseCodeGen.start_dbg_info<->end_dbg_info'
    ctx.instance(rule, construct, sample={'start_guards': s_seq,
                                          'end_guards': e_seq})
    if s_seq != e_seq:
        ctx.finding(rule, construct,
                    f'start_dbg_info returns early under {s_seq} but '
                    f'end_dbg_info under {e_seq}: a start marker without '
                    f'its end marker (or vice versa)', sg.file, sg.line)
    if s_em != ['_dbg_info_start'] or e_em != ['_dbg_info_end']:
        ctx.finding(rule, construct + ':ops',
                    f'markers emitted are {s_em} / {e_em}', sg.file,
                    sg.line)
    need = ['not self.debug_info_enabled', 'not isinstance(node, Stmt)',
            'node.loc_start is None']
    for g_ in need:
        if g_ not in s_seq:
            ctx.finding(rule, construct + f':guard:{g_}',
                        f'marker guard `{g_}` is missing: markers would be '
                        f'emitted for nodes that are not located statements',
                        sg.file, sg.line)


def collector_offsets(ctx):
    from .. import pat
    repo = ctx.repo
    rule = 'C11.offsets-are-instruction-boundaries'
    ctx.rule(rule, 'the debug collector is fed only cur_offset (an '
             'instruction start by C09) and pairs each end with the '
             'innermost open start of the same node')
    asm = repo.func('qbee.qvm_codegen', 'QvmCode.assembled')
    n = 0
    from .. import pat
    n_, b_ = pat.first('_OFF += 1 + len(_B)', asm.node)
    if b_ is None:
        raise AnalysisError('anchor vanished: code offset update')
    offvar = unparse(b_['_OFF'])
    for c in ast.walk(asm.node):
        if isinstance(c, ast.Call) and isinstance(c.func, ast.Attribute) \
                and c.func.attr in ('start_node', 'end_node',
                                    'mark_empty_block') and c.args:
            n += 1
            off = unparse(c.args[-1])
            construct = f'{asm.file}:QvmCode.assembled:{c.func.attr}'
            ctx.instance(rule, construct, sample={'offset': off})
            if off != offvar:
                ctx.finding(rule, construct,
                            f'{c.func.attr} receives {off} instead of the '
                            f'running code offset', asm.file, c.lineno)
    ctx.floor('collector feed sites', n, 3)
    en = repo.func('qvm.debug_info', 'DebugInfoCollector.end_node')
    ok = pat.has('_SN, _SO = self._stack.pop()\n...\n'
                 'self._nodes.append((node, _SO, code_offset))', en.node)
    ctx.instance(rule, f'{en.file}:DebugInfoCollector.end_node')
    if not ok:
        ctx.finding(rule, f'{en.file}:DebugInfoCollector.end_node',
                    'end_node no longer records (node, start offset popped '
                    'from the stack, end offset)', en.file, en.line)
    sn = repo.func('qvm.debug_info', 'DebugInfoCollector.start_node')
    sn_params = [a.arg for a in sn.node.args.args[1:3]]
    ok = any(isinstance(c, ast.Call) and
             unparse(c.func) == 'self._stack.append' and
             len(c.args) == 1 and isinstance(c.args[0], ast.Tuple) and
             [unparse(e) for e in c.args[0].elts] == sn_params
             for c in ast.walk(sn.node))
    ctx.instance(rule, f'{sn.file}:DebugInfoCollector.start_node')
    if not ok:
        ctx.finding(rule, f'{sn.file}:DebugInfoCollector.start_node',
                    'start_node no longer pushes (node, offset)', sn.file,
                    sn.line)


def source_positions(ctx):
    repo = ctx.repo
    rule = 'C11.statement-positions-recorded'
    ctx.rule(rule, 'parse_stmt stamps every statement it returns with the '
             'Located start/end; update_node_loc adds the line offset to a '
             'node and all its children; records take their line from '
             'node.loc_start via convert_index_to_line_col')
    ps = repo.func('qbee.grammar', 'parse_stmt')
    from .. import pat
    ok = pat.has('_LS, _T, _LE = toks\n...\n'
                 'for _K in _T:\n    _K.loc_start = _LS\n'
                 '    _K.loc_end = _LE', ps.node)
    ctx.instance(rule, f'{ps.file}:parse_stmt')
    if not ok:
        ctx.finding(rule, f'{ps.file}:parse_stmt',
                    'parse_stmt no longer stamps loc_start/loc_end on every '
                    'statement token', ps.file, ps.line)
    un = repo.func('qbee.parser', 'update_node_loc')
    ok = pat.has('node.loc_start += offset', un.node) and \
        pat.has('node.loc_end += offset', un.node) and \
        pat.has('for _C in node.children:\n'
                '    update_node_loc(_C, offset)', un.node)
    ctx.instance(rule, f'{un.file}:update_node_loc')
    if not ok:
        ctx.finding(rule, f'{un.file}:update_node_loc',
                    'update_node_loc no longer shifts the node and all its '
                    'children by the line offset', un.file, un.line)
    p = repo.func('qbee.parser', 'parse_string')
    ok = pat.has('for _LINE in input_string.split(\'\\n\'):\n    ...\n'
                 '    for _S in __:\n        update_node_loc(_S, _LL)\n'
                 '        ...\n    _LL += len(_LINE) + 1', p.node)
    ctx.instance(rule, f'{p.file}:parse_string:line-offset')
    if not ok:
        ctx.finding(rule, f'{p.file}:parse_string:line-offset',
                    'parse_string no longer shifts statements by the '
                    'accumulated line offset (len(line) + 1 per line)',
                    p.file, p.line)
    an = repo.func('qvm.debug_info', 'DebugInfo.add_node')
    txt = unparse(an.node)
    ok = 'convert_index_to_line_col(self.source_code, node.loc_start)' in txt
    ctx.instance(rule, f'{an.file}:DebugInfo.add_node')
    if not ok:
        ctx.finding(rule, f'{an.file}:DebugInfo.add_node',
                    'records no longer derive their line from '
                    'node.loc_start', an.file, an.line)
    # Block.create copies positions from start/end statements
    bc = repo.func('qbee.stmt', 'Block.create')
    ok = pat.has('_B.loc_start = start_stmt.loc_start', bc.node) and \
        pat.has('_B.loc_end = end_stmt.loc_end', bc.node)
    ctx.instance(rule, f'{bc.file}:Block.create')
    if not ok:
        ctx.finding(rule, f'{bc.file}:Block.create',
                    'blocks no longer span from their start statement to '
                    'their end statement', bc.file, bc.line)


def find_stmt_shape(ctx):
    repo = ctx.repo
    rule = 'C11.innermost-statement-lookup'
    ctx.rule(rule, 'find_stmt returns, among the records whose range '
             'contains the address (start <= addr < end), the one with the '
             'smallest range')
    f = repo.func('qvm.debug_info', 'DebugInfo.find_stmt')
    from .. import pat
    ok1 = pat.has('_S.start_offset <= addr < _S.end_offset', f.node)
    ok2 = pat.has('_NB.sort(key=lambda _R: _R.end_offset - '
                  '_R.start_offset)\nif _NB:\n    return _NB[0]', f.node)
    ctx.instance(rule, f'{f.file}:DebugInfo.find_stmt',
                 sample={'range_test': ok1, 'smallest_first': ok2})
    if not ok1:
        ctx.finding(rule, f'{f.file}:DebugInfo.find_stmt:range',
                    'find_stmt no longer selects records with start <= addr '
                    '< end', f.file, f.line)
    if not ok2:
        ctx.finding(rule, f'{f.file}:DebugInfo.find_stmt:innermost',
                    'find_stmt no longer returns the smallest matching '
                    'range', f.file, f.line)
    # undefined names in the dead block branch
    local = set()
    for n in ast.walk(f.node):
        if isinstance(n, ast.Name) and isinstance(n.ctx, ast.Store):
            local.add(n.id)
        if isinstance(n, ast.arg):
            local.add(n.arg)
    glob = set(f.module.imports) | set(f.module.assigns) | \
        set(f.module.classes) | set(f.module.functions)
    undefined = sorted({n.id for n in ast.walk(f.node)
                        if isinstance(n, ast.Name) and
                        isinstance(n.ctx, ast.Load) and n.id not in local
                        and n.id not in glob and n.id not in dir(
                            __builtins__) and n.id not in ('isinstance',)})
    if undefined:
        ctx.observe(f'DebugInfo.find_stmt references undefined names '
                    f'{undefined} in its block branch; the branch is dead '
                    f'because self.stmts holds records, never Block nodes')


def record_synthesis(ctx):
    repo = ctx.repo
    rule = 'C11.block-start-end-records-cover-the-block'
    ctx.rule(rule, 'DebugInfo.finalize synthesises the start/end statement '
             'records of a block so that together they cover the block\'s '
             'range: [start, first child) + (last child, end] or, for an '
             'empty block, [start, marker) + [marker, end) with the marker '
             'anywhere in start <= marker < end')
    from .. import pat
    f = repo.func('qvm.debug_info', 'DebugInfo.finalize')
    checks = {
        'with-children-start': pat.has(
            'add_node_record(_B.start_stmt, _S, _C.start_offset)', f.node),
        'with-children-end': pat.has(
            'add_node_record(_B.end_stmt, _C.end_offset, _E)', f.node),
        'empty-marker-range': pat.has(
            'for _A in self.empty_blocks:\n    if _S <= _A < _E:\n'
            '        add_node_record(_B.start_stmt, _S, _A)\n'
            '        add_node_record(_B.end_stmt, _A, _E)', f.node),
        'children-inside': pat.has(
            'if _BS <= _X.start_offset and _BE >= _X.end_offset:\n    ...',
            f.node),
    }
    for k, ok in checks.items():
        ctx.instance(rule, f'{f.file}:DebugInfo.finalize:{k}')
        if not ok:
            ctx.finding(rule, f'{f.file}:DebugInfo.finalize:{k}',
                        f'DebugInfo.finalize: the "{k}" step no longer has '
                        f'the shape that makes block start/end records cover '
                        f'the whole block (instructions would be attributed '
                        f'to no statement)', f.file, f.line)


def line_offsets(ctx):
    """Positions inside a line are made absolute by adding the offset of
    the line in the input.  That offset must advance by the length of the
    line *as it stands in the input* plus the separator: the loop variable
    that came out of split() must reach len() untouched."""
    repo = ctx.repo
    rule = 'C11.line-offset-advances-by-the-input-line'
    ctx.rule(rule, 'in parse_string the element produced by '
             'input.split(sep) is not reassigned inside the loop, and the '
             'running offset is advanced by len(<that element>) + len(sep)')
    f = repo.func('qbee.parser', 'parse_string')
    loop = None
    for n in ast.walk(f.node):
        if isinstance(n, ast.For) and isinstance(n.iter, ast.Call) and \
                isinstance(n.iter.func, ast.Attribute) and \
                n.iter.func.attr == 'split' and \
                isinstance(n.target, ast.Name):
            loop = n
    if loop is None:
        raise AnalysisError('anchor vanished: line loop of parse_string')
    var = loop.target.id
    sep = const(loop.iter.args[0]) if loop.iter.args else None
    construct = f'{f.file}:parse_string:line-loop'
    reassigned = [x for x in ast.walk(loop) if isinstance(x, ast.Name) and
                  x.id == var and isinstance(x.ctx, ast.Store) and
                  x is not loop.target]
    adv = []
    for st in ast.walk(loop):
        if isinstance(st, ast.AugAssign) and isinstance(st.op, ast.Add) and \
                any(isinstance(c, ast.Call) and dotted(c.func) == 'len' and
                    c.args and isinstance(c.args[0], ast.Name) and
                    c.args[0].id == var for c in ast.walk(st.value)):
            adv.append(st)
    ctx.instance(rule, construct, sample={'reassigned': len(reassigned),
                                          'advance': [unparse(a)
                                                      for a in adv]})
    if reassigned:
        ctx.finding(rule, construct + ':reassigned',
                    f'the line variable `{var}` is reassigned inside the '
                    f'loop (line {reassigned[0].lineno}): the offset is then '
                    f'advanced by the length of the modified text and every '
                    f'later position drifts', f.file, reassigned[0].lineno)
    ok = False
    for a in adv:
        v = a.value
        if isinstance(v, ast.BinOp) and isinstance(v.op, ast.Add):
            parts = [v.left, v.right]
            has_len = any(isinstance(p, ast.Call) and
                          dotted(p.func) == 'len' for p in parts)
            k = [const(p) for p in parts if isinstance(p, ast.Constant)]
            if has_len and isinstance(sep, str) and k == [len(sep)]:
                ok = True
    if not ok:
        ctx.finding(rule, construct + ':advance',
                    f'the running offset is not advanced by len({var}) + '
                    f'{len(sep) if isinstance(sep, str) else "len(sep)"}',
                    f.file, loop.lineno)


    # one convention for what a line is: the records' line numbers are
    # computed by convert_index_to_line_col, the parser numbers lines by
    # split(sep); str.splitlines() breaks at more characters (FF, VT, FS,
    # GS, RS, NEL, U+2028/9, lone CR), which may stand in a string literal
    # or a comment
    rule_s = 'C11.one-line-separator-convention'
    ctx.rule(rule_s, 'the function that turns an input offset into (line, '
             'column) counts lines by the separator parse_string splits on, '
             'and no function on the source-text path uses str.splitlines()')
    conv = repo.func('qbee.utils', 'convert_index_to_line_col')
    consts_ = {const(c) for c in ast.walk(conv.node)
               if isinstance(c, ast.Constant) and isinstance(c.value, str)}
    construct = f'{conv.file}:convert_index_to_line_col:separator'
    ctx.instance(rule_s, construct, sample={'separator': sep,
                                            'mentions_separator':
                                            sep in consts_})
    if isinstance(sep, str) and sep not in consts_:
        # not decisive alone (a regex or a helper may carry the separator)
        ctx.observe(f'{construct}: convert_index_to_line_col does not '
                    f'mention {sep!r}, the separator parse_string numbers '
                    f'lines with')
    n_sl = 0
    for g in repo.all_functions():
        on_path = g is conv or g.module is f.module
        for c in ast.walk(g.node):
            if isinstance(c, ast.Call) and \
                    isinstance(c.func, ast.Attribute) and \
                    c.func.attr == 'splitlines':
                recv = unparse(c.func.value)
                if on_path or 'source' in recv or 'input_string' in recv:
                    n_sl += 1
                    cs = f'{g.file}:{g.qualname}:splitlines'
                    ctx.instance(rule_s, cs)
                    ctx.finding(rule_s, cs,
                                f'{g.qualname} divides `{recv[:40]}` into '
                                f'lines with str.splitlines(), which also '
                                f'breaks at form feed, VT, FS/GS/RS, NEL, '
                                f'U+2028/9 and a lone CR; the parser numbers '
                                f'lines by split({sep!r}), so every record '
                                f'after such a character gets a later line',
                                g.file, c.lineno)
    # positive control for the expected-zero scan
    probe = ast.parse('def p(source):\n    return source.splitlines()')
    if not any(isinstance(c, ast.Call) and
               isinstance(c.func, ast.Attribute) and
               c.func.attr == 'splitlines' for c in ast.walk(probe)):
        raise AnalysisError('self-check failed: splitlines probe')


def replacement_keeps_location(ctx):
    """The passes rewrite nodes (folded constants, `f = expr` inside a
    FUNCTION -> ReturnValueSetStmt) through Node.replace_child; the
    replacement gets its debug record and diagnostics position from the
    node it replaces."""
    from ..cfg import build_cfg, repo_noreturn
    repo = ctx.repo
    rule = 'C11.replacement-node-inherits-the-location'
    ctx.rule(rule, 'Node.replace_child copies loc_start and loc_end from '
             'the replaced child to the new one on every normal path '
             '(unconditionally): statements created by the passes otherwise '
             'have no position, hence no debug record')
    f = repo.func('qbee.node', 'Node.replace_child')
    params = [a.arg for a in f.node.args.args]
    if len(params) < 3:
        raise AnalysisError('anchor vanished: replace_child(self, old, new)')
    old, new = params[1], params[2]
    cfg = build_cfg(f.node, repo_noreturn)
    for attr in ('loc_start', 'loc_end'):
        want = f'{new}.{attr} = {old}.{attr}'
        construct = f'{f.file}:Node.replace_child:{attr}'
        nodes = [n for n in cfg.nodes if n.kind == 'stmt' and
                 isinstance(n.ast, ast.Assign) and
                 unparse(n.ast) == want]
        ok = bool(nodes) and cfg.must_pass(
            cfg.exit, lambda x: x in nodes)
        ctx.instance(rule, construct, sample={'copied_on_all_paths': ok})
        if not ok:
            ctx.finding(rule, construct,
                        f'replace_child does not execute `{want}` on every '
                        f'path to its normal exit: a node inserted by a '
                        f'pass (e.g. ReturnValueSetStmt) keeps no source '
                        f'position and gets no debug record', f.file,
                        f.line)


def run(ctx):
    ctx.clauses = [
        'markers bracket every generator call with matching guards',
        'collector offsets are cur_offset; start/end pairing',
        'the optimizer preserves markers (shared with C08)',
        'statement positions are stamped and shifted consistently',
        'innermost-range lookup shape',
        'child_fields lists every node-valued attribute (position fix-up '
        'and pass walk reach every statement)',
        'synthesised block start/end records span exactly the gap before '
        'the first and after the last child instruction (all offset '
        'orderings)',
    ]
    ctx.not_decided = ['that the recorded line/extract is the text that '
                       'produced the instruction; nesting of ranges; '
                       'attribution after peephole deletions']
    bracketing(ctx)
    collector_offsets(ctx)
    optimizer_window(ctx, 'C11')
    source_positions(ctx)
    find_stmt_shape(ctx)
    record_synthesis(ctx)
    from .. import grammar_shapes
    grammar_shapes.check_child_fields(ctx, 'C11')
    from .. import dbgrecords
    dbgrecords.check(ctx, 'C11')
    replacement_keeps_location(ctx)
    line_offsets(ctx)
    if ctx.tier == 'thorough' or True:
        try:
            from .. import gensim
        except ImportError:
            gensim = None
        if gensim is not None:
            gensim.check_marker_balance(ctx, 'C11')
    return ('Structural clauses of C11: CFG must-pass rules on '
            'gen_code_for_node, sibling agreement of the marker guards, the '
            'offset argument of every collector call, the optimizer window '
            'rule shared with C08, and (emission interpreter) marker balance '
            'of the manual markers in gen_if_block / gen_select_block. '
            'Attribution of text to instructions is NOT decided. Also: child_fields completeness, the order-domain analysis of DebugInfo.finalize, replace_child keeps the location, the line offset advances by the unmodified input line.')