"""C14 -- spelling, spacing, comments and separators do not change the
program (structural clauses on the grammar)."""
import ast
import re

from .. import registries as R
from ..astutil import dotted, const, unparse, walk_shallow, ancestors
from ..model import AnalysisError

try:
    import re._parser as sre_parse
except ImportError:   # pragma: no cover
    import sre_parse


def terminals(repo):
    g = repo.module('qbee.grammar')
    out = []
    for n in ast.walk(g.tree):
        if isinstance(n, ast.Call):
            d = dotted(n.func)
            if d in ('CaselessKeyword', 'Keyword', 'Literal', 'Regex',
                     'CaselessLiteral', 'Word'):
                out.append((d, n))
    return g, out


def case_insensitive_terminals(ctx):
    repo = ctx.repo
    rule = 'C14.alphabetic-terminals-are-case-insensitive'
    ctx.rule(rule, 'every grammar terminal that contains letters matches '
             'both cases: keywords are CaselessKeyword with a lower-case '
             'defining string, Literal terminals contain no letters, Regex '
             'terminals carry re.I or list both cases of every letter')
    g, terms = terminals(repo)
    n_kw = 0
    for d, call in terms:
        arg = const(call.args[0]) if call.args else None
        construct = f'{g.relpath}:{d}({arg!r})'
        if d == 'CaselessKeyword':
            n_kw += 1
            ctx.instance(rule, construct, nontrivial=True)
            if not isinstance(arg, str) or arg != arg.lower():
                ctx.finding(rule, construct,
                            f'keyword defining string {arg!r} is not '
                            f'lower-case: parse actions compare tokens with '
                            f'lower-case constants', g.relpath, call.lineno)
        elif d == 'Keyword':
            ctx.instance(rule, construct)
            if isinstance(arg, str) and any(c.isalpha() for c in arg):
                ctx.finding(rule, construct,
                            f'case-sensitive Keyword({arg!r}): the other '
                            f'spelling of the keyword is not recognised',
                            g.relpath, call.lineno)
        elif d == 'Literal':
            ctx.instance(rule, construct)
            if isinstance(arg, str) and any(c.isalpha() for c in arg):
                ctx.finding(rule, construct,
                            f'Literal({arg!r}) contains letters and is '
                            f'case-sensitive', g.relpath, call.lineno)
        elif d == 'Regex':
            flags = 0
            if len(call.args) > 1:
                flags = 're.I' in unparse(call.args[1]) or \
                    'IGNORECASE' in unparse(call.args[1])
            for k in call.keywords:
                if k.arg == 'flags' and ('re.I' in unparse(k.value) or
                                         'IGNORECASE' in unparse(k.value)):
                    flags = True
            bad = [] if flags or not isinstance(arg, str) else \
                _one_sided_letters(arg)
            if not flags and not isinstance(arg, str) and call.args:
                # a pattern assembled from pieces: look at the character
                # classes of its constant fragments
                import re as _re
                for frag in ast.walk(call.args[0]):
                    if isinstance(frag, ast.Constant) and \
                            isinstance(frag.value, str):
                        for cls_ in _re.findall(r'\[\^?([^\]]*)\]',
                                                frag.value):
                            low = bool(_re.search(r'[a-z]-[a-z]', cls_)) or \
                                any(ch.islower() for ch in
                                    _re.sub(r'.-.', '', cls_))
                            up = bool(_re.search(r'[A-Z]-[A-Z]', cls_)) or \
                                any(ch.isupper() for ch in
                                    _re.sub(r'.-.', '', cls_))
                            if low != up:
                                bad.append(f'[{cls_}]')
                construct = f'{g.relpath}:Regex(<assembled>)@' + \
                    (unparse(call.args[0])[:40])
            ctx.instance(rule, construct, sample={'ignorecase': bool(flags),
                                                  'one_sided': bad})
            if bad:
                ctx.finding(rule, construct,
                            f'Regex({arg!r}) accepts {bad} in one case only',
                            g.relpath, call.lineno)
    ctx.floor('CaselessKeyword terminals', n_kw, 200)


def _one_sided_letters(pattern):
    bad = []
    try:
        parsed = sre_parse.parse(pattern)
    except Exception:
        return ['<unparsable>']

    def visit(items):
        for op, av in items:
            name = str(op)
            if name == 'LITERAL':
                ch = chr(av)
                if ch.isalpha():
                    bad.append(ch)
            elif name == 'NOT_LITERAL':
                pass
            elif name == 'IN':
                if av and str(av[0][0]) == 'NEGATE':
                    continue
                chars = set()
                for o, a in av:
                    if str(o) == 'LITERAL':
                        chars.add(chr(a))
                    elif str(o) == 'RANGE':
                        chars |= {chr(c) for c in range(a[0], a[1] + 1)}
                for ch in chars:
                    if ch.isalpha() and ch.swapcase() not in chars:
                        bad.append(ch)
            elif name == 'SUBPATTERN':
                visit(av[3])
            elif name in ('MAX_REPEAT', 'MIN_REPEAT'):
                visit(av[2])
            elif name == 'BRANCH':
                for b in av[1]:
                    visit(b)
    visit(parsed)
    return sorted(set(bad))


def canonical_comparisons(ctx):
    repo = ctx.repo
    rule = 'C14.tokens-compared-in-canonical-spelling'
    ctx.rule(rule, 'string constants that parse actions compare with '
             'tokens (==, in, dict keys) are lower-case defining strings of '
             'a keyword/literal of the grammar, or the token is lower()-ed '
             'first')
    g, terms = terminals(repo)
    defined = set()
    for d, call in terms:
        a = const(call.args[0]) if call.args else None
        if d in ('CaselessKeyword', 'Literal') and isinstance(a, str):
            defined.add(a)
    n = 0
    for rname, f in R.parse_actions(repo):
        for c in walk_shallow(f.node):
            consts = []
            if isinstance(c, ast.Compare):
                for e in [c.left] + list(c.comparators):
                    if isinstance(const(e), str):
                        consts.append(const(e))
                    elif isinstance(e, (ast.List, ast.Tuple)):
                        consts += [const(x) for x in e.elts
                                   if isinstance(const(x), str)]
            elif isinstance(c, ast.Subscript) and \
                    isinstance(c.value, ast.Dict):
                consts += [const(k) for k in c.value.keys
                           if isinstance(const(k), str)]
            for s in consts:
                if not any(ch.isalpha() for ch in s):
                    continue
                if s in ('(', ')'):
                    continue
                n += 1
                construct = f'{f.file}:{f.qualname}:{s!r}'
                ctx.instance(rule, construct)
                if s != s.lower():
                    ctx.finding(rule, construct,
                                f'{f.qualname} compares a token with '
                                f'{s!r}, which is not lower-case: keyword '
                                f'tokens arrive in their lower-case defining '
                                f'spelling', f.file, c.lineno)
                elif s not in defined:
                    ctx.finding(rule, construct,
                                f'{f.qualname} compares a token with {s!r}, '
                                f'which no keyword/literal of the grammar '
                                f'defines', f.file, c.lineno)
    ctx.floor('token/constant comparisons in parse actions', n, 15)


def identifier_folding(ctx):
    repo = ctx.repo
    rule = 'C14.identifiers-folded-at-the-terminal'
    ctx.rule(rule, 'both identifier terminals carry a parse action that '
             'returns the lower-cased token; rules that admit a name reach '
             'these terminals (no private Word/Regex for names); no parse '
             'action stores a slice of the raw input')
    acts = R.parse_actions(repo)
    by_rule = {}
    for r, f in acts:
        by_rule.setdefault(r, []).append(f)
    for term in ('typed_identifier', 'untyped_identifier'):
        fs = by_rule.get(term, [])
        construct = f'qbee/grammar.py:{term}'
        ok = False
        for f in fs:
            rets = [r for r in ast.walk(f.node) if isinstance(r, ast.Return)]
            if rets and all('.lower()' in unparse(r.value) for r in rets):
                ok = True
        ctx.instance(rule, construct, sample={'actions':
                                              [f.qualname for f in fs]})
        if not ok:
            ctx.finding(rule, construct,
                        f'{term} has no parse action returning the '
                        f'lower-cased token: identifiers that differ only '
                        f'in case would name different variables/labels',
                        'qbee/grammar.py', 1)
    # the identifier actions do not run inside dotted_vars, so its own
    # action folds the field names: every token it returns is lower-cased
    for f in by_rule.get('dotted_vars', []):
        construct = f'qbee/grammar.py:dotted_vars:{f.qualname}'
        assigned = {}
        for a in ast.walk(f.node):
            if isinstance(a, ast.Assign) and len(a.targets) == 1 and \
                    isinstance(a.targets[0], ast.Name):
                assigned[a.targets[0].id] = a.value

        def leaves(e, depth=0):
            if isinstance(e, (ast.List, ast.Tuple)):
                out = []
                for x in e.elts:
                    out += leaves(x, depth)
                return out
            if isinstance(e, ast.ListComp):
                if any(g_.ifs for g_ in e.generators):
                    return [e]
                return leaves(e.elt, depth)
            if isinstance(e, ast.Name) and e.id in assigned and depth < 4:
                return leaves(assigned[e.id], depth + 1)
            if isinstance(e, ast.GeneratorExp) and not any(
                    g_.ifs for g_ in e.generators):
                return leaves(e.elt, depth)
            if isinstance(e, ast.Call) and dotted(e.func) in (
                    'list', 'tuple') and len(e.args) == 1:
                return leaves(e.args[0], depth)
            if isinstance(e, ast.Call) and dotted(e.func) == 'map' and \
                    e.args and dotted(e.args[0]) == 'str.lower':
                return []
            return [e]
        unfolded = []
        rets = [r for r in ast.walk(f.node) if isinstance(r, ast.Return)
                and r.value is not None]
        for r in rets:
            for lf in leaves(r.value):
                if not (isinstance(lf, ast.Call) and
                        isinstance(lf.func, ast.Attribute) and
                        lf.func.attr == 'lower'):
                    unfolded.append(unparse(lf)[:40])
        ctx.instance(rule, construct, sample={'unfolded': unfolded})
        if unfolded or not rets:
            ctx.finding(rule, construct,
                        f'{f.qualname} returns {unfolded or "nothing"} '
                        f'without lower-casing: field names after the first '
                        f'dot keep the case they were written in and no '
                        f'longer match the TYPE declaration',
                        'qbee/grammar.py', f.line)
    if not by_rule.get('dotted_vars'):
        ctx.observe('dotted_vars has no parse action of its own: the '
                    'identifier terminals must fold its names')
    g = repo.module('qbee.grammar')
    # Word(...) terminals only inside untyped_identifier
    words = [n for n in ast.walk(g.tree) if isinstance(n, ast.Call) and
             dotted(n.func) == 'Word']
    for w in words:
        owner = None
        for a in ancestors(w):
            if isinstance(a, ast.Assign) and \
                    isinstance(a.targets[0], ast.Name):
                owner = a.targets[0].id
        ctx.instance(rule, f'qbee/grammar.py:Word@{owner}')
        if owner != 'untyped_identifier':
            ctx.finding(rule, f'qbee/grammar.py:Word@{owner}',
                        f'rule {owner} defines its own Word(...) terminal; '
                        f'names matched by it bypass the identifier case '
                        f'folding', 'qbee/grammar.py', w.lineno)
    # label / goto targets use untyped_identifier
    for rname in ('label', 'goto_stmt', 'gosub_stmt', 'return_stmt',
                  'restore_stmt', 'on_error_stmt', 'sub_stmt', 'type_stmt',
                  'type_field_decl', 'dotted_vars', 'call_stmt',
                  'function_stmt', 'for_stmt', 'next_stmt', 'const_stmt',
                  'var_decl', 'lvalue', 'array_pass'):
        v = g.rule_def(rname)
        if v is None:
            raise AnalysisError(f'anchor vanished: grammar rule {rname}')
        names = {n.id for n in ast.walk(v) if isinstance(n, ast.Name)}
        ok = bool(names & {'identifier', 'untyped_identifier',
                           'typed_identifier', 'var_decl', 'param_list'})
        ctx.instance(rule, f'qbee/grammar.py:{rname}:uses-identifier')
        if not ok:
            ctx.finding(rule, f'qbee/grammar.py:{rname}:uses-identifier',
                        f'rule {rname} no longer takes its name from the '
                        f'identifier terminals', 'qbee/grammar.py',
                        v.lineno)
    # raw input slices
    for rname, f in acts:
        params = [a.arg for a in f.node.args.args]
        if len(params) == 3:
            sname = params[0]
            for n in ast.walk(f.node):
                if isinstance(n, ast.Subscript) and \
                        isinstance(n.value, ast.Name) and \
                        n.value.id == sname and \
                        isinstance(n.ctx, ast.Load):
                    ctx.finding(rule, f'{f.file}:{f.qualname}:raw-slice',
                                f'{f.qualname} reads a slice of the raw '
                                f'input string', f.file, n.lineno)
    # line numbers: canonical name cannot be spelled by users
    ln = repo.func('qbee.program', 'LineNo.get_canonical_name')
    ok = any(isinstance(j, ast.JoinedStr) and len(j.values) == 2 and
             isinstance(j.values[0], ast.Constant) and
             j.values[0].value == '_lineno_' and
             isinstance(j.values[1], ast.FormattedValue)
             for j in ast.walk(ln.node))
    ctx.instance(rule, f'{ln.file}:LineNo.get_canonical_name')
    if not ok:
        ctx.finding(rule, f'{ln.file}:LineNo.get_canonical_name',
                    'line-number labels no longer use the reserved '
                    '_lineno_ prefix', ln.file, ln.line)


def optional_syntax(ctx):
    repo = ctx.repo
    rule = 'C14.optional-syntax-erased-before-node-construction'
    ctx.rule(rule, 'LET is suppressed; both CALL forms deliver (name, '
             'args...) to one parse action; alternative spellings of a '
             'comparison map to one Operator; separators and comments are '
             'suppressed in the line rule')
    g = repo.module('qbee.grammar')
    a = g.assigns.get('assignment_stmt')
    ok = a is not None and 'let_kw[0, 1].suppress()' in unparse(a)
    ctx.instance(rule, 'qbee/grammar.py:assignment_stmt:LET')
    if not ok:
        ctx.finding(rule, 'qbee/grammar.py:assignment_stmt:LET',
                    'LET is no longer an optional suppressed prefix',
                    'qbee/grammar.py', getattr(a, 'lineno', 1))
    c = g.assigns.get('call_stmt')
    txt = unparse(c) if c is not None else ''
    ok = 'call_kw.suppress()' in txt and 'lpar.suppress()' in txt and \
        'rpar.suppress()' in txt
    ctx.instance(rule, 'qbee/grammar.py:call_stmt')
    if not ok:
        ctx.finding(rule, 'qbee/grammar.py:call_stmt',
                    'CALL keyword / parentheses are no longer suppressed: '
                    'the two call forms deliver different token lists',
                    'qbee/grammar.py', getattr(c, 'lineno', 1))
    pc = repo.func('qbee.grammar', 'parse_call')
    from .. import pat
    ok = pat.has('CallStmt(_T[0], _T[1:])', pc.node)
    ctx.instance(rule, f'{pc.file}:parse_call')
    if not ok:
        ctx.finding(rule, f'{pc.file}:parse_call',
                    'parse_call no longer builds CallStmt(name, rest)',
                    pc.file, pc.line)
    # alternative spellings
    f = repo.func('qbee.expr', 'Operator.binary_op_from_token')
    tab = {}
    for n in ast.walk(f.node):
        if isinstance(n, ast.Dict):
            tab = {const(k): dotted(v) for k, v in zip(n.keys, n.values)}
    for x, y in (('<>', '><'), ('<=', '=<'), ('>=', '=>')):
        ctx.instance(rule, f'{f.file}:binary_op_from_token[{x}|{y}]',
                     sample={x: tab.get(x), y: tab.get(y)})
        if tab.get(x) is None or tab.get(x) != tab.get(y):
            ctx.finding(rule, f'{f.file}:binary_op_from_token[{x}|{y}]',
                        f'spellings {x!r} and {y!r} map to {tab.get(x)} and '
                        f'{tab.get(y)}', f.file, f.line)
    # line structure
    ln = g.assigns.get('line')
    txt = unparse(ln) if ln is not None else ''
    need = ['White()[...].suppress()', 'colon[...].suppress()',
            'comment[0, 1]', 'LineEnd().suppress()', 'line_prefix[0, 1]',
            'stmt_group[0, 1]']
    for frag in need:
        ctx.instance(rule, f'qbee/grammar.py:line:{frag}')
        if frag not in txt:
            ctx.finding(rule, f'qbee/grammar.py:line:{frag}',
                        f'the line rule no longer contains {frag}',
                        'qbee/grammar.py', getattr(ln, 'lineno', 1))
    cm = g.assigns.get('comment')
    ok = cm is not None and '.suppress()' in unparse(cm)
    ctx.instance(rule, 'qbee/grammar.py:comment')
    if not ok:
        ctx.finding(rule, 'qbee/grammar.py:comment',
                    'comments are no longer suppressed', 'qbee/grammar.py',
                    getattr(cm, 'lineno', 1))
    rm = g.assigns.get('rem_stmt')
    ok = rm is not None and '.suppress()' in unparse(rm)
    ctx.instance(rule, 'qbee/grammar.py:rem_stmt')
    if not ok:
        ctx.finding(rule, 'qbee/grammar.py:rem_stmt',
                    'REM statements are no longer suppressed',
                    'qbee/grammar.py', getattr(rm, 'lineno', 1))
    sg = g.rule_def('stmt_group')
    txt = unparse(sg) if sg is not None else ''
    ctx.instance(rule, 'qbee/grammar.py:stmt_group')
    if 'colon[1, ...].suppress()' not in txt:
        ctx.finding(rule, 'qbee/grammar.py:stmt_group',
                    'statement separators are no longer suppressed',
                    'qbee/grammar.py', getattr(sg, 'lineno', 1))
    # parse_string: statements of a line go to the same body list as
    # separate lines
    ps = repo.func('qbee.parser', 'parse_string')
    from .. import pat
    ok = pat.has('for _LINE in input_string.split(\'\\n\'):\n    ...\n'
                 '    for _S in _N.nodes:\n        ...\n    ...', ps.node) and \
        pat.has('for _S in _N.nodes:\n    ...\n    if __:\n        ...\n'
                '    elif __:\n        ...\n    else:\n'
                '        _BODY.append(_S)', ps.node)
    ctx.instance(rule, f'{ps.file}:parse_string:same-body')
    if not ok:
        ctx.finding(rule, f'{ps.file}:parse_string:same-body',
                    'parse_string no longer appends every statement of '
                    'every line to the current body list', ps.file, ps.line)
    # every physical line goes through the grammar: the call of the line
    # rule is not control-dependent on anything (no lexical shortcut on
    # the raw text outside the grammar)
    from ..cfg import build_cfg, repo_noreturn
    cfg = build_cfg(ps.node, repo_noreturn)
    calls = [x for x in cfg.nodes if x.kind == 'stmt' and any(
        isinstance(c, ast.Call) and isinstance(c.func, ast.Attribute) and
        c.func.attr == 'parse_string' for c in ast.walk(x.ast))]
    if not calls:
        raise AnalysisError('anchor vanished: line rule call in '
                            'parse_string')
    for x in calls:
        conds = [(unparse(t.ast.test), lab) for t, lab in cfg.conditions(x)
                 if t.kind == 'test']
        ctx.instance(rule, f'{ps.file}:parse_string:every-line-parsed',
                     sample={'conditions': conds})
        if conds:
            ctx.finding(rule, f'{ps.file}:parse_string:every-line-parsed',
                        f'the grammar is applied to a line only under '
                        f'{conds}: lines are classified on their raw text '
                        f'outside the grammar, so spelling variants of one '
                        f'statement can be treated differently', ps.file,
                        x.line)
    loops = [n for n in ast.walk(ps.node) if isinstance(n, ast.For) and
             "split('\\n')" in unparse(n.iter)]
    for lp in loops:
        skips = [s for s in ast.walk(lp) if isinstance(s, ast.Continue)]
        ctx.instance(rule, f'{ps.file}:parse_string:no-line-skipped')
        if skips:
            ctx.finding(rule, f'{ps.file}:parse_string:no-line-skipped',
                        'parse_string skips some physical lines without '
                        'parsing them', ps.file, skips[0].lineno)
    # NEXT variable is only checked, never used for generation
    gens, _ = R.generators(repo)
    fb = repo.func('qbee.stmt', 'ForBlock.create_block')
    rets = [unparse(r.value) for r in ast.walk(fb.node)
            if isinstance(r, ast.Return)]
    ok = rets and all('next_stmt' not in r for r in rets)
    ctx.instance(rule, f'{fb.file}:ForBlock.create_block')
    if not ok:
        ctx.finding(rule, f'{fb.file}:ForBlock.create_block',
                    'the FOR block now depends on the NEXT variable: NEXT '
                    'with and without its variable would differ', fb.file,
                    fb.line)


def labels_not_in_module(ctx):
    repo = ctx.repo
    rule = 'C14.label-names-never-reach-the-module'
    ctx.rule(rule, 'label strings are resolved to addresses by the '
             'assembler and DATA parts are serialised by position, so the '
             'names chosen for labels cannot influence the sections')
    asm = repo.func('qbee.qvm_codegen', 'QvmCode.assembled')
    # the _label arm continues before any byte is appended
    loop = None
    for n in ast.walk(asm.node):
        if isinstance(n, ast.For) and 'self._instrs' in unparse(n.iter):
            loop = n
    ok = False
    for st in loop.body if loop else []:
        if isinstance(st, ast.If) and "== '_label'" in unparse(st.test):
            ok = isinstance(st.body[-1], ast.Continue) and not any(
                isinstance(s, ast.AugAssign) for s in ast.walk(st))
    ctx.instance(rule, f'{asm.file}:QvmCode.assembled[_label]')
    if not ok:
        ctx.finding(rule, f'{asm.file}:QvmCode.assembled[_label]',
                    'the _label arm no longer only records the address and '
                    'continues', asm.file, asm.line)
    b = repo.func('qbee.qvm_codegen', 'QvmCode.__bytes__')
    txt = unparse(b.node)
    ok = 'in self._data.values():' in txt and \
        'self._data.items()' not in txt and 'self._data.keys()' not in txt
    ctx.instance(rule, f'{b.file}:QvmCode.__bytes__:data-by-position')
    if not ok:
        ctx.finding(rule, f'{b.file}:QvmCode.__bytes__:data-by-position',
                    'the data section writer now reads the label keys of '
                    'the data parts', b.file, b.line)


def believed_foldings(ctx):
    """pyparsing does not run the identifier parse action for some nested
    occurrences (the repository documents this at three work-arounds).
    Where a parse action itself folds a name token (`n = n.lower()`), that
    is the repository's belief that the token may arrive unfolded there; the
    belief must then hold on *every* path to the node that takes the name
    (Engler-style: a check present on one path and absent on a sibling
    path)."""
    from ..cfg import build_cfg, repo_noreturn
    repo = ctx.repo
    rule = 'C14.name-folded-on-every-path-of-the-action'
    ctx.rule(rule, 'in a parse action that lower-cases a name token '
             '(`n = n.lower()`), every path from the entry to a node '
             'construction that receives `n` passes through the folding')
    ncls = {c.name for c in R.node_classes(repo)}
    n_sites = 0
    seen = set()
    for rule_name, f in R.parse_actions(repo):
        if f.key in seen:
            continue
        seen.add(f.key)
        folds = []
        for st in walk_shallow(f.node):
            if isinstance(st, ast.Assign) and len(st.targets) == 1 and \
                    isinstance(st.targets[0], ast.Name) and \
                    isinstance(st.value, ast.Call) and \
                    isinstance(st.value.func, ast.Attribute) and \
                    st.value.func.attr == 'lower' and \
                    isinstance(st.value.func.value, ast.Name) and \
                    st.value.func.value.id == st.targets[0].id:
                folds.append(st)
        if not folds:
            continue
        cfg = build_cfg(f.node, repo_noreturn)
        for fold in folds:
            name = fold.targets[0].id
            for c in walk_shallow(f.node):
                if not (isinstance(c, ast.Call) and dotted(c.func) in ncls
                        and any(isinstance(a, ast.Name) and a.id == name
                                for a in c.args)):
                    continue
                st = c
                while not isinstance(st, ast.stmt):
                    st = st._parent
                n_sites += 1
                construct = f'{f.file}:{f.qualname}:{dotted(c.func)}'
                ok = True
                for tn in (x for x in cfg.nodes if x.ast is st):
                    if not cfg.must_pass(tn, lambda x: x.ast is fold):
                        ok = False
                ctx.instance(rule, construct, sample={'folded_on_all_paths':
                                                      ok})
                if not ok:
                    ctx.finding(rule, construct,
                                f'{f.qualname} lower-cases the name on some '
                                f'paths only: {dotted(c.func)}(...) can '
                                f'receive it as written, so a declaration '
                                f'spelled with capitals names a different '
                                f'variable than its uses', f.file, c.lineno)
    ctx.floor('constructions that receive a folded name', n_sites, 2)


def remarks_run_to_the_line_end(ctx):
    """A remark (apostrophe or REM) is everything up to the end of the
    line: a colon inside it does not start a statement."""
    repo = ctx.repo
    rule = 'C14.remarks-extend-to-the-end-of-the-line'
    ctx.rule(rule, 'the comment and rem_stmt rules skip to LineEnd() / '
             'StringEnd() and to nothing else (no statement separator among '
             'the SkipTo targets)')
    g = repo.module('qbee.grammar')
    n = 0
    for name in ('comment', 'rem_stmt'):
        v = g.assigns.get(name)
        if v is None:
            raise AnalysisError(f'anchor vanished: grammar rule {name}')
        skips = [c for c in ast.walk(v) if isinstance(c, ast.Call) and
                 dotted(c.func) == 'SkipTo']
        construct = f'{g.relpath}:{name}'
        n += 1
        targets = []
        for c in skips:
            for x in ast.walk(c.args[0]) if c.args else []:
                if isinstance(x, ast.Call):
                    targets.append(dotted(x.func))
                elif isinstance(x, ast.Name):
                    targets.append(x.id)
        extra = [t for t in targets if t not in ('LineEnd', 'StringEnd')]
        ctx.instance(rule, construct, sample={'skip_to': targets})
        if not skips or extra or 'LineEnd' not in targets:
            ctx.finding(rule, construct,
                        f'the rule {name} skips to {targets or "nothing"}: '
                        f'a remark must run to the end of the line; text '
                        f'after {extra or "its end"} inside a remark would '
                        f'be compiled as statements', g.relpath,
                        getattr(v, 'lineno', 1))
    ctx.floor('remark rules', n, 2)


def deftype_ranges(ctx):
    """DEFINT A-C, defint a-c, DEFINT a-C and DEFINT A-c mean the same
    letters.  parse_deftype computes the range with ord()/range()/chr() on
    the tokens as written and Pass1 lower-cases the resulting letters; the
    outcome depends only on the case pattern of the two letters, so the four
    patterns (and the single-letter form) decide it.  Interpreted from the
    source on those tokens."""
    from ..absint import (AbsObj, Interp, Closure, Env, Raised, Unmodelled,
                          PathEnd, explore)
    repo = ctx.repo
    rule = 'C14.deftype-letter-range-ignores-case'
    ctx.rule(rule, 'parse_deftype followed by Pass1.process_def_type_pre '
             'yields, for the letter range a-c written in each of the four '
             'case patterns (a-c, A-C, a-C, A-c) and for single letters, '
             'exactly the letters {a, b, c} / {x} in lower case (both ends '
             'included)')
    g = repo.module('qbee.grammar')
    f = g.functions.get('parse_deftype')
    if f is None:
        raise AnalysisError('anchor vanished: parse_deftype')
    p1 = repo.func('qbee.compiler', 'Pass1.process_def_type_pre')

    class Fn(AbsObj):
        is_callable = True

        def __init__(self, fn):
            self.fn = fn

        def call_(self, args, kwargs, interp):
            return self.fn(*args, **kwargs)

    class NS(AbsObj):
        def __init__(self, prefix):
            self.prefix = prefix

        def getattr_(self, a, interp):
            return f'{self.prefix}.{a}'

    class Stmt(AbsObj):
        def __init__(self, t, letters):
            self.d = {'type': t, 'letters': list(letters)}

        def getattr_(self, a, interp):
            return self.d[a]

    class Hooks:
        def global_name(self, modname, name, interp):
            if name == 'Type':
                return NS('Type')
            if name == 'DefTypeStmt':
                return Fn(lambda t, letters: Stmt(t, letters))
            if name in ('logger', 'logging'):
                class Null(AbsObj):
                    def getattr_(self, a, interp):
                        return Fn(lambda *a, **k: None)
                return Null()
            raise KeyError(name)

        def on_unknown_call(self, f_, args, kwargs, node, interp):
            raise Unmodelled('unknown call')
    cases = [([['a', 'c']], {'a', 'b', 'c'}), ([['A', 'C']], {'a', 'b', 'c'}),
             ([['a', 'C']], {'a', 'b', 'c'}), ([['A', 'c']], {'a', 'b', 'c'}),
             ([['x', None]], {'x'}), ([['X', None]], {'x'}),
             ([['i', 'n'], ['Z', None]],
              {'i', 'j', 'k', 'l', 'm', 'n', 'z'})]
    n = 0
    for ranges, want in cases:
        got_box = {}

        def run(oracle, ranges=ranges):
            interp = Interp(Hooks(), oracle)
            try:
                st = Closure(f.node, Env(None, globals_='qbee.grammar'),
                             name='parse_deftype').call_(
                    [['defint'] + [list(r) for r in ranges]], {}, interp)
                table = {}

                class Comp(AbsObj):
                    def getattr_(self, a, interp):
                        if a == 'def_letter_types':
                            return table
                        raise Unmodelled(f'compilation.{a}')

                class Self(AbsObj):
                    def getattr_(self, a, interp):
                        if a == 'compilation':
                            return Comp()
                        raise Unmodelled(f'pass.{a}')
                Closure(p1.node, Env(None, globals_='qbee.compiler'),
                        name='process_def_type_pre').call_(
                    [Self(), st], {}, interp)
                return ('ok', set(table))
            except Raised as r:
                return ('raise', r.cls_name, str(r.value)[:60])
            except PathEnd as e:
                return ('end', str(e))
        label = ','.join(a + ('-' + b if b else '') for a, b in ranges)
        construct = f'{f.file}:parse_deftype:{label}'
        try:
            res = [r for _, r in explore(run, 20)]
        except Unmodelled as u:
            ctx.observe(f'{construct}: not modelled ({u}); undecided')
            ctx.instance(rule, construct, nontrivial=False)
            continue
        n += 1
        ctx.instance(rule, construct, sample={'result': [
            sorted(r[1]) if r[0] == 'ok' else r for r in res]})
        for r in res:
            if r[0] != 'ok' or r[1] != want:
                ctx.finding(rule, construct,
                            f'DEFINT {label} defines the letters '
                            f'{sorted(r[1]) if r[0] == "ok" else r}; it '
                            f'means {sorted(want)} (letter ranges are '
                            f'case-insensitive and include both ends)',
                            f.file, f.line)
                break
    ctx.floor('DEFtype range spellings interpreted', n, 6)


def run(ctx):
    ctx.clauses = [
        'alphabetic terminals are case-insensitive',
        'tokens are compared in canonical spelling',
        'identifiers are folded at the terminal',
        'optional syntax is erased before node construction; line '
        'structure',
        'label names never reach the module',
    ]
    ctx.not_decided = ['equality of emitted code for concrete respellings']
    case_insensitive_terminals(ctx)
    canonical_comparisons(ctx)
    identifier_folding(ctx)
    believed_foldings(ctx)
    deftype_ranges(ctx)
    remarks_run_to_the_line_end(ctx)
    optional_syntax(ctx)
    labels_not_in_module(ctx)
    return ('Analysis of the pyparsing grammar as data: every terminal '
            '(CaselessKeyword / Literal / Regex via re._parser) is checked '
            'for case-insensitivity, every constant a parse action compares '
            'with a token must be a lower-case defining string of the '
            'grammar, both identifier terminals must fold case, optional '
            'syntax and separators must be suppressed, and label names must '
            'not reach the section writers. Also: belief-based name folding in parse actions, DEFtype letter ranges over the four case patterns, remarks run to the end of the line.')