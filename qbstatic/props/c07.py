"""C07 -- the virtual machine is total."""
import ast

from .. import registries as R
from ..astutil import dotted, const, unparse, walk_shallow, ancestors, kwarg
from ..callgraph import CallGraph
from ..cfg import build_cfg, repo_noreturn
from ..model import AnalysisError

# exception classes the two boundaries convert to traps
MAPPED = {'Trapped', 'ZeroDivisionError', 'DeviceError'}

# trap() call sites that are malformed but sit on type-confusion paths that
# compiled modules cannot reach (argued by C03); frozen with reasons.
MALFORMED_TRAP_EXEMPT = {
    'QvmCpu._exec_cmp': 'operands of cmp are converted to one type by every '
                        'emitter (gen_binary_op, FOR, SELECT clauses)',
    'QvmCpu._exec_ge': 'input is the INTEGER result of cmp',
    'QvmCpu._exec_gt': 'input is the INTEGER result of cmp',
    'QvmCpu._exec_le': 'input is the INTEGER result of cmp',
    'QvmCpu._exec_lt': 'input is the INTEGER result of cmp',
    'QvmCpu._exec_sign': 'FOR step is converted to the numeric loop type',
    'QvmCpu._exec_strmid': 'length is conv-ed to INTEGER or push& -1',
    'QvmCpu._exec_readl_reference': 'parameter slots always hold references',
    'QvmCpu._exec_readg_reference': 'dynamic-array slots hold references',
    'QvmCpu._exec_refidx': 'index is pushed as push%/push& by gen_lvalue_ref',
}

NONE_EXEMPT = {
    'cur_frame': 'every routine entry executes `frame` first (C09 frame '
                 'declaration rule), so handlers run with a frame',
}


def vm_roots(repo, cg):
    handlers = list(cg.handlers.values())
    devs = R.device_classes(repo)
    dev_execs = [f for ci in devs.values() for n, f in ci.methods.items()
                 if n.startswith('_exec_')]
    return handlers, dev_execs


def tick_boundary(ctx, cg):
    repo = ctx.repo
    tick = repo.func('qvm.cpu', 'QvmCpu.tick')
    rule = 'C07.nothing-traps-outside-tick-try'
    ctx.rule(rule, "no call in tick() outside the try body, or inside its "
             "except handlers, can reach QvmCpu.trap / raise Trapped")
    trys = [n for n in walk_shallow(tick.node) if isinstance(n, ast.Try)]
    if len(trys) != 1:
        raise AnalysisError('anchor vanished: the try statement of tick')
    tr = trys[0]
    in_try_body = set()
    for s in tr.body:
        in_try_body |= {id(n) for n in ast.walk(s)}
    trap_fn = repo.func('qvm.cpu', 'QvmCpu.trap')

    def raises_trapped(f):
        if f == trap_fn:
            return True
        for n in walk_shallow(f.node):
            if isinstance(n, ast.Raise) and n.exc is not None and \
                    'Trapped' in unparse(n.exc):
                return True
        return False
    caught = set()
    for h in tr.handlers:
        caught.add(dotted(h.type) if h.type is not None else '*')
    for call, targets in cg.sites[tick]:
        if id(call) in in_try_body:
            continue
        d = dotted(call.func) or unparse(call.func)
        if not targets:
            continue
        where = 'handler' if any(isinstance(a, ast.ExceptHandler)
                                 for a in ancestors(call)) else 'outside try'
        arg0 = unparse(call.args[0]) if call.args else ''
        construct = f'{tick.file}:QvmCpu.tick:{d}({arg0})@{where}'
        path = None
        for t in targets:
            path = cg.path(t, raises_trapped)
            if path:
                break
        ctx.instance(rule, construct,
                     sample={'call': d, 'where': where,
                             'reaches_trap': bool(path)})
        if path:
            tail = '->'.join(p.qualname for p in path[-3:])
            ctx.finding(rule, f'{tick.file}:escape-path:{tail}',
                        f'{d}({arg0}) runs {where} in tick() but can raise '
                        f'Trapped via '
                        f'{" -> ".join(p.qualname for p in path)}; the '
                        f'exception escapes run()', tick.file, call.lineno,
                        facts={'path': [p.key for p in path]})
    return tick, tr


def _handler_names(h):
    if h.type is None:
        return {'Exception'}
    if isinstance(h.type, ast.Tuple):
        return {dotted(x) for x in h.type.elts}
    return {dotted(h.type)}


def _caught_before_boundary(cg, reach, f, raise_node, cls):
    """Is the raised class caught inside f, or at every call site of f on
    the VM paths (e.g. a conversion helper called under `except
    ValueError`)?"""
    ok_names = {cls, 'Exception'} | set(HIERARCHY.get(cls, ()))

    def covered(node, fnode):
        for a in ancestors(node):
            if a is fnode:
                break
            if isinstance(a, ast.Try) and any(
                    node is y for b in a.body for y in ast.walk(b)):
                if any(_handler_names(h) & ok_names for h in a.handlers):
                    return True
        return False
    if covered(raise_node, f.node):
        return True
    sites = []
    for g in reach:
        if f not in cg.edges.get(g, ()):
            continue
        for call, targets in cg.sites.get(g, ()):
            if f in targets:
                sites.append(covered(call, g.node))
    return bool(sites) and all(sites)


def explicit_raises(ctx, cg):
    repo = ctx.repo
    rule = 'C07.handlers-raise-only-mapped-exceptions'
    ctx.rule(rule, 'explicit raise statements in the call trees of the CPU '
             'handlers and device operations raise only Trapped, '
             'ZeroDivisionError or DeviceError (the classes the tick / '
             'Device.execute boundaries convert into traps)')
    handlers, dev_execs = vm_roots(repo, cg)

    def stop(f):
        return not f.module.name.startswith('qvm.') or \
            f.module.name in ('qvm.dbg', 'qvm.terminal', 'qvm.subterminal',
                              'qvm.run', 'qvm.disasm')
    reach = cg.reachable(handlers + dev_execs, stop=stop)
    n = 0
    for f in sorted(reach, key=lambda f: f.key):
        if stop(f):
            continue
        for r in walk_shallow(f.node):
            if not isinstance(r, ast.Raise):
                continue
            n += 1
            if r.exc is None:
                cls = '(re-raise)'
            else:
                e = r.exc.func if isinstance(r.exc, ast.Call) else r.exc
                cls = (dotted(e) or unparse(e)).split('.')[-1]
            construct = f'{f.file}:{f.qualname}:raise {cls}'
            ctx.instance(rule, construct, sample={'class': cls})
            if cls == '(re-raise)' or cls in MAPPED:
                continue
            if cls == 'KeyError' and f.module.name == 'qvm.memlayout':
                continue   # compile-time lookups, not in handler paths
            if _caught_before_boundary(cg, reach, f, r, cls):
                continue   # a helper whose callers all catch the class
            ctx.finding(rule, construct,
                        f'{f.qualname} raises {cls}, which neither tick() '
                        f'nor Device.execute converts into a trap',
                        f.file, r.lineno)
    ctx.floor('raise statements in VM call trees', n, 10)
    return reach


def trap_plumbing(ctx):
    repo = ctx.repo
    rule = 'C07.trap-call-well-formed'
    ctx.rule(rule, 'every trap(code, **kw) call passes the code '
             'positionally, only keywords after it, keyword names that '
             '_trap reads for that code (required ones present), and uses '
             'only names defined in its function')
    _trap = repo.func('qvm.cpu', 'QvmCpu._trap')
    codes = R.enum(repo, 'qvm.trap', 'TrapCode')
    # keys read per code from the elif ladder of _trap
    required, optional, covered = {}, {}, set()

    def arm(st):
        t = st.test
        member = None
        if isinstance(t, ast.Compare) and dotted(t.left) == 'code' and \
                isinstance(t.ops[0], ast.Eq):
            d = dotted(t.comparators[0]) or ''
            if d.startswith('TrapCode.'):
                member = d.split('.')[1]
        if member:
            covered.add(member)
            req, opt = set(), set()
            for s in st.body:
                for n in ast.walk(s):
                    if isinstance(n, ast.Subscript) and \
                            dotted(n.value) == 'kwargs':
                        req.add(const(n.slice))
                    if isinstance(n, ast.Call) and \
                            dotted(n.func) == 'kwargs.get' and n.args:
                        opt.add(const(n.args[0]))
            required[member] = req
            optional[member] = opt
        for s in st.orelse:
            if isinstance(s, ast.If):
                arm(s)
    for st in _trap.node.body:
        if isinstance(st, ast.If):
            arm(st)
    rule_x = 'C07.trap-dispatch-exhaustive'
    ctx.rule(rule_x, '_trap has a reporting branch for every TrapCode '
             'member (none reaches assert False)')
    by_value = {}
    for m, v in codes.items():
        by_value.setdefault(v, []).append(m)
    for m, v in codes.items():
        ctx.instance(rule_x, f'qvm/trap.py:TrapCode.{m}')
        if not any(a in covered for a in by_value[v]):
            ctx.finding(rule_x, f'qvm/trap.py:TrapCode.{m}',
                        f'_trap has no branch for TrapCode.{m}: reporting '
                        f'this trap hits `assert False`', _trap.file,
                        _trap.line)
    ctx.floor('TrapCode members', len(codes), 18)
    # call sites
    n_sites = 0
    for f in repo.all_functions():
        if not f.module.name.startswith('qvm.'):
            continue
        for c in walk_shallow(f.node):
            if not (isinstance(c, ast.Call) and dotted(c.func) in (
                    'self.trap', 'self.cpu.trap')):
                continue
            n_sites += 1
            problems = []
            code = None
            if not c.args:
                problems.append('no trap code')
            else:
                d = dotted(c.args[0]) or ''
                if d.startswith('TrapCode.'):
                    code = d.split('.')[1]
                    if code not in codes:
                        problems.append(f'unknown TrapCode.{code}')
                if len(c.args) > 1:
                    problems.append(
                        f'{len(c.args) - 1} extra positional argument(s): '
                        f'trap() accepts only the code positionally '
                        f'(TypeError)')
            kws = {k.arg for k in c.keywords if k.arg}
            if code and code in required:
                # aliases share a branch by enum value
                key = code
                missing = required[key] - kws
                unknown = kws - required[key] - optional[key]
                if missing and len(c.args) <= 1 and not any(
                        k.arg is None for k in c.keywords):
                    problems.append(f'missing keyword(s) {sorted(missing)} '
                                    f'that _trap reads with kwargs[...] '
                                    f'(KeyError)')
                if unknown:
                    problems.append(f'keyword(s) {sorted(unknown)} are not '
                                    f'read by _trap for {code}')
            # undefined names in the arguments
            params = {a.arg for a in f.node.args.args}
            p = f.parent
            while p is not None:
                params |= {a.arg for a in p.node.args.args}
                params |= _local_names(p.node)
                p = p.parent
            local = _local_names(f.node) | params
            outer = getattr(f, 'outer', None)
            if outer is not None:
                local |= _local_names(outer) | \
                    {a.arg for a in outer.args.args}
            glob = set(f.module.imports) | set(f.module.assigns) | \
                set(f.module.classes) | {
                    g.qualname for g in f.module.functions.values()}
            for a in list(c.args) + [k.value for k in c.keywords]:
                for nm in ast.walk(a):
                    if isinstance(nm, ast.Name) and nm.id not in local and \
                            nm.id not in glob and \
                            nm.id not in dir(__builtins__) and \
                            nm.id not in ('len', 'str', 'int', 'repr'):
                        problems.append(f'name {nm.id!r} is not defined in '
                                        f'{f.qualname} (NameError)')
            construct = f'{f.file}:{f.qualname}:trap({code})'
            ctx.instance(rule, construct,
                         sample={'code': code, 'keywords': sorted(kws)},
                         nontrivial=True)
            if problems:
                if f.qualname in MALFORMED_TRAP_EXEMPT:
                    ctx.observe(f'malformed trap call in {f.qualname} '
                                f'({"; ".join(problems)}) -- exempt: '
                                f'{MALFORMED_TRAP_EXEMPT[f.qualname]}')
                else:
                    ctx.finding(rule, construct,
                                f'malformed trap call: {"; ".join(problems)}',
                                f.file, c.lineno)
    ctx.floor('trap call sites', n_sites, 80)
    # a saved trap is re-dispatched together with its saved details
    rule_s = 'C07.saved-trap-redispatched-with-details'
    ctx.rule(rule_s, 'wherever the saved trap code (self.last_trap) is '
             're-raised, the saved details (**self.last_trap_kwargs) are '
             'passed with it; _trap reads required details per code')
    n = 0
    for f in repo.all_functions():
        if f.module.name != 'qvm.cpu':
            continue
        for c in walk_shallow(f.node):
            if isinstance(c, ast.Call) and dotted(c.func) in (
                    'self.trap', 'self._trap') and c.args and \
                    unparse(c.args[0]) == 'self.last_trap':
                n += 1
                ok = any(k.arg is None and
                         unparse(k.value) == 'self.last_trap_kwargs'
                         for k in c.keywords)
                construct = f'{f.file}:{f.qualname}:redispatch'
                ctx.instance(rule_s, construct, sample={'with_details': ok})
                if not ok:
                    ctx.finding(rule_s, construct,
                                f'{f.qualname} re-raises self.last_trap '
                                f'without **self.last_trap_kwargs: for codes '
                                f'whose report needs details (device '
                                f'errors, type mismatch, ...) _trap raises '
                                f'KeyError', f.file, c.lineno)
    ctx.floor('saved-trap re-dispatch sites', n, 1)


def _local_names(fn):
    out = set()
    for n in walk_shallow(fn):
        if isinstance(n, ast.Name) and isinstance(n.ctx, ast.Store):
            out.add(n.id)
        elif isinstance(n, (ast.FunctionDef,)) and n is not fn:
            out.add(n.name)
        elif isinstance(n, ast.ExceptHandler) and n.name:
            out.add(n.name)
        elif isinstance(n, ast.NamedExpr):
            out.add(n.target.id)
    for n in ast.walk(fn):
        if isinstance(n, ast.comprehension):
            for t in ast.walk(n.target):
                if isinstance(t, ast.Name):
                    out.add(t.id)
        if isinstance(n, ast.Lambda):
            out |= {a.arg for a in n.args.args}
    return out


def _implies_not_none(test, label, subj):
    """Does taking `label` at `test` imply subj is not None?"""
    t = unparse(test)
    if isinstance(test, ast.BoolOp):
        if isinstance(test.op, ast.And) and label == 'true':
            return any(_implies_not_none(v, 'true', subj)
                       for v in test.values)
        if isinstance(test.op, ast.Or) and label == 'false':
            return any(_implies_not_none(v, 'false', subj)
                       for v in test.values)
        return False
    if isinstance(test, ast.UnaryOp) and isinstance(test.op, ast.Not):
        return _implies_not_none(test.operand,
                                 'false' if label == 'true' else 'true',
                                 subj)
    if t == subj:
        return label == 'true'
    if isinstance(test, ast.Compare) and len(test.ops) == 1 and \
            unparse(test.left) == subj:
        op = test.ops[0]
        rhs = test.comparators[0]
        is_none = isinstance(rhs, ast.Constant) and rhs.value is None
        if isinstance(op, ast.Is) and is_none:
            return label == 'false'
        if isinstance(op, ast.IsNot) and is_none:
            return label == 'true'
        if isinstance(op, (ast.Eq, ast.Lt, ast.Gt, ast.LtE, ast.GtE)) and \
                not is_none:
            return label == 'true'
    return False


def none_state(ctx):
    repo = ctx.repo
    rule = 'C07.none-initialised-state-guarded'
    ctx.rule(rule, 'attributes initialised to None in __init__ are not '
             'dereferenced (attribute, subscript, format spec) in a handler '
             'without a dominating test of that attribute or an earlier '
             'assignment in the same function')
    classes = [repo.cls('qvm.cpu', 'QvmCpu'),
               repo.cls('qvm.machine', 'BasePeripheralsImpl'),
               repo.cls('qvm.machine', 'RngDevice'),
               repo.cls('qvm.machine', 'Device')]
    handlers, _, _ = R.cpu_handlers(repo)
    n = 0
    for ci in classes:
        init = ci.methods.get('__init__')
        if init is None:
            continue
        none_attrs = set()
        for s in walk_shallow(init.node):
            if isinstance(s, ast.Assign) and const(s.value, 'x') is None \
                    and isinstance(s.value, ast.Constant):
                for t in s.targets:
                    d = dotted(t) or ''
                    if d.startswith('self.') and d.count('.') == 1:
                        none_attrs.add(d.split('.')[1])
        methods = dict(ci.methods)
        if ci.name == 'QvmCpu':
            methods.update({k: v for k, v in handlers.items()})
        for sub in repo.subclasses(ci):
            for k, v in sub.methods.items():
                methods.setdefault(f'{sub.name}.{k}', v)
        for mname, f in sorted(methods.items()):
            if mname == '__init__':
                continue
            cfg = None
            for node in walk_shallow(f.node):
                attr = None
                kind = None
                if isinstance(node, ast.Attribute) and \
                        isinstance(node.value, ast.Attribute) and \
                        dotted(node.value.value) == 'self' and \
                        node.value.attr in none_attrs and \
                        isinstance(node.ctx, ast.Load):
                    attr, kind = node.value.attr, f'.{node.attr}'
                elif isinstance(node, ast.Subscript) and \
                        isinstance(node.value, ast.Attribute) and \
                        dotted(node.value.value) == 'self' and \
                        node.value.attr in none_attrs:
                    attr, kind = node.value.attr, '[...]'
                elif isinstance(node, ast.FormattedValue) and \
                        node.format_spec is not None and \
                        isinstance(node.value, ast.Attribute) and \
                        dotted(node.value.value) == 'self' and \
                        node.value.attr in none_attrs:
                    attr, kind = node.value.attr, ':format-spec'
                if attr is None:
                    continue
                n += 1
                construct = f'{f.file}:{f.qualname}:self.{attr}{kind}'
                if attr in NONE_EXEMPT:
                    ctx.instance(rule, construct, nontrivial=False)
                    continue
                if cfg is None:
                    cfg = build_cfg(f.node, repo_noreturn)
                st = node
                while not isinstance(st, ast.stmt):
                    st = st._parent
                cn = [x for x in cfg.nodes if x.ast is st]
                guarded = False
                # a test in the same expression (x and x.y / x.y if x)
                for a in ancestors(node):
                    if a is st:
                        break
                    if isinstance(a, ast.BoolOp) and \
                            isinstance(a.op, ast.And):
                        for v in a.values:
                            if any(node is y for y in ast.walk(v)):
                                break
                            if _implies_not_none(v, 'true', f'self.{attr}'):
                                guarded = True
                    if isinstance(a, ast.IfExp) and \
                            f'self.{attr}' in unparse(a.test):
                        guarded = True
                if isinstance(st, (ast.If, ast.While)) and \
                        any(node is x for x in ast.walk(st.test)):
                    t = st.test
                    if isinstance(t, ast.BoolOp) and \
                            isinstance(t.op, ast.And):
                        for v in t.values:
                            if any(node is x for x in ast.walk(v)):
                                break
                            if _implies_not_none(v, 'true', f'self.{attr}'):
                                guarded = True
                for x in cn:
                    for tnode, lab in cfg.conditions(x):
                        if _implies_not_none(tnode.ast.test, lab,
                                             f'self.{attr}'):
                            guarded = True
                    # earlier assignment dominating
                    if cfg.must_pass(x, lambda y: y.kind == 'stmt' and
                                     isinstance(y.ast, ast.Assign) and any(
                                         dotted(t) == f'self.{attr}'
                                         for t in y.ast.targets) and not (
                                         isinstance(y.ast.value,
                                                    ast.Constant) and
                                         y.ast.value.value is None)):
                        guarded = True
                ctx.instance(rule, construct, sample={'guarded': guarded})
                if not guarded:
                    ctx.finding(rule, construct,
                                f'self.{attr} is None after __init__ and is '
                                f'dereferenced ({kind}) in {f.qualname} with '
                                f'no dominating test or assignment',
                                f.file, node.lineno)
    ctx.floor('derefs of None-initialised attributes', n, 10)


def interrupt_clause(ctx, tick):
    rule = 'C07.interrupt-checked-before-fetch'
    ctx.rule(rule, 'tick() tests received_keyboard_interrupt before '
             'fetching/dispatching; the taken branch clears the flag, '
             'reports KEYBOARD_INTERRUPT and returns without executing an '
             'instruction')
    cfg = build_cfg(tick.node, repo_noreturn)
    test = [n for n in cfg.nodes if n.kind == 'test' and
            'received_keyboard_interrupt' in unparse(n.ast.test)]
    construct = f'{tick.file}:QvmCpu.tick:interrupt'
    ctx.instance(rule, construct, sample={'tests': len(test)})
    if not test:
        ctx.finding(rule, construct, 'tick() no longer tests '
                    'received_keyboard_interrupt', tick.file, tick.line)
        return
    t = test[0]
    fetch = [n for n in cfg.nodes if n.kind == 'stmt' and any(
        isinstance(c, ast.Call) and (dotted(c.func) or '') in (
            'self.get_current_instruction', 'self.get_instruction_at')
        for c in ast.walk(n.ast))]
    from ..astutil import local_defs
    handler_vars = {name for name, ds in local_defs(tick.node).items()
                    if any(k == 'assign' and isinstance(v, ast.Call) and
                           dotted(v.func) == 'getattr' for k, v in ds)}
    dispatch = [n for n in cfg.nodes if n.kind == 'stmt' and any(
        isinstance(c, ast.Call) and isinstance(c.func, ast.Name) and
        c.func.id in handler_vars for c in ast.walk(n.ast))]
    if not fetch or not dispatch:
        raise AnalysisError('anchor vanished: fetch/dispatch in tick')
    for n in fetch + dispatch:
        c2 = f'{construct}:dominates:L{"fetch" if n in fetch else "dispatch"}'
        ctx.instance(rule, c2)
        if not cfg.must_pass(n, lambda x: x is t):
            ctx.finding(rule, c2, 'instruction fetch/dispatch is reachable '
                        'without passing the interrupt test', tick.file,
                        n.line)
    # taken branch
    true_succ = [s for s, lab in t.succ if lab == 'true']
    region = set()
    for s in true_succ:
        region |= cfg.reachable(s, blocked_edges=[
            (t, x, 'false') for x, lab in t.succ if lab == 'false'])
    region_stmts = [n for n in region if n.kind == 'stmt']
    texts = [unparse(n.ast) for n in region_stmts]
    # the branch must not reach dispatch
    ok_no_dispatch = not any(n in region for n in fetch + dispatch)
    clears = any(isinstance(n.ast, ast.Assign) and
                 'received_keyboard_interrupt' in unparse(n.ast.targets[0])
                 and const(n.ast.value) is False for n in region_stmts)
    reports = any('TrapCode.KEYBOARD_INTERRUPT' in x for x in texts)
    ctx.instance(rule, construct + ':branch',
                 sample={'no_dispatch': ok_no_dispatch, 'clears': clears,
                         'reports': reports})
    if not ok_no_dispatch:
        ctx.finding(rule, construct + ':executes',
                    'the interrupt branch still reaches instruction '
                    'fetch/dispatch', tick.file, t.line)
    if not clears:
        ctx.finding(rule, construct + ':clear',
                    'the interrupt branch does not clear the flag',
                    tick.file, t.line)
    if not reports:
        ctx.finding(rule, construct + ':report',
                    'the interrupt branch does not report '
                    'TrapCode.KEYBOARD_INTERRUPT', tick.file, t.line)
    # who may write the flag: __init__ (False), signal_handler (True) and
    # the interrupt branch of tick (False) only
    allowed = {'QvmCpu.__init__', 'QvmCpu.signal_handler', 'QvmCpu.tick'}
    for f in ctx.repo.all_functions():
        if not f.module.name.startswith('qvm.'):
            continue
        for s in walk_shallow(f.node):
            if isinstance(s, (ast.Assign, ast.AugAssign)):
                tg = s.targets if isinstance(s, ast.Assign) else [s.target]
                if any((dotted(x) or '').endswith(
                        'received_keyboard_interrupt') for x in tg):
                    c2 = f'{f.file}:{f.qualname}:writes-interrupt-flag'
                    ctx.instance(rule, c2)
                    if f.qualname not in allowed:
                        ctx.finding(rule, c2,
                                    f'{f.qualname} writes '
                                    f'received_keyboard_interrupt: a pending '
                                    f'interrupt request can be lost before '
                                    f'tick() sees it', f.file, s.lineno)


def category_mapping(ctx, tick, tr):
    repo = ctx.repo
    rule = 'C07.error-category-matches-cause'
    ctx.rule(rule, 'each cause is mapped to its category at the mapping '
             'site: ZeroDivisionError -> DIVISION_BY_ZERO, cell range -> '
             'INVALID_CELL_VALUE, subscript -> INDEX_OUT_OF_RANGE, '
             'exhausted DATA / DeviceError -> DEVICE_ERROR')
    # (a) tick
    found = None
    for h in tr.handlers:
        if dotted(h.type) == 'ZeroDivisionError':
            found = unparse(h)
    c = f'{tick.file}:QvmCpu.tick:except ZeroDivisionError'
    ctx.instance(rule, c)
    if found and 'TrapCode.DIVISION_BY_ZERO' not in found:
        ctx.finding(rule, c, 'ZeroDivisionError is not mapped to '
                    'TrapCode.DIVISION_BY_ZERO in tick()', tick.file,
                    tr.lineno)
    if not found:
        # no catch-all arm: then every dividing handler must test its
        # divisor itself (/, //, % by zero; 0 ** negative)
        handlers, _, _ = R.cpu_handlers(repo)
        for name, h in sorted(handlers.items()):
            for x in ast.walk(h.node):
                if not (isinstance(x, ast.BinOp) and isinstance(
                        x.op, (ast.Div, ast.FloorDiv, ast.Mod, ast.Pow))
                        and '.value' in unparse(x)):
                    continue
                divisor = unparse(x.left if isinstance(x.op, ast.Pow)
                                  else x.right)
                cfg = build_cfg(h.node, repo_noreturn)
                st = x
                while not isinstance(st, ast.stmt):
                    st = st._parent
                guarded = False
                for cn in (y for y in cfg.nodes if y.ast is st):
                    for tnode, lab in cfg.conditions(cn):
                        t = unparse(tnode.ast.test)
                        if divisor in t and '0' in t and \
                                'DIVISION_BY_ZERO' in unparse(tnode.ast):
                            guarded = True
                c2 = f'{h.file}:{h.qualname}:{type(x.op).__name__}'
                ctx.instance(rule, c2, sample={'zero_test': guarded})
                if not guarded:
                    ctx.finding(rule, c2,
                                f'tick() has no ZeroDivisionError arm and '
                                f'{h.qualname} computes `{unparse(x)[:50]}` '
                                f'without a trapping zero test on '
                                f'`{divisor}`: a host ZeroDivisionError '
                                f'escapes run()', h.file, x.lineno)
    found = None
    for h in tr.handlers:
        if dotted(h.type) == 'Trapped':
            found = unparse(h)
    c = f'{tick.file}:QvmCpu.tick:except Trapped'
    ctx.instance(rule, c)
    if not found or 'e.trap_code' not in found:
        ctx.finding(rule, c, 'Trapped is not dispatched with its own '
                    'trap_code in tick()', tick.file, tr.lineno)
    # (b) CellValue
    cv = repo.func('qvm.cell', 'CellValue.__init__')
    txt = unparse(cv.node)
    c = f'{cv.file}:CellValue.__init__'
    ctx.instance(rule, c)
    ok = False
    for n in ast.walk(cv.node):
        if isinstance(n, ast.If) and 'can_hold' in unparse(n.test) and \
                isinstance(n.test, ast.UnaryOp):
            body = unparse(n)
            if 'raise Trapped' in body and \
                    'TrapCode.INVALID_CELL_VALUE' in body:
                ok = True
    if not ok:
        ctx.finding(rule, c, 'CellValue no longer raises '
                    'Trapped(INVALID_CELL_VALUE) when the value does not fit',
                    cv.file, cv.line)
    # (c) arridx
    ai = repo.func('qvm.cpu', 'QvmCpu._exec_arridx')
    ok = False
    for n in ast.walk(ai.node):
        if isinstance(n, ast.If) and isinstance(n.test, ast.BoolOp) and \
                'lbound' in unparse(n.test) and 'ubound' in unparse(n.test):
            if 'TrapCode.INDEX_OUT_OF_RANGE' in unparse(n):
                ops = [type(o).__name__ for cmp_ in ast.walk(n.test)
                       if isinstance(cmp_, ast.Compare) for o in cmp_.ops]
                ok = sorted(ops) == ['Gt', 'Lt'] and \
                    isinstance(n.test.op, ast.Or)
    c = f'{ai.file}:QvmCpu._exec_arridx:bounds'
    ctx.instance(rule, c)
    if not ok:
        ctx.finding(rule, c, 'arridx does not trap INDEX_OUT_OF_RANGE on '
                    '`idx < lbound or idx > ubound`', ai.file, ai.line)
    # (d) data read
    dr = repo.func('qvm.machine', 'DataDevice._exec_read')
    ok = False
    for n in ast.walk(dr.node):
        if isinstance(n, ast.Try):
            for h in n.handlers:
                if dotted(h.type) == 'IndexError' and \
                        '_device_error' in unparse(h):
                    ok = True
    c = f'{dr.file}:DataDevice._exec_read:out-of-data'
    ctx.instance(rule, c)
    if not ok:
        ctx.finding(rule, c, 'reading past the last DATA item is not mapped '
                    'to a device error', dr.file, dr.line)
    # (e) device error -> DEVICE_ERROR
    for qn in ('Device._device_error', 'Device.execute'):
        f = repo.func('qvm.machine', qn)
        c = f'{f.file}:{qn}'
        ctx.instance(rule, c)
        if 'TrapCode.DEVICE_ERROR' not in unparse(f.node):
            ctx.finding(rule, c, f'{qn} does not trap DEVICE_ERROR',
                        f.file, f.line)
    ex = repo.func('qvm.machine', 'Device.execute')
    handled = {dotted(h.type) for n in ast.walk(ex.node)
               if isinstance(n, ast.Try) for h in n.handlers}
    c = f'{ex.file}:Device.execute:handlers'
    ctx.instance(rule, c, sample={'handled': sorted(map(str, handled))})
    if 'DeviceError' not in handled:
        ctx.finding(rule, c, 'Device.execute does not catch DeviceError',
                    ex.file, ex.line)


HIERARCHY = {
    'OverflowError': ('ArithmeticError', 'Exception'),
    'ZeroDivisionError': ('ArithmeticError', 'Exception'),
    'ValueError': ('Exception',),
    'TypeError': ('Exception',),
    'IndexError': ('LookupError', 'Exception'),
}


def _caught_by(handlers):
    out = set()
    for h in handlers:
        if h.type is None:
            out.add('Exception')
        elif isinstance(h.type, ast.Tuple):
            out |= {dotted(e) for e in h.type.elts}
        else:
            out.add(dotted(h.type))
    return out


def _unmapped(raisable, caught):
    return {e for e in raisable
            if e not in caught and not (set(HIERARCHY.get(e, ())) & caught)}


def partial_ops(ctx, reach, tr=None):
    """Armed partial operations in the VM handler trees (each rule kind was
    confirmed with a witness program before arming)."""
    repo = ctx.repo
    # what the boundary (the try around the handler call in tick) maps to
    # a trap
    boundary = _caught_by(tr.handlers) if tr is not None else set()
    rule = 'C07.partial-operation-unmapped'
    ctx.rule(rule, 'partial host operations on run-time values (**, '
             'int(round(x))/math.floor(x) of a float, bytes([n]), x[-1] of '
             'a possibly empty list) are range-guarded or their exception '
             'is one the boundary maps')

    def enclosing_catches(node, fnode):
        caught = set()
        for a in ancestors(node):
            if a is fnode:
                break
            if isinstance(a, ast.Try) and any(
                    node is y for b in a.body for y in ast.walk(b)):
                caught |= _caught_by(a.handlers)
        return caught
    n = 0
    for f in sorted(reach, key=lambda f: f.key):
        if not f.module.name.startswith('qvm.') or \
                f.module.name in ('qvm.dbg', 'qvm.eval', 'qvm.debug_info',
                                  'qvm.memlayout', 'qvm.module'):
            continue
        fn = f.node
        cfg = None
        nodes = list(walk_shallow(fn))
        outer = getattr(f, 'outer', None)
        if outer is not None:
            nodes = list(ast.walk(outer))
        for node in nodes:
            kind = None
            if isinstance(node, ast.BinOp) and isinstance(node.op, ast.Pow) \
                    and '.value' in unparse(node):
                # OverflowError for large results; a negative base with a
                # fractional exponent yields a complex number, which the
                # CellValue range test rejects with TypeError
                kind = ('pow', {'OverflowError', 'TypeError'})
            elif isinstance(node, ast.Call) and dotted(node.func) == 'int' \
                    and node.args and isinstance(node.args[0], ast.Call) \
                    and dotted(node.args[0].func) == 'round':
                # OverflowError for +-inf, ValueError for NaN
                kind = ('int-round', {'OverflowError', 'ValueError'})
            elif isinstance(node, ast.Call) and \
                    dotted(node.func) == 'math.floor' and \
                    '.value' in unparse(node):
                kind = ('floor', {'OverflowError', 'ValueError'})
            elif isinstance(node, ast.Call) and dotted(node.func) == 'bytes' \
                    and node.args and isinstance(node.args[0], ast.List):
                kind = ('bytes', {'ValueError'})
            elif isinstance(node, ast.Subscript) and \
                    const(node.slice) == -1 and \
                    isinstance(node.ctx, ast.Load):
                kind = ('last-element', {'IndexError'})
            elif isinstance(node, ast.Call) and \
                    isinstance(node.func, ast.Attribute) and \
                    node.func.attr == 'index' and len(node.args) == 1 and \
                    isinstance(const(node.args[0]), str):
                # s.index('x') on text derived from a run-time value
                kind = ('str-index', {'ValueError'})
            if kind is None:
                continue
            n += 1
            construct = f'{f.file}:{f.qualname}:{kind[0]}'
            if f.qualname.startswith('QvmCpu._exec_conv_'):
                # one report for the whole generated family
                construct = f'{f.file}:conv-family:{kind[0]}'
                src = f.bindings.get('src')
                if src is not None and str(src).split('.')[-1] not in (
                        'SINGLE', 'DOUBLE'):
                    continue
            left = _unmapped(kind[1], boundary |
                             enclosing_catches(node, fn))
            guarded = not left
            if not guarded and kind[0] == 'str-index' and outer is None:
                if cfg is None:
                    cfg = build_cfg(fn, repo_noreturn)
                st = node
                while not isinstance(st, ast.stmt):
                    st = st._parent
                needle = repr(const(node.args[0]))
                hay = unparse(node.func.value)
                for x in (y for y in cfg.nodes if y.ast is st):
                    for tnode, lab in cfg.conditions(x):
                        for c_ in ast.walk(tnode.ast.test):
                            if isinstance(c_, ast.Compare) and \
                                    len(c_.ops) == 1 and \
                                    isinstance(c_.ops[0], ast.In) and \
                                    repr(const(c_.left)) == needle and \
                                    unparse(c_.comparators[0]) == hay and \
                                    lab == 'true':
                                guarded = True
            if not guarded and kind[0] in ('bytes', 'last-element') \
                    and outer is None:
                # range / emptiness guard dominating the use
                if cfg is None:
                    cfg = build_cfg(fn, repo_noreturn)
                st = node
                while not isinstance(st, ast.stmt):
                    st = st._parent
                cn = [x for x in cfg.nodes if x.ast is st]
                subj = unparse(node.args[0].elts[0]) if kind[0] == 'bytes' \
                    else unparse(node.value)
                subj_root = subj.split('.')[0].split('[')[0]
                for x in cn:
                    for tnode, lab in cfg.conditions(x):
                        tt = unparse(tnode.ast.test)
                        if kind[0] == 'bytes' and subj_root in tt and (
                                '255' in tt or '256' in tt):
                            guarded = True
                        if kind[0] == 'last-element' and subj_root in tt \
                                and 'len(' in tt:
                            guarded = True
                # same-expression guard: len(x) == 0 or x[-1] ...
                for a in ancestors(node):
                    if isinstance(a, ast.BoolOp):
                        for v in a.values:
                            if any(node is y for y in ast.walk(v)):
                                break
                            if f'len({subj})' in unparse(v):
                                guarded = True
                    if a is st:
                        break
                if kind[0] == 'bytes':
                    # trap-guard before use: if x < 0 or x > 255: trap
                    for s in walk_shallow(fn):
                        if isinstance(s, ast.If) and \
                                s.lineno < node.lineno and \
                                subj_root in unparse(s.test) and \
                                '255' in unparse(s.test) and any(
                                    isinstance(b, ast.Expr) and
                                    isinstance(b.value, ast.Call) and
                                    repo_noreturn(b.value) for b in s.body):
                            guarded = True
            admits = None
            if guarded and kind[0] == 'bytes' and outer is None:
                admits = _bytes_guard_admits(fn, cfg, node, subj)
            ctx.instance(rule, construct, sample={'kind': kind[0],
                                                  'guarded': guarded,
                                                  'guard_admits': admits})
            if admits:
                ctx.finding(rule, construct + ':range',
                            f'the range guard in front of '
                            f'`{unparse(node)[:40]}` in {f.qualname} lets '
                            f'{subj} = {admits} through; bytes() raises '
                            f'ValueError outside 0..255 and nothing maps it '
                            f'to a trap', f.file, node.lineno)
            if not guarded:
                ctx.finding(rule, construct,
                            f'{kind[0]} operation `{unparse(node)[:60]}` in '
                            f'{f.qualname} can raise '
                            f'{sorted(left)} '
                            f'for run-time values; nothing maps it to a '
                            f'trap (tick maps {sorted(boundary)})',
                            f.file, node.lineno)
    ctx.floor('partial operations examined', n, 8)


def _bytes_guard_admits(fn, cfg, node, subj):
    """The guards found for bytes([subj]) evaluated at the two values next
    to the byte range: the list of those that still reach the call.  A
    guard that mentions anything besides the subject and constants is left
    undecided (None)."""
    st = node
    while not isinstance(st, ast.stmt):
        st = st._parent
    guards = []          # (test expr, value the test has on the way here)
    for x in (y for y in cfg.nodes if y.ast is st):
        for tnode, lab in cfg.conditions(x):
            if subj in unparse(tnode.ast.test):
                guards.append((tnode.ast.test, lab == 'true'))
    for s_ in walk_shallow(fn):
        if isinstance(s_, ast.If) and s_.lineno < node.lineno and \
                subj in unparse(s_.test) and not s_.orelse and any(
                    isinstance(b, ast.Expr) and
                    isinstance(b.value, ast.Call) and
                    repo_noreturn(b.value) for b in s_.body):
            guards.append((s_.test, False))
    if not guards:
        return None

    class Sub(ast.NodeTransformer):
        def __init__(self, v):
            self.v = v

        def generic_visit(self, n):
            if isinstance(n, ast.expr) and unparse(n) == subj:
                return ast.Constant(self.v)
            return super().generic_visit(n)

    admitted = []
    for v in (-1, 256):
        reaches = True
        for test, want in guards:
            import copy
            e = ast.Expression(Sub(v).visit(copy.deepcopy(test)))
            ast.fix_missing_locations(e)
            if any(isinstance(z, (ast.Name, ast.Call, ast.Attribute))
                   for z in ast.walk(e)):
                continue                 # not about the subject alone
            try:
                got = bool(eval(compile(e, '<guard>', 'eval'), {}))
            except Exception:
                continue
            if got != want:
                reaches = False
        if reaches:
            admitted.append(v)
    return admitted


def indexed_runtime_strings(ctx):
    """Device and peripheral code receives strings made by the program
    (file names, PLAY strings, ...), possibly empty.  A constant index into
    such a parameter needs a length test in front of it; IndexError is not
    one of the exceptions Device.execute maps."""
    repo = ctx.repo
    rule = 'C07.runtime-string-indexed-under-length-test'
    ctx.rule(rule, 'in qvm/machine.py a parameter indexed with a constant '
             '(p[k]) is tested for len(p) > k first (same `and` chain or a '
             'dominating test); an empty or short program string otherwise '
             'raises IndexError, which nothing maps to a trap')
    m = repo.module('qvm.machine')
    n = 0
    for f in repo.all_functions():
        if f.module is not m:
            continue
        params = {a.arg for a in f.node.args.args} - {'self'}
        cfg = None
        for x in walk_shallow(f.node):
            if not (isinstance(x, ast.Subscript) and
                    isinstance(x.ctx, ast.Load) and
                    isinstance(x.slice, ast.Constant) and
                    isinstance(x.slice.value, int) and
                    not isinstance(x.slice.value, bool) and
                    x.slice.value >= 0 and isinstance(x.value, ast.Name)
                    and x.value.id in params):
                continue
            n += 1
            p, k = x.value.id, x.slice.value

            def implies(test):
                # does `test` (true) imply len(p) > k ?
                for c in ast.walk(test):
                    if isinstance(c, ast.Compare) and len(c.ops) == 1 and \
                            isinstance(c.left, ast.Call) and \
                            dotted(c.left.func) == 'len' and c.left.args \
                            and unparse(c.left.args[0]) == p:
                        b = const(c.comparators[0])
                        if isinstance(b, int):
                            if isinstance(c.ops[0], ast.GtE) and b >= k + 1:
                                return True
                            if isinstance(c.ops[0], ast.Gt) and b >= k:
                                return True
                            if isinstance(c.ops[0], ast.Eq) and b >= k + 1:
                                return True
                if k == 0 and isinstance(test, ast.Name) and test.id == p:
                    return True
                return False
            guarded = False
            for a in ancestors(x):
                if isinstance(a, ast.BoolOp) and isinstance(a.op, ast.And):
                    for v in a.values:
                        if any(x is y for y in ast.walk(v)):
                            break
                        if implies(v):
                            guarded = True
                if a is f.node:
                    break
            if not guarded:
                if cfg is None:
                    cfg = build_cfg(f.node, repo_noreturn)
                st = x
                while not isinstance(st, ast.stmt):
                    st = st._parent
                for cn in (y for y in cfg.nodes if y.ast is st):
                    for tnode, lab in cfg.conditions(cn):
                        if lab == 'true' and implies(tnode.ast.test):
                            guarded = True
            construct = f'{f.file}:{f.qualname}:{p}[{k}]'
            ctx.instance(rule, construct, sample={'guarded': guarded})
            if not guarded:
                ctx.finding(rule, construct,
                            f'{f.qualname} reads {p}[{k}] without a test '
                            f'that len({p}) > {k}: a program string shorter '
                            f'than {k + 1} character(s) raises IndexError '
                            f'out of the device call', f.file, x.lineno)
    ctx.floor('constant-index reads of parameters in qvm/machine.py', n, 1)


def run(ctx):
    ctx.clauses = [
        'nothing that can raise Trapped runs outside the try of tick()',
        'handler/device call trees raise only mapped exception classes',
        'None-initialised state is guarded before dereference',
        'trap() calls are well-formed; _trap is exhaustive over TrapCode',
        'interrupt flag is tested before fetch and the branch executes '
        'nothing',
        'cause -> category mapping sites exist',
        'armed partial operations are guarded',
    ]
    ctx.not_decided = ['reachability of handler states from compiled '
                       'programs; halting of user loops']
    repo = ctx.repo
    cg = CallGraph(repo, mode='precise')
    ctx.extra['unresolved_calls'] = len(cg.unresolved)
    tick, tr = tick_boundary(ctx, cg)
    reach = explicit_raises(ctx, cg)
    trap_plumbing(ctx)
    none_state(ctx)
    interrupt_clause(ctx, tick)
    category_mapping(ctx, tick, tr)
    partial_ops(ctx, reach, tr)
    indexed_runtime_strings(ctx)
    return ('Escape/boundary analysis of the VM: call-graph reachability of '
            'QvmCpu.trap from code outside the try of tick(); explicit raise '
            'classes in the handler and device call trees; well-formedness '
            'of every trap() call against the keys _trap reads; dominating '
            'guards for None-initialised state and for a small catalogue of '
            'partial host operations; CFG dominance of the interrupt test. '
            'Does not decide which handler states compiled programs can '
            'reach, nor termination.')
