"""C08 -- debug information does not change what a program does."""
import ast

from .. import registries as R
from .. import effects
from ..astutil import dotted, const, unparse, walk_shallow, fstring_pattern
from ..cfg import build_cfg, repo_noreturn
from ..model import AnalysisError

FLAG_NAMES = ('debug_info_enabled', '_debug_info_enabled')
PSEUDO_PREFIXES = ('_dbg_info_', '_empty_block')


def flag_polarity(test, label):
    """+1 if taking `label` at `test` implies the debug flag is on, -1 if
    it implies off, 0 if the test does not mention the flag."""
    t = unparse(test)
    if not any(n in t for n in FLAG_NAMES):
        return 0
    if isinstance(test, ast.UnaryOp) and isinstance(test.op, ast.Not):
        return -flag_polarity(test.operand, label) if \
            flag_polarity(test.operand, label) else 0
    if isinstance(test, ast.BoolOp):
        pols = [flag_polarity(v, label) for v in test.values]
        if isinstance(test.op, ast.And) and label == 'true':
            return 1 if 1 in pols else (-1 if -1 in pols else 0)
        if isinstance(test.op, ast.Or) and label == 'false':
            return -1 if 1 in pols else (1 if -1 in pols else 0)
        # otherwise the branch does not determine the flag, but it is
        # still control-dependent on it
        return 2
    d = dotted(test) or ''
    if d.split('.')[-1] in FLAG_NAMES:
        return 1 if label == 'true' else -1
    return 2


def _emitted_ops(st):
    out = []
    for n in ast.walk(st):
        if isinstance(n, ast.Call) and isinstance(n.func, ast.Attribute) \
                and n.func.attr == 'add' and \
                (dotted(n.func.value) or '').endswith('code'):
            for a in n.args:
                if isinstance(a, ast.Tuple) and a.elts:
                    pat, _ = fstring_pattern(a.elts[0])
                    out.append(pat or unparse(a.elts[0]))
    return out


def flag_slice(ctx):
    repo = ctx.repo
    rule = 'C08.flag-controls-only-pseudo-instructions'
    ctx.rule(rule, 'a statement control-dependent on the debug flag (either '
             'polarity) may only emit _dbg_info_*/_empty_block '
             'pseudo-instructions, bind locals, maintain the marker stack / '
             'collector / section 5, or return; it may not emit real '
             'instructions nor touch literals, data, globals or locals '
             'tables')
    allowed_calls = {
        'self.dbg_info_stack.append', 'self.dbg_info_stack.pop',
        'code.enable_debug_info', 'DebugInfoCollector',
        'dbg_collector.get_debug_info', 'sections.append',
        'self._codegen.set_source_code', 'dbg_info.serialize',
        'dbg_collector.start_node', 'dbg_collector.end_node',
        'dbg_collector.mark_empty_block',
    }
    n_sites = 0
    for modname in ('qbee.codegen', 'qbee.qvm_codegen', 'qbee.compiler'):
        m = repo.module(modname)
        for f in m.functions.values():
            src = unparse(f.node)
            if not any(n in src for n in FLAG_NAMES):
                continue
            cfg = build_cfg(f.node, repo_noreturn)
            for x in cfg.nodes:
                if x.kind != 'stmt':
                    continue
                pols = [flag_polarity(t.ast.test, lab)
                        for t, lab in cfg.conditions(x)
                        if t.kind == 'test']
                pols = [p for p in pols if p]
                if not pols:
                    continue
                n_sites += 1
                st = x.ast
                construct = (f'{f.file}:{f.qualname}:'
                             f'{unparse(st).splitlines()[0][:50]}')
                problems = []
                for op in _emitted_ops(st):
                    if not op.startswith(PSEUDO_PREFIXES):
                        problems.append(f'emits real instruction {op!r}')
                for c in ast.walk(st):
                    if isinstance(c, ast.Call):
                        d = dotted(c.func) or ''
                        if d.endswith('.add') and d.endswith('code.add'):
                            continue
                        if d in allowed_calls:
                            continue
                        if d.split('.')[-1] in (
                                'add_string_literal', 'add_data',
                                'add_routine', 'add_user_type',
                                'gen_code_for_node', 'gen_code_for_block',
                                'gen_code_for_conv', 'gen_lvalue_write',
                                'gen_lvalue_ref', 'optimize', 'fold',
                                'process_tree', 'parse_string'):
                            problems.append(f'calls {d}')
                for kind, root, path, line, text in effects.writes(
                        ast.Module(body=[st], type_ignores=[])):
                    if 'local_vars' in text or 'static_vars' in text or \
                            'global_vars' in text or '_globals' in text or \
                            '_data' in text or '_string_literals' in text \
                            or '_instrs' in text:
                        problems.append(f'writes {text}')
                ctx.instance(rule, construct,
                             sample={'polarity': pols,
                                     'problems': problems} if problems
                             else {'polarity': pols})
                for p in problems:
                    ctx.finding(rule, f'{construct}:{p}',
                                f'{f.qualname}: statement under the debug '
                                f'flag {p}: the module would differ with and '
                                f'without debug information', f.file,
                                st.lineno)
    ctx.floor('statements control-dependent on the debug flag', n_sites, 15)


def assembler_transparency(ctx):
    repo = ctx.repo
    rule = 'C08.assembler-skips-pseudo-instructions'
    ctx.rule(rule, 'in QvmCode.assembled each pseudo-op arm writes nothing '
             'to code / cur_offset / labels / patch_positions / cur_routine '
             'and continues; __bytes__ builds sections 1-4 without reading '
             'the flag')
    asm = repo.func('qbee.qvm_codegen', 'QvmCode.assembled')
    loop = None
    for n in ast.walk(asm.node):
        if isinstance(n, ast.For) and 'self._instrs' in unparse(n.iter):
            loop = n
    if loop is None:
        raise AnalysisError('anchor vanished: assembly loop')
    from ..fmt import _ev, _Unknown, dispatch_subject
    subj = dispatch_subject(loop.body)
    # names of the running state, identified structurally (see C09)
    from .. import pat
    n_, b_ = pat.first('_OFF += 1 + len(_B)', loop)
    state_names = {'cur_offset', 'cur_routine', 'code'}
    if b_:
        state_names.add(unparse(b_['_OFF']))
    for x, m in pat.find_all('_CODE += _OPC + _B', loop):
        state_names.add(unparse(m['_CODE']))
    for op in ('_dbg_info_start', '_dbg_info_end', '_empty_block'):
        env = {'op': op, '__subject__': subj}
        executed = []
        continued = False

        def walk(body):
            nonlocal continued
            for st in body:
                if continued:
                    return
                if isinstance(st, ast.If):
                    try:
                        t = _ev(st.test, env)
                    except Exception:
                        executed.append(st)
                        continue
                    walk(st.body if t else st.orelse)
                elif isinstance(st, ast.Continue):
                    continued = True
                    return
                else:
                    executed.append(st)
        walk(loop.body)
        construct = f'{asm.file}:QvmCode.assembled[{op}]'
        bad = []
        for st in executed:
            if isinstance(st, ast.Assign) and \
                    isinstance(st.targets[0], ast.Tuple) and \
                    unparse(st.value).endswith('.final'):
                continue
            for kind, root, path, line, text in effects.writes(
                    ast.Module(body=[st], type_ignores=[])):
                if root in state_names or root in ('labels',
                                                   'patch_positions'):
                    bad.append(text)
            for n in ast.walk(st):
                if isinstance(n, (ast.Assign, ast.AugAssign)):
                    tg = n.targets[0] if isinstance(n, ast.Assign) \
                        else n.target
                    if dotted(tg) in state_names:
                        bad.append(dotted(tg))
        ctx.instance(rule, construct, sample={'continues': continued,
                                              'statements':
                                              [unparse(s)[:50]
                                               for s in executed],
                                              'writes': bad})
        if not continued:
            ctx.finding(rule, construct,
                        f'the assembler does not skip pseudo-op {op}: it '
                        f'falls through to instruction encoding', asm.file,
                        loop.lineno)
        if bad:
            ctx.finding(rule, construct + ':writes',
                        f'the {op} arm writes {bad}: code offsets would '
                        f'differ with debug information', asm.file,
                        loop.lineno)
    # __bytes__
    b = repo.func('qbee.qvm_codegen', 'QvmCode.__bytes__')
    cfg = build_cfg(b.node, repo_noreturn)
    for x in cfg.nodes:
        if x.kind != 'stmt':
            continue
        pols = [flag_polarity(t.ast.test, lab)
                for t, lab in cfg.conditions(x) if t.kind == 'test']
        if not [p for p in pols if p]:
            continue
        t = unparse(x.ast)
        construct = f'{b.file}:QvmCode.__bytes__:{t[:40]}'
        ok = t.startswith('sections.append((5,')
        ctx.instance(rule, construct)
        if not ok:
            ctx.finding(rule, construct,
                        f'__bytes__ does `{t[:60]}` under the debug flag; '
                        f'only appending section 5 is allowed', b.file,
                        x.line)
    # listing skips pseudo ops
    s = repo.func('qbee.qvm_codegen', 'QvmCode.__str__')
    from .. import pat as _pat
    ok = _pat.has("__.startswith('_dbg_')", s.node) and \
        _pat.has("__ == '_empty_block'", s.node)
    ctx.instance(rule, f'{s.file}:QvmCode.__str__:pseudo')
    if not ok:
        ctx.finding(rule, f'{s.file}:QvmCode.__str__:pseudo',
                    'the listing writer no longer skips debug pseudo-ops',
                    s.file, s.line)


def optimizer_window(ctx, pid='C08'):
    """Every deletion / replacement in QvmCode.optimize hits only slots
    whose op is constrained to a real instruction on that path."""
    repo = ctx.repo
    rule = f'{pid}.optimizer-never-touches-pseudo-instructions'
    ctx.rule(rule, 'for each `del self._instrs[k]` / `self._instrs[k] = ..` '
             'in optimize, the instruction at k (tracked through the index '
             'shifts of earlier deletions in the same block) is constrained '
             'by the path condition to a real op (== Op.X / in [Op...] / '
             "the not-startswith('_') exemption)")
    f = repo.func('qbee.qvm_codegen', 'QvmCode.optimize')
    cfg = build_cfg(f.node, repo_noreturn)
    ops = R.enum(repo, 'qbee.qvm_codegen', 'CanonicalOp')
    pseudo = {m for m in ops if m.startswith('_')}
    # local lists of ops (jump_instrs = [Op.JMP, ...])
    local_lists = {}
    for s in walk_shallow(f.node):
        if isinstance(s, ast.Assign) and isinstance(s.value, ast.List) and \
                isinstance(s.targets[0], ast.Name):
            ms = [(dotted(e) or '').split('.')[-1] for e in s.value.elts]
            local_lists[s.targets[0].id] = ms
    # slot variables: X = self._instrs[<i> - k]
    from ..astutil import local_defs
    slot_names = {}      # local name -> canonical slot
    ivar = None
    for name, ds in local_defs(f.node).items():
        for kind, v in ds:
            if kind == 'assign' and isinstance(v, ast.Subscript) and \
                    dotted(v.value) == 'self._instrs':
                sl = v.slice
                if isinstance(sl, ast.Name):
                    ivar = sl.id
                    slot_names[name] = 'cur'
                elif isinstance(sl, ast.BinOp) and \
                        isinstance(sl.op, ast.Sub) and \
                        isinstance(sl.left, ast.Name) and \
                        const(sl.right) in (1, 2):
                    ivar = sl.left.id
                    slot_names[name] = f'prev{const(sl.right)}'
    if ivar is None or set(slot_names.values()) != {'cur', 'prev1',
                                                    'prev2'}:
        raise AnalysisError('anchor vanished: instruction window '
                            '(cur/prev1/prev2) in optimize')

    def canon_idx(e):
        if isinstance(e, ast.Name) and e.id == ivar:
            return 'i'
        if isinstance(e, ast.BinOp) and isinstance(e.op, ast.Sub) and \
                isinstance(e.left, ast.Name) and e.left.id == ivar and \
                const(e.right) in (1, 2):
            return f'i - {const(e.right)}'
        return unparse(e)

    def constrained_slots(conds):
        out = set()
        for t, lab in conds:
            if lab != 'true':
                continue
            for c in ast.walk(t.ast.test):
                if isinstance(c, ast.Compare):
                    names = [c.left] + list(c.comparators)
                    slots = []
                    members = []
                    for e in names:
                        d = dotted(e) or ''
                        if d.endswith('.op') and \
                                d.split('.')[0] in slot_names:
                            slots.append(slot_names[d.split('.')[0]])
                        elif d.startswith('Op.'):
                            members.append(d.split('.')[1])
                        elif isinstance(e, (ast.List, ast.Tuple)):
                            members += [(dotted(x) or '').split('.')[-1]
                                        for x in e.elts]
                        elif isinstance(e, ast.Name) and \
                                e.id in local_lists:
                            members += local_lists[e.id]
                    if all(isinstance(o, (ast.Eq, ast.In)) for o in c.ops) \
                            and members and not (set(members) & pseudo):
                        out |= set(slots)
                if isinstance(c, ast.UnaryOp) and \
                        isinstance(c.op, ast.Not) and \
                        "op.name.startswith('_')" in unparse(c.operand):
                    d = unparse(c.operand).split('.')[0]
                    out.add(slot_names.get(d, d))
        return out
    n_sites = 0
    # group mutation statements by enclosing block to track shifts
    blocks = {}
    for x in cfg.nodes:
        if x.kind != 'stmt':
            continue
        st = x.ast
        is_del = isinstance(st, ast.Delete) and any(
            'self._instrs[' in unparse(t) for t in st.targets)
        is_set = isinstance(st, ast.Assign) and \
            isinstance(st.targets[0], ast.Subscript) and \
            dotted(st.targets[0].value) == 'self._instrs'
        if is_del or is_set:
            fld = 'body'
            for name in ('body', 'orelse', 'finalbody'):
                if st in getattr(st._parent, name, []):
                    fld = name
            blocks.setdefault((id(st._parent), fld), []).append((st, x))
    for key, items in blocks.items():
        items.sort(key=lambda p: p[0].lineno)
        window = {'i - 2': 'prev2', 'i - 1': 'prev1', 'i': 'cur'}
        order = ['i - 2', 'i - 1', 'i']
        for st, x in items:
            n_sites += 1
            conds = [(t, lab) for t, lab in cfg.conditions(x)
                     if t.kind == 'test']
            ok_slots = constrained_slots(conds)
            if isinstance(st, ast.Delete):
                idx = canon_idx(st.targets[0].slice)
                kind = 'del'
            else:
                idx = canon_idx(st.targets[0].slice)
                kind = 'set'
            slot = window.get(idx)
            construct = (f'{f.file}:QvmCode.optimize:{kind} '
                         f'_instrs[{idx}]@{_guard_text(conds)}')
            ctx.instance(rule, construct,
                         sample={'slot': slot, 'constrained':
                                 sorted(ok_slots)})
            if slot is None:
                ctx.finding(rule, construct,
                            f'{kind} at index {idx} is outside the '
                            f'three-instruction window', f.file, st.lineno)
            elif slot not in ok_slots and slot != 'new':
                ctx.finding(rule, construct,
                            f'{kind} of _instrs[{idx}] hits the original '
                            f'`{slot}` instruction, whose op is not '
                            f'constrained to a real instruction on this '
                            f'path (constrained: {sorted(ok_slots)}): a '
                            f'debug marker or label could be removed or '
                            f'overwritten', f.file, st.lineno)
            if kind == 'del' and slot is not None:
                # shift higher indices down
                pos = order.index(idx)
                vals = [window[k] for k in order]
                del vals[pos]
                vals.append(None)
                window = dict(zip(order, vals))
            elif kind == 'set' and slot is not None:
                window[idx] = 'new'
    ctx.floor('instruction-list mutation sites in optimize', n_sites, 10)


def _guard_text(conds):
    """The Op members tested on the path (stable under local renames)."""
    import re
    ms = []
    for t, lab in conds:
        if lab == 'true':
            ms += re.findall(r'Op\.([A-Z_]+)', unparse(t.ast.test))
    return ','.join(ms[:4]) or '?'


def acceptance(ctx):
    repo = ctx.repo
    rule = 'C08.acceptance-independent-of-flag'
    ctx.rule(rule, 'in Compiler.compile the debug flag guards only '
             'set_source_code; parse and passes are not control-dependent '
             'on it')
    from .c02 import level_independence
    level_independence(ctx, 'C08')
    f = repo.func('qbee.compiler', 'Compiler.compile')
    cfg = build_cfg(f.node, repo_noreturn)
    for x in cfg.nodes:
        if x.kind != 'stmt':
            continue
        pols = [flag_polarity(t.ast.test, lab)
                for t, lab in cfg.conditions(x) if t.kind == 'test']
        if [p for p in pols if p]:
            t = unparse(x.ast)
            ctx.instance(rule, f'{f.file}:Compiler.compile:{t[:40]}')
            if 'set_source_code' not in t:
                ctx.finding(rule, f'{f.file}:Compiler.compile:{t[:40]}',
                            f'`{t[:60]}` runs only with/without debug info',
                            f.file, x.line)


def sections_not_derived_from_code(ctx):
    """With debug info the instruction list contains markers, and the
    peephole pass stops at them, so the list differs from the one without
    debug info (unreachable code survives, windows differ).  Sections 1-3
    must therefore never be recomputed from the instruction list: their
    tables are filled by the generators (add_string_literal, add_data, ...)
    and only read afterwards."""
    from .. import effects
    repo = ctx.repo
    rule = 'C08.sections-are-not-derived-from-the-instruction-list'
    ctx.rule(rule, 'no method of QvmCode that reads self._instrs also '
             'writes the literal, data or globals tables (self._string_'
             'literals, self._data, self._globals): what goes into sections '
             '1-3 must not depend on which instructions survive the '
             'peephole pass, which differs with debug markers')
    cls = repo.cls('qbee.qvm_codegen', 'QvmCode')
    tables = ('_string_literals', '_data', '_globals')
    n = 0
    for name, m in sorted(cls.methods.items()):
        reads_instrs = any(isinstance(x, ast.Attribute) and
                           x.attr == '_instrs' and
                           isinstance(x.ctx, ast.Load)
                           for x in ast.walk(m.node))
        writes = [(kind, path, line, text) for kind, root, path, line, text
                  in effects.writes(m.node)
                  if root == 'self' and path.split('.')[0] in tables]
        n += 1
        construct = f'{m.file}:QvmCode.{name}'
        ctx.instance(rule, construct, nontrivial=bool(writes),
                     sample={'reads_instrs': reads_instrs,
                             'writes': [w[3] for w in writes]})
        if reads_instrs and writes and name != '__init__':
            ctx.finding(rule, construct,
                        f'QvmCode.{name} reads the instruction list and '
                        f'writes {sorted({w[3] for w in writes})}: the '
                        f'section contents would depend on the instructions '
                        f'that survive optimisation, which are not the same '
                        f'with and without debug markers', m.file,
                        writes[0][2])
    ctx.floor('QvmCode methods examined', n, 10)


def run(ctx):
    ctx.clauses = [
        'the debug flag controls only pseudo-instruction emission and '
        'debug bookkeeping',
        'the assembler skips pseudo-ops without touching offsets',
        'the optimizer never removes or rewrites a pseudo-instruction',
        'acceptance is flag-independent',
    ]
    ctx.not_decided = ['behavioural equality beyond windows of three '
                       'instructions over the representative alphabet; the '
                       'RESUME exception']
    flag_slice(ctx)
    assembler_transparency(ctx)
    optimizer_window(ctx)
    acceptance(ctx)
    sections_not_derived_from_code(ctx)
    from .. import peephole
    peephole.check_markers(ctx, 'C08')
    from .. import gensim
    gensim.check_flag_equivalence(ctx, 'C08')
    return ('Control-dependence slice of the debug flag over the CFGs of '
            'qbee/codegen.py, qbee/qvm_codegen.py and Compiler.compile '
            '(what may execute only with or only without debug info), '
            'per-pseudo-op path evaluation of the assembler loop, and a '
            'three-slot symbolic window over QvmCode.optimize that tracks '
            'index shifts of deletions. Does not decide behavioural '
            'equality of differently optimised windows. Also: sections 1-3 are never derived from the instruction list; optimised code with statement-boundary markers in the gaps of a window behaves like the optimised code without them (windows of <= 3 instructions, compared on the CPU handlers).')