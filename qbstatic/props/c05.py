"""C05 -- static errors are rejected with a located diagnostic."""
import ast

from .. import registries as R
from .. import obligations as O
from ..astutil import dotted, const, unparse, walk_shallow, kwarg, ancestors
from .. import pat
from ..cfg import build_cfg, repo_noreturn
from ..model import AnalysisError
from .c02 import level_independence

HELPER_DISCHARGE = {
    # helper generator function -> (module, pass function, fragment that
    # must occur in an `if ...: raise CompileError` test there)
    'gen_lvalue_ref': ('qbee.compiler', 'Pass2.process_lvalue_pre',
                       '.type.is_numeric', 'array indices'),
    'gen_code_for_args': ('qbee.compiler',
                          'CompilationUnit.perform_argument_matching',
                          '.type.is_coercible_to(',
                          'call arguments'),
    'gen_static_array_init': ('qbee.compiler', 'Pass2.process_dim_pre',
                              'bound.type.is_numeric', 'array bounds'),
}


def no_dead_checks(ctx):
    repo = ctx.repo
    rule = 'C05.no-dead-pass-handler'
    ctx.rule(rule, 'every process_<x>_{pre,post} method of a pass names an '
             'existing node type (the dispatcher silently skips unknown '
             'names, so a misspelt handler is a check that never runs)')
    R.check_name_derivation(repo)
    names = set()
    for ci in R.node_classes(repo):
        nn = R.node_name(repo, ci)
        if nn:
            names.add(R.handler_name(nn))
    hs = R.pass_handlers(repo)
    ctx.floor('pass handlers', len(hs), 45)
    ctx.floor('node classes', len(names), 80)
    for pcls, nn, which, f in hs:
        construct = f'{f.file}:{pcls}.{f.name}'
        ctx.instance(rule, construct, sample={'node': nn})
        if nn not in names:
            ctx.finding(rule, construct,
                        f'{pcls}.{f.name} matches no node type (known '
                        f'handler names are derived from node_name()): the '
                        f'check never runs', f.file, f.line)
    # the dispatcher derives the handler name the same way
    g = repo.func('qbee.compiler', 'CompilePass.get_node_compile_func')
    ok = pat.has("_T = node.node_name().lower().replace(' ', '_')",
                 g.node) and any(
        isinstance(j, ast.JoinedStr) and
        [v.value for v in j.values if isinstance(v, ast.Constant)] ==
        ['process_', '_'] for j in ast.walk(g.node))
    ctx.instance(rule, f'{g.file}:CompilePass.get_node_compile_func')
    if not ok:
        raise AnalysisError('CompilePass.get_node_compile_func changed; the '
                            'handler-name derivation of the model must be '
                            'revisited')
    c = repo.func('qbee.compiler', 'CompilePass._check_compile_methods')
    if '_compile_' in unparse(c.node):
        ctx.observe('CompilePass._check_compile_methods looks for '
                    '_compile_* methods, which do not exist: the '
                    "repository's own handler-name sanity check is vacuous")


def located_diagnostics(ctx):
    repo = ctx.repo
    rule = 'C05.diagnostic-is-located'
    ctx.rule(rule, 'every CompileError construction passes node= or '
             'loc_start=, and the node is not one synthesised in the same '
             'function (synthesised nodes carry no position); every '
             'SyntaxError construction passes a location derived from '
             'loc / line_loc / .loc_start / .loc')
    node_names = {c.name for c in R.node_classes(repo)}
    n_ce = n_se = 0
    for f in repo.all_functions():
        if not f.module.name.startswith('qbee.'):
            continue
        fresh = {}
        for s in walk_shallow(f.node):
            if isinstance(s, ast.Assign) and len(s.targets) == 1 and \
                    isinstance(s.targets[0], ast.Name) and \
                    isinstance(s.value, ast.Call) and \
                    (dotted(s.value.func) or '').split('.')[-1] in \
                    node_names:
                fresh[s.targets[0].id] = s
        for c in walk_shallow(f.node):
            if not isinstance(c, ast.Call):
                continue
            d = dotted(c.func)
            if d == 'CompileError':
                n_ce += 1
                node_kw = kwarg(c, 'node')
                loc_kw = kwarg(c, 'loc_start')
                code = unparse(c.args[0]) if c.args else '?'
                construct = (f'{f.file}:{f.qualname}:CompileError({code})'
                             f'#{_ordinal(f, c)}')
                ctx.instance(rule, construct,
                             sample={'node': unparse(node_kw)
                                     if node_kw is not None else None})
                if node_kw is None and loc_kw is None:
                    ctx.finding(rule, construct,
                                f'CompileError({code}) in {f.qualname} '
                                f'carries neither node= nor loc_start=: the '
                                f'command line cannot display it '
                                f'(display_with_context asserts a position)',
                                f.file, c.lineno)
                elif node_kw is not None and isinstance(node_kw, ast.Name) \
                        and node_kw.id in fresh:
                    # located if loc_start is copied onto it before raise
                    copied = any(
                        isinstance(s, ast.Assign) and
                        dotted(s.targets[0]) == f'{node_kw.id}.loc_start'
                        for s in walk_shallow(f.node))
                    if not copied:
                        ctx.finding(rule, construct,
                                    f'CompileError({code}) in {f.qualname} '
                                    f'is located at {node_kw.id}, a node '
                                    f'constructed in this function with no '
                                    f'source position', f.file, c.lineno)
                elif isinstance(node_kw, ast.Constant) and \
                        node_kw.value is None and loc_kw is None:
                    ctx.finding(rule, construct,
                                f'CompileError({code}) passes node=None',
                                f.file, c.lineno)
            elif d == 'SyntaxError' and f.module.name != 'qbee.exceptions':
                n_se += 1
                loc = kwarg(c, 'loc') or (c.args[0] if c.args else None)
                construct = (f'{f.file}:{f.qualname}:SyntaxError'
                             f'#{_ordinal(f, c)}')
                t = unparse(loc) if loc is not None else None
                ctx.instance(rule, construct, sample={'loc': t})
                ok = loc is not None and _is_position(loc, f)
                if not ok:
                    ctx.finding(rule, construct,
                                f'SyntaxError in {f.qualname} is constructed '
                                f'with location {t!r}, which is not derived '
                                f'from a parse position', f.file, c.lineno)
    ctx.floor('CompileError constructions', n_ce, 85)
    ctx.floor('SyntaxError constructions', n_se, 12)
    # main displays e.loc_start
    m = repo.func('qbee.main', 'main')
    ok = any(isinstance(h, ast.ExceptHandler) and h.name and
             isinstance(h.type, ast.Tuple) and
             {dotted(e) for e in h.type.elts} ==
             {'SyntaxError', 'CompileError'} and any(
                 isinstance(c, ast.Call) and any(
                     k.arg == 'loc_start' and
                     unparse(k.value) == f'{h.name}.loc_start'
                     for k in c.keywords) for c in ast.walk(h))
             for h in ast.walk(m.node))
    ctx.instance(rule, f'{m.file}:main:handler')
    if not ok:
        ctx.finding(rule, f'{m.file}:main:handler',
                    'the command line no longer catches SyntaxError and '
                    'CompileError and displays e.loc_start', m.file, m.line)


def _is_position(e, f):
    """Is e derived from a parse position: the `loc` parameter of a parse
    action, an attribute .loc/.loc_start, an int accumulator initialised
    to 0 and advanced by len(...), or a sum of such."""
    if isinstance(e, ast.BinOp) and isinstance(e.op, ast.Add):
        return _is_position(e.left, f) and _is_position(e.right, f)
    if isinstance(e, ast.Attribute):
        return e.attr in ('loc', 'loc_start')
    if isinstance(e, ast.Name):
        params = [a.arg for a in f.node.args.args]
        if e.id in params:
            return len(params) == 3 and params.index(e.id) == 1
        from ..astutil import local_defs
        ds = local_defs(f.node).get(e.id, [])
        kinds = {k for k, _ in ds}
        if ds and kinds <= {'assign', 'aug'}:
            return all(
                (k == 'assign' and isinstance(v, ast.Constant) and
                 v.value == 0) or
                (k == 'aug' and 'len(' in unparse(v))
                for k, v in ds)
    return False


def _ordinal(f, call):
    k = 0
    for c in walk_shallow(f.node):
        if isinstance(c, ast.Call) and dotted(c.func) == dotted(call.func):
            k += 1
            if c is call:
                return k
    return 0


def type_obligations(ctx, pid='C05'):
    repo = ctx.repo
    rule = f'{pid}.type-obligation-discharged'
    ctx.rule(rule, 'for every child expression a generator converts to a '
             'numeric type (gen_code_for_conv / explicit conv) some pass '
             'handler of that node class tests the child\'s type and raises '
             'CompileError; otherwise an ill-typed program is accepted and '
             'the assembler meets a non-existent conv instruction')
    obs = O.generator_obligations(repo)
    ctx.floor('conversion obligations', len(obs), 45)
    res = O.discharge(repo, obs)
    seen = set()
    for (g, cname, child, req, line, how), found in res:
        construct = f'{g.file}:{g.qualname}:{child}'
        if construct in seen:
            continue
        seen.add(construct)
        ctx.instance(rule, construct,
                     sample={'node': cname, 'child': child, 'requires': req,
                             'discharged_by': f'{found[0].qualname}: '
                             f'{found[1][:60]}' if found else None})
        if not found:
            ctx.finding(rule, construct,
                        f'{g.qualname} converts {child} ({how}) but no pass '
                        f'handler of {cname} checks its type: e.g. a STRING '
                        f'operand is accepted and code generation emits a '
                        f'non-existent conv$ instruction (KeyError in the '
                        f'assembler)', g.file, line)
    # helpers
    m = repo.module('qbee.qvm_codegen')
    for hname, (mod, qn, frag, what) in HELPER_DISCHARGE.items():
        h = m.functions.get(hname)
        if h is None:
            raise AnalysisError(f'anchor vanished: helper {hname}')
        n_conv = sum(1 for c in ast.walk(h.node) if isinstance(c, ast.Call)
                     and dotted(c.func) == 'gen_code_for_conv')
        p = repo.func(mod, qn)
        ok = False
        for n in ast.walk(p.node):
            if isinstance(n, ast.If) and any(isinstance(s, ast.Raise)
                                             for s in n.body):
                t = unparse(n.test)
                if frag in t or (hname == 'gen_static_array_init' and
                                 '.type.is_numeric' in t and
                                 'bound' in t):
                    ok = True
        construct = f'{h.file}:{hname}:{what}'
        ctx.instance(rule, construct, sample={'conversions': n_conv,
                                              'checked_in': qn,
                                              'discharged': ok})
        if n_conv and not ok:
            ctx.finding(rule, construct,
                        f'{hname} converts {what} to a numeric type but '
                        f'{qn} has no type test for them', h.file, h.line)


def label_checks(ctx):
    repo = ctx.repo
    rule = 'C05.sibling-label-checks-agree'
    ctx.rule(rule, 'the handlers of GOTO, GOSUB, RETURN <label>, RESTORE '
             '<label> apply the same two tests (label defined at all; '
             'defined in the required routine) and raise LABEL_NOT_DEFINED; '
             'ON ERROR GOTO requires a module-level label; duplicate labels '
             'and line numbers raise DUPLICATE_LABEL')
    sib = {}
    for hn in ('process_goto_pre', 'process_gosub_pre', 'process_return_pre',
               'process_restore_pre', 'process_on_error_pre'):
        f = repo.func('qbee.compiler', f'Pass2.{hn}')
        tests = []
        for n in ast.walk(f.node):
            if isinstance(n, ast.If) and any(
                    isinstance(s, ast.Raise) and
                    'LABEL_NOT_DEFINED' in unparse(s) for s in n.body):
                tests.append(unparse(n.test))
        sib[hn] = (f, tests)
    want = ['node.canonical_target not in self.compilation.all_labels',
            'node.canonical_target not in node.parent_routine.labels']
    for hn, (f, tests) in sib.items():
        construct = f'{f.file}:Pass2.{hn}'
        ctx.instance(rule, construct, sample={'tests': tests})
        if hn == 'process_on_error_pre':
            w = ['node.canonical_goto_label not in '
                 'self.compilation.all_labels',
                 'node.canonical_goto_label not in '
                 'self.compilation.main_routine.labels']
        else:
            w = want
        if tests != w:
            ctx.finding(rule, construct,
                        f'{hn} raises LABEL_NOT_DEFINED under {tests}; its '
                        f'siblings use {w}', f.file, f.line)
    for hn, key in (('process_label_pre', 'node.name'),
                    ('process_lineno_pre', 'node.canonical_name')):
        f = repo.func('qbee.compiler', f'Pass1.{hn}')
        tests = [unparse(n.test) for n in ast.walk(f.node)
                 if isinstance(n, ast.If) and any(
                     isinstance(s, ast.Raise) and
                     'DUPLICATE_LABEL' in unparse(s) for s in n.body)]
        adds = [unparse(c) for c in ast.walk(f.node)
                if isinstance(c, ast.Call) and
                (dotted(c.func) or '').endswith('all_labels.add')]
        construct = f'{f.file}:Pass1.{hn}'
        ctx.instance(rule, construct, sample={'tests': tests, 'adds': adds})
        if tests != [f'{key} in self.compilation.all_labels'] or \
                adds != [f'self.compilation.all_labels.add({key})']:
            ctx.finding(rule, construct,
                        f'{hn}: duplicate test {tests} / registration '
                        f'{adds} do not use the same key {key}', f.file,
                        f.line)


def catalogue(ctx):
    repo = ctx.repo
    rule = 'C05.every-error-category-is-raised'
    ctx.rule(rule, 'every ErrorCode member named by a static rule is raised '
             'by some check')
    codes = R.enum(repo, 'qbee.exceptions', 'ErrorCode')
    ctx.floor('ErrorCode members', len(codes), 19)
    used = set()
    for m in repo.modules.values():
        if not m.name.startswith('qbee.'):
            continue
        for n in ast.walk(m.tree):
            if isinstance(n, ast.Call) and dotted(n.func) == 'CompileError' \
                    and n.args:
                d = dotted(n.args[0]) or ''
                used.add(d.split('.')[-1])
    for c in codes:
        ctx.instance(rule, f'qbee/exceptions.py:ErrorCode.{c}',
                     sample={'raised': c in used})
        if c not in used:
            ctx.observe(f'ErrorCode.{c} is never raised')
    required = {'TYPE_MISMATCH', 'DUPLICATE_LABEL', 'DUPLICATE_DEFINITION',
                'INVALID_EXIT', 'LABEL_NOT_DEFINED', 'ELSE_WITHOUT_IF',
                'SUBPROGRAM_NOT_FOUND', 'ARGUMENT_COUNT_MISMATCH',
                'ELEMENT_NOT_DEFINED', 'WRONG_NUMBER_OF_DIMENSIONS',
                'INVALID_CONSTANT', 'TYPE_NOT_DEFINED', 'BLOCK_MISMATCH'}
    for c in sorted(required):
        if c not in used:
            ctx.finding(rule, f'qbee/exceptions.py:ErrorCode.{c}',
                        f'no check raises ErrorCode.{c} any more: the static '
                        f'rule it reports is no longer enforced',
                        'qbee/exceptions.py', 1)


def block_matching(ctx):
    repo = ctx.repo
    rule = 'C05.block-matching-outcomes'
    ctx.rule(rule, 'every block start class has a block class; '
             'parse_string raises a located SyntaxError for an unopened '
             'end, a mismatched end (Block.create) and an unclosed start')
    blocks = R.block_classes(repo)
    ctx.floor('block classes', len(blocks), 8)
    stmt_mod = repo.module('qbee.stmt')
    for bname, (start, end, ci) in blocks.items():
        ctx.instance(rule, f'{ci.file}:{bname}', sample={'start': start,
                                                         'end': end})
        for cname in (start, end):
            if cname not in stmt_mod.classes:
                ctx.finding(rule, f'{ci.file}:{bname}:{cname}',
                            f'{bname} names {cname}, which is not a '
                            f'statement class', ci.file, ci.line)
        if 'create_block' not in ci.methods:
            ctx.finding(rule, f'{ci.file}:{bname}:create_block',
                        f'{bname} has no create_block', ci.file, ci.line)
    ps = repo.func('qbee.parser', 'parse_string')
    cfg = build_cfg(ps.node, repo_noreturn)
    raises = [n for n in cfg.nodes if n.kind == 'stmt' and
              isinstance(n.ast, ast.Raise) and
              'SyntaxError' in unparse(n.ast)]
    conds = {}
    for r in raises:
        cs = [(unparse(t.ast.test), lab) for t, lab in cfg.conditions(r)]
        conds[r.line] = cs
    # the stack of open blocks: the list that start statements are
    # appended to
    stack = None
    for c in ast.walk(ps.node):
        if isinstance(c, ast.Call) and isinstance(c.func, ast.Attribute) \
                and c.func.attr == 'append' and c.args and \
                isinstance(c.args[0], ast.Tuple) and \
                isinstance(c.func.value, ast.Name):
            stack = c.func.value.id
    if stack is None:
        raise AnalysisError('anchor vanished: open-block stack in '
                            'parse_string')
    unopened = any((f'not {stack}', 'true') in cs
                   for cs in conds.values())
    unclosed = any((stack, 'true') in cs and
                   not any('isinstance' in t for t, _ in cs)
                   for cs in conds.values())
    ctx.instance(rule, f'{ps.file}:parse_string',
                 sample={'raise_sites': conds})
    if not unopened:
        ctx.finding(rule, f'{ps.file}:parse_string:unopened-end',
                    'a block end without an open block no longer raises '
                    'SyntaxError', ps.file, ps.line)
    if not unclosed:
        ctx.finding(rule, f'{ps.file}:parse_string:unclosed-start',
                    'an unclosed block at end of input no longer raises '
                    'SyntaxError', ps.file, ps.line)
    # positions raised inside a line (pyparsing errors and SyntaxError of
    # parse actions) are line-relative: both must be shifted by the line
    # offset
    for exc, attr in (('ParseException', 'loc'), ('SyntaxError',
                                                  'loc_start')):
        ok = False
        for h in ast.walk(ps.node):
            if isinstance(h, ast.ExceptHandler) and h.name and \
                    exc in unparse(h.type):
                ok = pat.has(f'raise SyntaxError(..., loc=_L + '
                             f'{h.name}.{attr})', h)
                break
        ctx.instance(rule, f'{ps.file}:parse_string:rewrap:{exc}')
        if not ok:
            ctx.finding(rule, f'{ps.file}:parse_string:rewrap:{exc}',
                        f'parse_string does not re-raise {exc} from a line '
                        f'with the line offset added to its position: the '
                        f'diagnostic would point into the first line',
                        ps.file, ps.line)
    bc = repo.func('qbee.stmt', 'Block.create')
    ok = pat.has('if not isinstance(end_stmt, __):\n'
                 '    raise SyntaxError(...)', bc.node)
    ctx.instance(rule, f'{bc.file}:Block.create')
    if not ok:
        ctx.finding(rule, f'{bc.file}:Block.create:mismatch',
                    'a mismatched block terminator no longer raises '
                    'SyntaxError', bc.file, bc.line)
    # misplaced EXIT / ELSE
    for hn, code in (('Pass1.process_exit_sub_pre', 'INVALID_EXIT'),
                     ('Pass1.process_exit_function_pre', 'INVALID_EXIT'),
                     ('Pass1.process_exit_do_pre', 'INVALID_EXIT'),
                     ('Pass1.process_exit_for_pre', 'INVALID_EXIT'),
                     ('Pass1.process_else_pre', 'ELSE_WITHOUT_IF'),
                     ('Pass1.process_else_if_pre', 'ELSE_WITHOUT_IF')):
        f = repo.func('qbee.compiler', hn)
        ok = any(isinstance(n, ast.If) and any(
            isinstance(s, ast.Raise) and code in unparse(s)
            for s in n.body) for n in ast.walk(f.node))
        ctx.instance(rule, f'{f.file}:{hn}')
        if not ok:
            ctx.finding(rule, f'{f.file}:{hn}',
                        f'{hn} no longer raises {code} under a test',
                        f.file, f.line)


def literal_checks(ctx):
    repo = ctx.repo
    rule = 'C05.illegal-literal-rejected'
    ctx.rule(rule, 'NumericLiteral.parse raises ValueError for values '
             'outside INTEGER/LONG/SINGLE range and parse_num_literal '
             'converts ValueError into a located SyntaxError')
    f = repo.func('qbee.expr', 'NumericLiteral.parse')
    txt = unparse(f.node)
    for frag, what in (("if _V < -32768 or _V > 32767:\n    raise ValueError(...)", 'INTEGER'),
                       ("if _V < -2 ** 31 or _V > 2 ** 31 - 1:\n    raise ValueError(...)", 'LONG'),
                       ("try:\n    struct.pack('>f', _V)\nexcept OverflowError:\n    raise ValueError(...)", 'SINGLE')):
        ctx.instance(rule, f'{f.file}:NumericLiteral.parse:{what}')
        if not pat.has(frag, f.node):
            ctx.finding(rule, f'{f.file}:NumericLiteral.parse:{what}',
                        f'range check for {what} literals not found',
                        f.file, f.line)
    g = repo.func('qbee.grammar', 'parse_num_literal')
    ok = False
    for n in ast.walk(g.node):
        if isinstance(n, ast.Try):
            for h in n.handlers:
                if dotted(h.type) == 'ValueError' and \
                        pat.has('raise SyntaxError(...)', h):
                    ok = True
    ctx.instance(rule, f'{g.file}:parse_num_literal')
    if not ok:
        ctx.finding(rule, f'{g.file}:parse_num_literal',
                    'ValueError from NumericLiteral.parse is no longer '
                    'converted into SyntaxError(loc, ...)', g.file, g.line)
    c = repo.func('qbee.compiler', 'Pass2.process_const_pre')
    ok = 'not node.value.is_const' in unparse(c.node) and \
        'INVALID_CONSTANT' in unparse(c.node)
    ctx.instance(rule, f'{c.file}:Pass2.process_const_pre')
    if not ok:
        ctx.finding(rule, f'{c.file}:Pass2.process_const_pre',
                    'non-constant CONST is no longer rejected', c.file,
                    c.line)


def register_after_validation(ctx):
    """A definition (type, routine, constant, variable) becomes visible in
    the compilation tables only after its own validation: a check that runs
    after the registration sees the definition itself, so e.g. a TYPE whose
    field is of that same type is no longer an undefined type.  All six
    registering handlers of the pinned tree follow this order."""
    from ..cfg import build_cfg, repo_noreturn
    repo = ctx.repo
    rule = 'C05.definitions-registered-after-their-validation'
    ctx.rule(rule, 'in every pass handler, no statement that can reject the '
             'program (raise CompileError, validate_decl, '
             'perform_argument_matching) is reachable, within the same loop '
             'iteration, after the handler has stored the definition into a '
             'self.compilation table')
    n = 0
    for pcls, h, which, f in R.pass_handlers(repo):
        cfg = build_cfg(f.node, repo_noreturn)
        regs = [x for x in cfg.nodes if x.ast is not None and
                x.kind == 'stmt' and isinstance(x.ast, ast.Assign) and
                isinstance(x.ast.targets[0], ast.Subscript) and
                (dotted(x.ast.targets[0].value) or '').startswith(
                    'self.compilation.')]
        if not regs:
            continue
        raisers = [x for x in cfg.nodes if x.ast is not None and (
            isinstance(x.ast, ast.Raise) or (
                isinstance(x.ast, ast.stmt) and
                not isinstance(x.ast, (ast.For, ast.While, ast.If,
                                       ast.Try, ast.With)) and
                any(isinstance(c, ast.Call) and
                    (dotted(c.func) or '').split('.')[-1] in (
                        'validate_decl', 'perform_argument_matching')
                    for c in ast.walk(x.ast))))]
        loops = [x for x in cfg.nodes if x.kind == 'for']
        for r in regs:
            n += 1
            # do not go round a loop that contains the registration (the
            # next iteration validates the next definition)
            inside = [l for l in loops if any(
                y is r.ast for b in l.ast.body for y in ast.walk(b))]
            after = cfg.reachable(r, blocked_nodes=inside)
            bad = [x for x in raisers if x in after and x is not r]
            construct = (f'{f.file}:{f.qualname}:'
                         f'{dotted(r.ast.targets[0].value)}')
            ctx.instance(rule, construct, sample={'checks_after': len(bad)})
            if bad:
                ctx.finding(rule, construct,
                            f'{f.qualname} stores into '
                            f'{dotted(r.ast.targets[0].value)} and can still '
                            f'reject afterwards '
                            f'(`{unparse(bad[0].ast)[:50]}`): the check '
                            f'already sees the definition being checked '
                            f'(e.g. a self-referential TYPE is accepted)',
                            f.file, r.line)
    ctx.floor('table registrations in pass handlers', n, 5)


def run(ctx):
    ctx.clauses = [
        'no dead pass handlers', 'every diagnostic is located',
        'type obligations induced by the generators are discharged by a '
        'pass', 'sibling label checks agree', 'error categories raised',
        'block matching outcomes', 'literal range checks',
        'passes independent of optimisation level / debug flag',
        'child_fields lists every node-valued attribute (the checking '
        'passes reach every statement)',
    ]
    ctx.not_decided = ['that the reported line is the right line for every '
                       'nesting; completeness of the rule catalogue beyond '
                       'the obligations the generators induce']
    no_dead_checks(ctx)
    located_diagnostics(ctx)
    type_obligations(ctx)
    label_checks(ctx)
    catalogue(ctx)
    block_matching(ctx)
    literal_checks(ctx)
    level_independence(ctx, 'C05')
    register_after_validation(ctx)
    from .. import grammar_shapes
    grammar_shapes.check_child_fields(ctx, 'C05')
    from .. import gensim
    gensim.check_exit_admission(ctx, 'C05')
    return ('Table agreement between node names and pass handler names; a '
            'located-ness rule over all CompileError/SyntaxError '
            'constructions; obligation/discharge analysis between code '
            'generators and pass handlers; sibling agreement of the label '
            'checks; CFG path conditions of the three block-matching '
            'outcomes in parse_string. Does not decide that reported lines '
            'are the right ones. Also: child_fields completeness (from interpreting the parse actions), admission of EXIT FOR/DO and whole-array arguments decided by interpreting the pass handlers on abstract nodes, definitions registered only after their validation.')