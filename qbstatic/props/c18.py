"""C18 -- INPUT assigns only well-typed values and re-prompts on bad lines."""
import ast

from .. import registries as R
from .. import proto
from ..astutil import dotted, const, unparse, walk_shallow
from ..cfg import build_cfg, repo_noreturn
from ..model import AnalysisError
from .. import pat
from .c02 import _bounds_from_can_hold


def _push_vars(repo):
    f = repo.func('qvm.machine', 'TerminalDevice._exec_input')
    pv = None
    for n in ast.walk(f.node):
        if isinstance(n, ast.FunctionDef) and n is not f.node:
            pv = n
    if pv is None:
        raise AnalysisError('anchor vanished: push_vars in _exec_input')
    return f, pv


def type_id_protocol(ctx, pid, fn, fnode, var, construct_prefix):
    repo = ctx.repo
    rule = f'{pid}.type-id-protocol'
    ctx.rule(rule, 'the numeric type ids pushed by the code generator '
             '(Type.type_id = BuiltinType value) are exactly the ids the '
             'device dispatches on, and each arm pushes the CellType of the '
             'same name')
    bt = R.enum(repo, 'qbee.expr', 'BuiltinType')
    ct = R.enum(repo, 'qvm.cell', 'CellType')
    ids = {v: k for k, v in bt.items()
           if k in ('INTEGER', 'LONG', 'SINGLE', 'DOUBLE', 'STRING')}
    if len(ids) != 5:
        raise AnalysisError('anchor vanished: BuiltinType members')
    tid = repo.func('qbee.expr', 'Type.type_id')
    ok = any(isinstance(s, ast.Return) and
             unparse(s.value) == 'self._type.value'
             for s in ast.walk(tid.node))
    ctx.instance(rule, f'{tid.file}:Type.type_id')
    if not ok:
        ctx.finding(rule, f'{tid.file}:Type.type_id',
                    'Type.type_id is no longer the BuiltinType value',
                    tid.file, tid.line)
    arms = proto.type_id_arms(fnode)
    for k, name in sorted(ids.items()):
        construct = f'{construct_prefix}[{k}:{name}]'
        ctx.instance(rule, construct, sample={'id': k, 'type': name,
                                              'arm_pushes': arms.get(k)})
        if k not in arms:
            ctx.finding(rule, construct,
                        f'type id {k} ({name}) is pushed by the generator '
                        f'but the device has no arm for it', fn.file,
                        fnode.lineno)
            continue
        bad = [p for p in arms[k] if p != name]
        if bad or not arms[k]:
            ctx.finding(rule, construct,
                        f'arm for type id {k} ({name}) pushes '
                        f'{arms[k] or "nothing"}', fn.file, fnode.lineno)
    # the range test of an arm is the one of the arm's own type
    ranges = proto.type_id_range_checks(fnode)
    for k, name in sorted(ids.items()):
        used = ranges.get(k) or []
        if used and name not in used:
            construct = f'{construct_prefix}[{k}:{name}]:range'
            ctx.instance(rule, construct, sample={'can_hold_of': used})
            ctx.finding(rule, construct,
                        f'the arm for type id {k} ({name}) tests the value '
                        f'with {used}.can_hold, the range of another type: '
                        f'a value outside {name} is accepted and the cell '
                        f'write traps instead of the field being rejected',
                        fn.file, fnode.lineno)
    for k in arms:
        if k not in ids:
            ctx.observe(f'{construct_prefix}: arm for id {k} which no '
                        f'builtin type has')


def arg_protocol(ctx):
    repo = ctx.repo
    rule = 'C18.argument-protocol'
    ctx.rule(rule, 'the sequence gen_input pushes (same-line flag, prompt, '
             'question flag, one type id per variable, count) is the '
             'reverse of the sequence _exec_input pops, type by type, and '
             'results are stored right to left')
    gens, _ = R.generators(repo)
    g = gens.get('InputStmt')
    if g is None:
        raise AnalysisError('anchor vanished: generator for InputStmt')
    f, pv = _push_vars(repo)
    es = proto.emit_sequence(g.node.body, fn=g.node)
    io_at = [i for i, e in enumerate(es) if e[0] == 'io']
    if not io_at:
        raise AnalysisError('anchor vanished: io in gen_input')
    before = es[:io_at[0]]
    after = es[io_at[0] + 1:]
    body = [s for s in f.node.body if s is not pv]
    ps = proto.pop_sequence(body, fn=f.node)

    def flat_push(items):
        out = []
        for it in items:
            if it[0] == 'push':
                out.append((it[1], it[2]))
            elif it[0] == 'loop':
                out.append(('loop', it[1], flat_push(it[2])))
        return out

    def flat_pop(items):
        out = []
        for it in items:
            if it[0] == 'pop':
                out.append((it[1], it[2]))
            elif it[0] == 'loop':
                out.append(('loop', it[1], flat_pop(it[2])))
        return out
    pushes = flat_push(before)
    pops = flat_pop(ps)
    construct = f'{g.file}:gen_input<->{f.file}:TerminalDevice._exec_input'
    ctx.instance(rule, construct, sample={'pushes': pushes, 'pops': pops})

    def types(seq):
        out = []
        for it in seq:
            if it[0] == 'loop':
                out.append(('loop', tuple(types(it[2]))))
            else:
                out.append(it[0])
        return out
    tp, tq = types(pushes), types(pops)
    if tp != list(reversed(tq)):
        ctx.finding(rule, construct,
                    f'gen_input pushes {tp} but _exec_input pops {tq} '
                    f'(must be the exact reverse)', g.file, g.line,
                    facts={'pushes': pushes, 'pops': pops})
    # count operand = len(var_list) and loop over the same list
    cnt = pushes[-1] if pushes else None
    loops = [p for p in pushes if p[0] == 'loop']
    ok = cnt and cnt[0] == 'INTEGER' and cnt[1] == 'len(node.var_list)' \
        and loops and loops[-1][1] == 'node.var_list' and \
        loops[-1][2] and loops[-1][2][0][1].endswith('.type.type_id')
    ctx.instance(rule, construct + ':count')
    if not ok:
        ctx.finding(rule, construct + ':count',
                    f'count operand {cnt} is not len(node.var_list) of the '
                    f'list the type ids are pushed for', g.file, g.line)
    # flags: -1/0 booleans
    flags = [p for p in pushes if p[0] == 'INTEGER' and (
        'node.same_line' in p[1] or 'node.prompt_question' in p[1])]
    ctx.instance(rule, construct + ':flags', sample={'flags': flags})
    if len(flags) != 2 or not all('-1 if' in p[1] and 'else 0' in p[1]
                                  for p in flags):
        ctx.finding(rule, construct + ':flags',
                    'same_line / prompt_question flags are not both pushed',
                    g.file, g.line)
    # results consumed by gen_lvalue_write in a loop over the same list;
    # push_vars pushes in reversed order so that the first variable is on
    # top
    w = [a for a in after if a[0] == 'loop' and
         any(x[0] == 'write' for x in a[2])]
    rev = any(isinstance(n, ast.For) and 'reversed(' in unparse(n.iter)
              for n in ast.walk(pv))
    fwd = bool(w) and w[0][1] == 'node.var_list'
    ctx.instance(rule, construct + ':store-order',
                 sample={'device_pushes_reversed': rev,
                         'generator_stores_forward': fwd})
    if not (rev and fwd):
        ctx.finding(rule, construct + ':store-order',
                    f'store order mismatch: device pushes reversed={rev}, '
                    f'generator stores over node.var_list forward={fwd}',
                    g.file, g.line)
    # prompt semantics: "? " printed iff prompt_question
    # the flag popped between the type ids and the prompt guards "? "
    ok = pat.has("if _Q:\n    self.impl.terminal_print('? ')", f.node)
    ctx.instance(rule, construct + ':question-mark')
    if not ok:
        ctx.finding(rule, construct + ':question-mark',
                    'the "? " suffix is not printed exactly under the '
                    'prompt_question flag', f.file, f.line)
    pa = repo.func('qbee.grammar', 'parse_input')
    ok = pat.has("_PQ = _SEP == ';'", pa.node) and \
        pat.has('_PQ = True', pa.node)
    ctx.instance(rule, f'{pa.file}:parse_input:question-flag')
    if not ok:
        ctx.finding(rule, f'{pa.file}:parse_input:question-flag',
                    'parse_input no longer sets prompt_question = (sep == '
                    '";") with default True', pa.file, pa.line)


def no_push_before_reject(ctx):
    repo = ctx.repo
    f, pv = _push_vars(repo)
    rule = 'C18.no-push-before-reject'
    ctx.rule(rule, 'in push_vars no path leads from a cpu.push(...) to a '
             '`return False` (a rejected line must leave nothing on the '
             'operand stack)')
    cfg = build_cfg(pv, repo_noreturn)
    pushes = [n for n in cfg.nodes if n.kind == 'stmt' and any(
        isinstance(c, ast.Call) and (dotted(c.func) or '').endswith(
            'cpu.push') for c in ast.walk(n.ast))]
    rejects = [n for n in cfg.nodes if n.kind == 'stmt' and
               isinstance(n.ast, ast.Return) and
               const(n.ast.value, 'x') is False]
    ctx.floor('push sites in push_vars', len(pushes), 1)
    ctx.floor('reject sites in push_vars', len(rejects), 1)
    bad = []
    for p in pushes:
        after = cfg.reachable_after(p)
        hit = [r for r in rejects if r in after]
        ctx.instance(rule, f'{f.file}:push_vars:push@{unparse(p.ast)[:40]}',
                     sample={'reaches_reject': [r.line for r in hit]})
        if hit:
            bad.append((p, hit))
    if bad:
        p, hit = bad[0]
        ctx.finding(rule,
                    f'{f.file}:TerminalDevice._exec_input.push_vars',
                    f'{len(bad)} push site(s) (first at line {p.line}) can be '
                    f'followed by `return False` (e.g. line {hit[0].line}) on '
                    f'a later field of the same line: values of a rejected '
                    f'response stay on the operand stack', f.file, p.line,
                    facts={'pushes': [x.line for x, _ in bad]})


def no_state_across_attempts(ctx):
    repo = ctx.repo
    f, pv = _push_vars(repo)
    rule = 'C18.no-state-survives-a-rejected-line'
    ctx.rule(rule, 'the per-line helper mutates only its own locals (and '
             'the operand stack after validation): a container it appends '
             'to must be created inside it, otherwise values converted from '
             'a rejected line survive into the next attempt')
    from .. import effects
    local = set()
    for n in ast.walk(pv):
        if isinstance(n, ast.Name) and isinstance(n.ctx, ast.Store):
            local.add(n.id)
    local |= {a.arg for a in pv.args.args}
    n_mut = 0
    for kind, root, path, line, text in effects.writes(pv, shallow=False):
        if root in ('self',):
            continue
        n_mut += 1
        construct = f'{f.file}:push_vars:{kind}:{path or "?"}'
        ctx.instance(rule, construct, sample={'root_is_local': root in local})
        if root not in local:
            ctx.finding(rule, f'{f.file}:TerminalDevice._exec_input.'
                        f'push_vars:nonlocal-state',
                        f'push_vars mutates {text}, which is defined '
                        f'outside it and therefore shared between attempts: '
                        f'fields converted from a rejected line are kept and '
                        f'pushed with the next accepted line', f.file, line)
    ctx.floor('mutations in push_vars', n_mut, 1)


def range_constants(ctx):
    repo = ctx.repo
    f, pv = _push_vars(repo)
    rule = 'C18.range-constants-agree'
    ctx.rule(rule, 'INTEGER/LONG bounds tested by push_vars equal the '
             'bounds Type.can_hold enforces for the cell; SINGLE/DOUBLE use '
             'Type.can_hold itself')
    bounds = _bounds_from_can_hold(repo)
    arms = {}
    for n in ast.walk(pv):
        if isinstance(n, ast.If) and isinstance(n.test, ast.Compare) and \
                dotted(n.test.left) == proto.int_dispatch_var(pv):
            arms[const(n.test.comparators[0])] = ast.Module(
                body=n.body, type_ignores=[])
            arms[const(n.test.comparators[0])].lineno = n.lineno

    def cval(e):
        try:
            return eval(compile(ast.Expression(e), '<c>', 'eval'),
                        {'__builtins__': {}})
        except Exception:
            return None
    for k, tname in ((1, 'INTEGER'), (2, 'LONG')):
        arm = arms.get(k)
        construct = f'{f.file}:push_vars[{tname}]:range'
        if arm is None:
            continue
        lo = hi = None
        for n in ast.walk(arm):
            if isinstance(n, ast.If) and isinstance(n.test, ast.BoolOp) and \
                    isinstance(n.test.op, ast.Or) and any(
                        isinstance(s, ast.Return) for s in n.body):
                for c in n.test.values:
                    if isinstance(c, ast.Compare) and \
                            isinstance(c.left, ast.Name):
                        v = cval(c.comparators[0])
                        if isinstance(c.ops[0], ast.Lt):
                            lo = v
                        elif isinstance(c.ops[0], ast.Gt):
                            hi = v
                        elif isinstance(c.ops[0], ast.GtE):
                            hi = v - 1
                        elif isinstance(c.ops[0], ast.LtE):
                            lo = v + 1
        ctx.instance(rule, construct, sample={'device': [lo, hi],
                                              'cell': bounds.get(tname)})
        if (lo, hi) != bounds.get(tname):
            ctx.finding(rule, construct,
                        f'push_vars accepts {tname} in [{lo}, {hi}] but the '
                        f'cell holds {bounds.get(tname)}', f.file,
                        arm.lineno)
    for k, tname in ((3, 'SINGLE'), (4, 'DOUBLE')):
        arm = arms.get(k)
        construct = f'{f.file}:push_vars[{tname}]:range'
        if arm is None:
            continue
        ok = pat.has(f'if not expr.Type.{tname}.can_hold(_V):\n'
                     f'    return False', arm)
        ctx.instance(rule, construct)
        if not ok:
            ctx.finding(rule, construct,
                        f'{tname} field is not range-checked with '
                        f'Type.{tname}.can_hold', f.file, arm.lineno)
    # each numeric arm rejects malformed text: conversion under
    # try/except ValueError -> return False
    rule2 = 'C18.malformed-number-rejected'
    ctx.rule(rule2, 'each numeric arm converts under try/except ValueError '
             'and rejects the line on failure')
    for k in (1, 2, 3, 4):
        arm = arms.get(k)
        if arm is None:
            continue
        ok = False
        for n in ast.walk(arm):
            if isinstance(n, ast.Try):
                for h in n.handlers:
                    if dotted(h.type) == 'ValueError' and any(
                            isinstance(s, ast.Return) and
                            const(s.value, 'x') is False for s in h.body):
                        ok = True
        ctx.instance(rule2, f'{f.file}:push_vars[{k}]:malformed')
        if not ok:
            ctx.finding(rule2, f'{f.file}:push_vars[{k}]:malformed',
                        f'arm {k} does not reject malformed numbers via '
                        f'except ValueError: return False', f.file,
                        arm.lineno)
    # field count
    ok = pat.has('if len(_A) != len(_B):\n    return False', pv)
    ctx.instance(rule2, f'{f.file}:push_vars:field-count')
    if not ok:
        ctx.finding(rule2, f'{f.file}:push_vars:field-count',
                    'push_vars does not reject a line whose field count '
                    'differs from the variable count', f.file, pv.lineno)


def builtin_targets(ctx):
    repo = ctx.repo
    rule = 'C18.only-builtin-targets'
    ctx.rule(rule, 'process_input_pre rejects INPUT targets whose type is '
             'not builtin (so type_id is one of the five ids)')
    p = repo.func('qbee.compiler', 'Pass2.process_input_pre')
    ok = False
    for n in ast.walk(p.node):
        pass
    ok = pat.has('for _L in node.var_list:\n'
                 '    if not _L.type.is_builtin:\n'
                 '        raise CompileError(...)', p.node)
    for n in []:
        if False:
            ok = True
    ctx.instance(rule, f'{p.file}:Pass2.process_input_pre')
    if not ok:
        ctx.finding(rule, f'{p.file}:Pass2.process_input_pre',
                    'non-builtin INPUT targets are no longer rejected',
                    p.file, p.line)


def retry_loop(ctx):
    repo = ctx.repo
    f, pv = _push_vars(repo)
    rule = 'C18.retry-loop'
    ctx.rule(rule, 'the INPUT loop prints the prompt at the start of every '
             'iteration, leaves only after push_vars succeeded, and every '
             'path back to the loop head prints "Redo from start"')
    loop = None
    for n in f.node.body:
        if isinstance(n, ast.While):
            loop = n
    if loop is None:
        raise AnalysisError('anchor vanished: retry loop of _exec_input')
    cfg = build_cfg(f.node, repo_noreturn)
    head = [n for n in cfg.nodes if n.ast is loop]
    if not head:
        raise AnalysisError('retry loop not in CFG')
    head = head[0]

    def is_call(n, name, argtext=None):
        if n.kind != 'stmt':
            return False
        for c in ast.walk(n.ast):
            if isinstance(c, ast.Call) and (dotted(c.func) or '') == name:
                if argtext is None or (c.args and
                                       argtext in unparse(c.args[0])):
                    return True
        return False
    inp = [n for n in cfg.nodes if is_call(n, 'self.impl.terminal_input')]
    prm = [n for n in cfg.nodes if is_call(n, 'self.impl.terminal_print',
                                           'prompt')]
    redo = [n for n in cfg.nodes if is_call(n, 'self.impl.terminal_print',
                                            'Redo from start')]
    brk = [n for n in cfg.nodes if n.kind == 'stmt' and
           isinstance(n.ast, ast.Break)]
    construct = f'{f.file}:TerminalDevice._exec_input:loop'
    ctx.instance(rule, construct, sample={'input': len(inp), 'prompt':
                                          len(prm), 'redo': len(redo),
                                          'break': len(brk)})
    if not (inp and prm and redo and brk):
        ctx.finding(rule, construct + ':elements',
                    f'loop lacks an element: input {len(inp)}, prompt '
                    f'{len(prm)}, redo {len(redo)}, break {len(brk)}',
                    f.file, loop.lineno)
        return
    # prompt before input on every path from head
    for i in inp:
        ok = i not in cfg.reachable(head, blocked_nodes=prm)
        ctx.instance(rule, construct + ':prompt-before-input')
        if not ok:
            ctx.finding(rule, construct + ':prompt-before-input',
                        'terminal_input is reachable from the loop head '
                        'without printing the prompt', f.file, i.line)
    # break only under success
    for b in brk:
        cs = [(unparse(t.ast.test), lab) for t, lab in cfg.conditions(b)]
        ctx.instance(rule, construct + ':break', sample={'conds': cs})
        succ = {name for name, ds in __import__(
            'qbstatic.astutil', fromlist=['x']).local_defs(f.node).items()
            if any(k == 'assign' and isinstance(v, ast.Call) and
                   isinstance(v.func, ast.Name) and v.func.id == pv.name
                   for k, v in ds)}
        if not any(t in succ and lab == 'true' for t, lab in cs):
            ctx.finding(rule, construct + ':break',
                        f'loop exit is guarded by {cs}, not by the success '
                        f'of push_vars', f.file, b.line)
    # success is the result of push_vars on the line just read
    # success = push_vars(<the line just read>, <the type ids>)
    ok = pat.has('_S = self.impl.terminal_input(__)\n'
                 f'_OK = {pv.name}(_S, __)', loop)
    ctx.instance(rule, construct + ':success-source')
    if not ok:
        ctx.finding(rule, construct + ':success-source',
                    'success is not push_vars(string, var_types)', f.file,
                    loop.lineno)
    # back edge passes through redo
    for i in inp:
        after = cfg.reachable(i, blocked_nodes=redo)
        ctx.instance(rule, construct + ':redo-on-retry')
        if head in after - {i} and any(
                (s is head) for n in after for s, lab in n.succ
                if lab == 'loop'):
            ctx.finding(rule, construct + ':redo-on-retry',
                        'the loop can iterate again without printing '
                        '"Redo from start"', f.file, i.line)


def input_syntax(ctx):
    """INPUT [;] ["prompt" {;|,}] var, ...: a leading semicolon keeps the
    cursor on the line, the separator after the prompt decides the question
    mark (`;` shows `? `, `,` does not; no prompt shows it), everything else
    is the variable list.  parse_input is interpreted on each of the eight
    token-list forms the rule can deliver."""
    import itertools
    from ..absint import (AbsObj, Interp, Closure, Env, Raised, Unmodelled,
                          PathEnd, explore)
    from ..grammar_shapes import Toks
    repo = ctx.repo
    rule = 'C18.input-syntax-decides-flags'
    ctx.rule(rule, 'parse_input, interpreted on every form of the INPUT '
             'statement (with/without the leading `;`, with/without a '
             'prompt, prompt followed by `;` or `,`), builds InputStmt with '
             'same_line = leading semicolon, prompt_question = no prompt or '
             'separator `;`, the prompt literal itself and the remaining '
             'tokens as the variable list')
    g = repo.module('qbee.grammar')
    f = g.functions.get('parse_input')
    if f is None:
        raise AnalysisError('anchor vanished: parse_input')

    class Lit(AbsObj):
        def __init__(self, v):
            self.value = v

        def getattr_(self, a, interp):
            if a == 'value':
                return self.value
            raise Unmodelled(f'literal.{a}')

        def eq_(self, other):
            return other is self

    class LitCls(AbsObj):
        is_callable = True

        def call_(self, args, kwargs, interp):
            return Lit(args[0] if args else '')

        def instancecheck_(self, x):
            return isinstance(x, Lit)

    class Var(AbsObj):
        def __init__(self, n):
            self.n = n

        def eq_(self, other):
            return other is self

        def __repr__(self):
            return self.n

    class Fn(AbsObj):
        is_callable = True

        def __init__(self, fn):
            self.fn = fn

        def call_(self, args, kwargs, interp):
            return self.fn(*args, **kwargs)

    class Hooks:
        def global_name(self, modname, name, interp):
            if name == 'StringLiteral':
                return LitCls()
            if name == 'InputStmt':
                return Fn(lambda *a: ('InputStmt',) + tuple(a))
            if name in ('logger', 'logging'):
                class Null(AbsObj):
                    def getattr_(self, a, interp):
                        return Fn(lambda *a, **k: None)
                return Null()
            raise KeyError(name)

        def on_unknown_call(self, f_, args, kwargs, node, interp):
            raise Unmodelled('unknown call')
    n = 0
    for lead, prompt, sep, nvars in itertools.product(
            (False, True), (False, True), (';', ','), (1, 2)):
        if not prompt and sep == ',':
            continue
        lit = Lit('p')
        vs = [Var(f'v{i}') for i in range(nvars)]
        toks = ([';'] if lead else []) + ([lit, sep] if prompt else []) + vs
        label = ('; ' if lead else '') + (f'"p"{sep} ' if prompt else '') + \
            ', '.join(v.n for v in vs)
        construct = f'{g.relpath}:parse_input:INPUT {label}'

        def run(oracle, toks=toks):
            interp = Interp(Hooks(), oracle)
            try:
                return ('ok', Closure(
                    f.node, Env(None, globals_='qbee.grammar'),
                    name='parse_input').call_([Toks(list(toks))], {},
                                              interp))
            except Raised as r:
                return ('raise', r.cls_name, str(r.value)[:60])
            except PathEnd as e:
                return ('end', str(e))
        try:
            res = [r for _, r in explore(run, 20)]
        except Unmodelled as u:
            ctx.observe(f'{construct}: not modelled ({u}); undecided')
            ctx.instance(rule, construct, nontrivial=False)
            continue
        n += 1
        ctx.instance(rule, construct)
        want_q = (not prompt) or sep == ';'
        for r in res:
            ok = r[0] == 'ok' and isinstance(r[1], tuple) and \
                len(r[1]) == 5
            if ok:
                _, same, pr, q, vl = r[1]
                vl = list(vl.items) if isinstance(vl, Toks) else list(vl)
                ok = same is lead and q is want_q and \
                    (pr is lit if prompt else
                     (isinstance(pr, Lit) and pr.value == '')) and \
                    len(vl) == nvars and all(a is b for a, b in zip(vl, vs))
            if not ok:
                got = r[1][1:4] if r[0] == 'ok' and isinstance(
                    r[1], tuple) else r
                ctx.finding(rule, construct,
                            f'INPUT {label}: parse_input builds '
                            f'(same_line, prompt, question, ...) = {got}; '
                            f'the statement means same_line={lead}, '
                            f'question mark={want_q}, {nvars} variable(s)',
                            g.relpath, f.line)
                break
    ctx.floor('INPUT statement forms interpreted', n, 10)


def run(ctx):
    ctx.clauses = [
        'argument protocol gen_input <-> _exec_input; type-id protocol',
        'a rejected line leaves nothing on the operand stack',
        'range constants agree with the cell types; malformed numbers and '
        'wrong field counts are rejected',
        'only builtin-typed targets',
        'retry loop re-prompts and exits only after success',
        'the prompt text does not steer the emitted code (emission '
        'interpreter, relational)',
    ]
    ctx.not_decided = ['which texts count as well-formed numbers '
                       '(int()/float() acceptance)']
    f, pv = _push_vars(ctx.repo)
    type_id_protocol(ctx, 'C18', f, pv, 'vtype',
                     f'{f.file}:push_vars')
    arg_protocol(ctx)
    no_push_before_reject(ctx)
    no_state_across_attempts(ctx)
    range_constants(ctx)
    builtin_targets(ctx)
    retry_loop(ctx)
    input_syntax(ctx)
    from .. import gensim
    gensim.check_input_prompt(ctx, 'C18')
    return ('Emitter/consumer protocol agreement between gen_input and '
            'TerminalDevice._exec_input (push and pop sequences extracted '
            'from the source), CFG typestate rule on push_vars (no push '
            'before a reject), agreement of the range constants with '
            'Type.can_hold, and CFG rules on the retry loop. Does not decide '
            'which texts are well-formed numbers. Also: parse_input interpreted on the eight forms of the statement; the prompt text does not steer the emitted code.')