"""C15 -- DATA / READ / RESTORE."""
import ast

from .. import pat, registries as R
from .. import proto
from ..astutil import dotted, const, unparse, walk_shallow
from ..cfg import build_cfg, repo_noreturn
from ..model import AnalysisError
from .. import pat
from .c18 import type_id_protocol


def read_protocol(ctx):
    repo = ctx.repo
    rule = 'C15.read-protocol'
    ctx.rule(rule, 'gen_read_stmt pushes one type id, performs data.read '
             'and stores the result into the variable, once per variable in '
             'list order; _exec_read pops exactly that id')
    gens, _ = R.generators(repo)
    g = gens.get('ReadStmt')
    if g is None:
        raise AnalysisError('anchor vanished: generator for ReadStmt')
    es = proto.emit_sequence(g.node.body, fn=g.node)
    construct = f'{g.file}:gen_read_stmt'
    ctx.instance(rule, construct, sample={'sequence': es})
    ok = len(es) == 1 and es[0][0] == 'loop' and \
        es[0][1] == 'node.var_list' and \
        [x[0] for x in es[0][2]] == ['push', 'io', 'write'] and \
        es[0][2][0][1:] == ('INTEGER',
                            '<<for:node.var_list>>.type.type_id') and \
        es[0][2][1][1:] == ('data', 'read') and \
        es[0][2][2][1] == '<<for:node.var_list>>'
    if not ok:
        ctx.finding(rule, construct,
                    f'READ emission is {es}; expected, per variable in list '
                    f'order: push% var.type.type_id; io data,read; store to '
                    f'var', g.file, g.line)
    r = repo.func('qvm.machine', 'DataDevice._exec_read')
    ps = proto.pop_sequence(r.node.body, fn=r.node)
    ctx.instance(rule, f'{r.file}:DataDevice._exec_read',
                 sample={'pops': ps})
    if [p[:2] for p in ps] != [('pop', 'INTEGER')]:
        ctx.finding(rule, f'{r.file}:DataDevice._exec_read',
                    f'_exec_read pops {ps}; expected one INTEGER type id',
                    r.file, r.line)
    return r


def restore_operand(ctx):
    repo = ctx.repo
    rule = 'C15.restore-operand-valid-part-index'
    ctx.rule(rule, 'every value gen_restore_stmt can push as the RESTORE '
             'operand is provably >= 0 (a negative list index does not '
             'raise in Python, so it would silently select a part from the '
             'end); plain RESTORE must rewind to part 0')
    gens, _ = R.generators(repo)
    g = gens.get('RestoreStmt')
    if g is None:
        raise AnalysisError('anchor vanished: generator for RestoreStmt')
    pushed = None
    for n in ast.walk(g.node):
        if isinstance(n, ast.Tuple) and n.elts and \
                const(n.elts[0]) == 'push%':
            pushed = n.elts[1]
    if pushed is None:
        raise AnalysisError('anchor vanished: push% in gen_restore_stmt')
    values = []
    if isinstance(pushed, ast.Name):
        for s in walk_shallow(g.node):
            if isinstance(s, ast.Assign) and \
                    dotted(s.targets[0]) == pushed.id:
                values.append(s)
    else:
        values = [ast.Assign(targets=[], value=pushed, lineno=pushed.lineno)]
    cfg = build_cfg(g.node, repo_noreturn)
    for s in values:
        v = s.value
        construct = f'{g.file}:gen_restore_stmt:operand={unparse(v)[:40]}'
        conds = []
        for n in cfg.nodes:
            if n.ast is s:
                conds = [(unparse(t.ast.test), lab)
                         for t, lab in cfg.conditions(n)]
        c = const(v)
        ctx.instance(rule, construct, sample={'value': unparse(v),
                                              'conditions': conds})
        if isinstance(c, int):
            plain = any(t == 'target' and lab == 'false' for t, lab in conds)
            if c < 0:
                ctx.finding(rule, f'{g.file}:gen_restore_stmt:plain-restore',
                            f'RESTORE without a label pushes part index {c}; '
                            f'DataDevice indexes module.data[{c}] (the LAST '
                            f'part) instead of rewinding to the first item',
                            g.file, s.lineno)
            elif plain and c != 0:
                ctx.finding(rule, f'{g.file}:gen_restore_stmt:plain-restore',
                            f'RESTORE without a label selects part {c}, not '
                            f'part 0', g.file, s.lineno)
        elif isinstance(v, ast.Call) and \
                (dotted(v.func) or '').endswith('get_data_label_index'):
            pass  # list.index() result is >= 0; totality is a C06 clause
        else:
            ctx.finding(rule, construct,
                        f'cannot show that RESTORE operand {unparse(v)} is a '
                        f'non-negative part index', g.file, s.lineno)
    # consumer: data_part := popped INTEGER, idx := 0
    r = repo.func('qvm.machine', 'DataDevice._exec_restore')
    ok = pat.has('_P = self.cpu.pop(CellType.INTEGER)\n'
                 'self.data_part = _P\nself.data_idx = 0', r.node)
    ctx.instance(rule, f'{r.file}:DataDevice._exec_restore')
    if not ok:
        ctx.finding(rule, f'{r.file}:DataDevice._exec_restore',
                    '_exec_restore no longer sets data_part to the popped '
                    'index and data_idx to 0', r.file, r.line)
    # label -> index uses the same key the data was registered under
    gi = repo.func('qbee.qvm_codegen', 'QvmCode.get_data_label_index')
    ok = pat.has('return list(self._data.keys()).index(label)', gi.node)
    ctx.instance(rule, f'{gi.file}:QvmCode.get_data_label_index')
    if not ok:
        ctx.finding(rule, f'{gi.file}:QvmCode.get_data_label_index',
                    'label index is no longer the position of the label in '
                    'the insertion-ordered data mapping', gi.file, gi.line)


def read_cursor(ctx, r):
    rule = 'C15.read-cursor-advance'
    ctx.rule(rule, '_exec_read reads data[part][idx], advances idx by one '
             'and moves to the next part when the part is exhausted; '
             'IndexError (past the last item) becomes a device error and '
             'conversion failures become BAD_ARG_TYPE')
    checks = {
        'reads-current': pat.has(
            'self.cpu.module.data[self.data_part][self.data_idx]', r.node),
        'advance': pat.has('self.data_idx += 1', r.node),
        'next-part': pat.has(
            'if self.data_idx >= len(self.cpu.module.data[self.data_part])'
            ':\n    self.data_idx = 0\n    self.data_part += 1', r.node),
        'exhausted-test': pat.has(
            'self.data_idx >= len(self.cpu.module.data[self.data_part])',
            r.node),
        'conversion-errors': any(
            isinstance(h, ast.ExceptHandler) and
            isinstance(h.type, ast.Tuple) and
            {dotted(e) for e in h.type.elts} >= {'ValueError'} and
            pat.has('self._device_error(...)', h)
            for h in ast.walk(r.node)),
    }
    for k, ok in checks.items():
        ctx.instance(rule, f'{r.file}:DataDevice._exec_read:{k}')
        if not ok:
            ctx.finding(rule, f'{r.file}:DataDevice._exec_read:{k}',
                        f'_exec_read: element "{k}" not found', r.file,
                        r.line)
    # advance happens after a successful push only (not on error paths)
    cfg = build_cfg(r.node, repo_noreturn)
    adv = [n for n in cfg.nodes if n.kind == 'stmt' and
           isinstance(n.ast, ast.AugAssign) and
           dotted(n.ast.target) == 'self.data_idx']
    pushes = [n for n in cfg.nodes if n.kind == 'stmt' and any(
        isinstance(c, ast.Call) and (dotted(c.func) or '').endswith(
            'cpu.push') for c in ast.walk(n.ast))]
    for a in adv:
        ok = cfg.must_pass(a, lambda x: x in pushes)
        ctx.instance(rule, f'{r.file}:DataDevice._exec_read:advance-after-'
                     f'push')
        if not ok:
            ctx.finding(rule, f'{r.file}:DataDevice._exec_read:advance-'
                        f'after-push', 'the read cursor can advance without '
                        'a value having been pushed', r.file, a.line)
    # empty items read as 0 / ''
    arms = {}
    for n in ast.walk(r.node):
        if isinstance(n, ast.If) and isinstance(n.test, ast.Compare) and \
                dotted(n.test.left) == proto.int_dispatch_var(r.node):
            arms[const(n.test.comparators[0])] = ast.Module(
                body=n.body, type_ignores=[])
    for k, dflt in ((1, '0'), (2, '0'), (3, '0.0'), (4, '0.0'), (5, "''")):
        ctx.instance(rule, f'{r.file}:DataDevice._exec_read:empty[{k}]')
        if k not in arms or not pat.has(
                f'{dflt} if _S == Empty.value else __', arms[k]):
            ctx.finding(rule, f'{r.file}:DataDevice._exec_read:empty[{k}]',
                        f'arm {k} does not read an empty item as its zero '
                        f'value', r.file, r.line)


def source_order(ctx):
    repo = ctx.repo
    rule = 'C15.source-order-preserved'
    ctx.rule(rule, 'DATA items are appended in tree-walk (source) order to '
             'an insertion-ordered mapping keyed by the preceding label and '
             'are iterated without reordering by init_code, __bytes__ and '
             'the loader')
    p = repo.func('qbee.compiler', 'Pass1.process_data_pre')
    ok = pat.has('self.compilation.data[self._last_label].extend('
                 'node.items)', p.node)
    ctx.instance(rule, f'{p.file}:Pass1.process_data_pre')
    if not ok:
        ctx.finding(rule, f'{p.file}:Pass1.process_data_pre',
                    'DATA items are not appended to data[last label] in '
                    'visit order', p.file, p.line)
    for lname in ('process_label_pre', 'process_lineno_pre'):
        f = repo.func('qbee.compiler', f'Pass1.{lname}')
        ok = pat.has('self._last_label = __.canonical_name', f.node)
        ctx.instance(rule, f'{f.file}:Pass1.{lname}')
        if not ok:
            ctx.finding(rule, f'{f.file}:Pass1.{lname}',
                        '_last_label is not the canonical name of the label '
                        '(RESTORE looks parts up by canonical target)',
                        f.file, f.line)
    # who may write _last_label: the label handlers (and __init__)
    for f in repo.all_functions():
        if f.module.name != 'qbee.compiler':
            continue
        for s_ in walk_shallow(f.node):
            if isinstance(s_, ast.Assign) and any(
                    dotted(t) == 'self._last_label' for t in s_.targets):
                c2 = f'{f.file}:{f.qualname}:writes-_last_label'
                ctx.instance(rule, c2)
                if f.qualname not in ('Pass1.__init__',
                                      'Pass1.process_label_pre',
                                      'Pass1.process_lineno_pre'):
                    ctx.finding(rule, c2,
                                f'{f.qualname} changes the label DATA is '
                                f'grouped under: DATA items after that point '
                                f'join another group and are read out of '
                                f'source order', f.file, s_.lineno)
    cu = repo.func('qbee.compiler', 'CompilationUnit.__init__')
    ok = pat.has('self.data = defaultdict(list)', cu.node)
    ctx.instance(rule, f'{cu.file}:CompilationUnit.__init__:data')
    if not ok:
        ctx.finding(rule, f'{cu.file}:CompilationUnit.__init__:data',
                    'compilation.data is no longer defaultdict(list)',
                    cu.file, cu.line)
    for mod, qn in (('qbee.qvm_codegen', 'QvmCodeGen.init_code'),
                    ('qbee.qvm_codegen', 'QvmCode.__bytes__'),
                    ('qbee.qvm_codegen', 'QvmCode.add_data'),
                    ('qvm.module', 'parse_data_section')):
        f = repo.func(mod, qn)
        bad = [unparse(c)[:50] for c in ast.walk(f.node)
               if isinstance(c, ast.Call) and dotted(c.func) in (
                   'sorted', 'set', 'reversed', 'frozenset') and
               'data' in unparse(c)]
        bad += [unparse(c)[:50] for c in ast.walk(f.node)
                if isinstance(c, ast.Call) and
                isinstance(c.func, ast.Attribute) and
                c.func.attr in ('sort', 'reverse', 'insert')]
        ctx.instance(rule, f'{f.file}:{qn}', sample={'reordering': bad})
        if bad:
            ctx.finding(rule, f'{f.file}:{qn}',
                        f'{qn} reorders DATA parts/items: {bad}', f.file,
                        f.line)
    ad = repo.func('qbee.qvm_codegen', 'QvmCode.add_data')
    ok = pat.has('self._data[_L].extend(_D)', ad.node)
    ctx.instance(rule, f'{ad.file}:QvmCode.add_data:extend')
    if not ok:
        ctx.finding(rule, f'{ad.file}:QvmCode.add_data:extend',
                    'add_data does not extend the part in order', ad.file,
                    ad.line)
    # toplevel key
    ic = repo.func('qbee.qvm_codegen', 'QvmCodeGen.init_code')
    ok = pat.has("if _L is None:\n    _L = '_toplevel_data'", ic.node)
    ctx.instance(rule, f'{ic.file}:QvmCodeGen.init_code:toplevel')
    if not ok:
        ctx.finding(rule, f'{ic.file}:QvmCodeGen.init_code:toplevel',
                    'DATA before any label is not registered under an '
                    'internal key', ic.file, ic.line)
    pd = repo.func('qbee.compiler', 'Pass1.process_data_pre')
    ok = 'ILLEGAL_IN_SUB' in unparse(pd.node)
    ctx.instance(rule, f'{pd.file}:Pass1.process_data_pre:module-level')
    if not ok:
        ctx.finding(rule, f'{pd.file}:Pass1.process_data_pre:module-level',
                    'DATA inside SUB/FUNCTION is no longer rejected',
                    pd.file, pd.line)


def quoted_verbatim(ctx):
    repo = ctx.repo
    rule = 'C15.quoted-items-kept-verbatim'
    ctx.rule(rule, 'in parse_data a strip()ped item is appended only on '
             'paths whose state is READING_UNQUOTED; quoted items are '
             'appended verbatim')
    f = repo.func('qbee.utils', 'parse_data')
    cfg = build_cfg(f.node, repo_noreturn)
    n = 0
    states = []
    for x in cfg.nodes:
        if x.kind != 'stmt':
            continue
        for c in ast.walk(x.ast):
            if isinstance(c, ast.Call) and isinstance(c.func, ast.Attribute)\
                    and c.func.attr == 'append' and c.args and \
                    isinstance(c.args[0], ast.Call) and \
                    isinstance(c.args[0].func, ast.Attribute) and \
                    c.args[0].func.attr == 'strip':
                n += 1
                conds = [(t.ast.test, lab) for t, lab in cfg.conditions(x)
                         if t.kind == 'test']
                eqs = [unparse(t.comparators[0]) for t, lab in conds
                       if lab == 'true' and isinstance(t, ast.Compare) and
                       len(t.ops) == 1 and isinstance(t.ops[0], ast.Eq) and
                       isinstance(t.comparators[0], ast.Name) and
                       isinstance(t.left, ast.Name)]
                states.append(eqs[0] if eqs else None)
                ok = bool(eqs)
                construct = f'{f.file}:parse_data:strip@{_ord(f.node, c)}'
                ctx.instance(rule, construct, sample={
                    'conds': [(unparse(t), lab) for t, lab in conds]})
                if not ok:
                    ctx.finding(rule, construct,
                                'parse_data appends a strip()ped item on a '
                                'path that is not restricted to one '
                                'scanner state (the unquoted-item state): a '
                                'quoted item can lose its blanks', f.file,
                                c.lineno)
    ctx.floor('strip() append sites in parse_data', n, 2)
    known = {s_ for s_ in states if s_}
    ctx.instance(rule, f'{f.file}:parse_data:strip-states',
                 sample={'states': sorted(known)})
    if len(known) > 1:
        ctx.finding(rule, f'{f.file}:parse_data:strip-states',
                    f'strip() is applied in more than one scanner state '
                    f'({sorted(known)})', f.file, f.line)


def _ord(fn, node):
    k = 0
    for c in ast.walk(fn):
        if isinstance(c, ast.Call) and isinstance(c.func, ast.Attribute) \
                and c.func.attr == 'append' and c.args and \
                isinstance(c.args[0], ast.Call) and \
                isinstance(c.args[0].func, ast.Attribute) and \
                c.args[0].func.attr == 'strip':
            k += 1
            if c is node:
                return k
    return 0


def cursor_wrap(ctx):
    """After the item index is advanced, the end-of-group test must run:
    otherwise the index is left past the end of a DATA group and the next
    READ reports `Out of data` although more DATA follows."""
    from ..cfg import build_cfg, repo_noreturn
    repo = ctx.repo
    rule = 'C15.cursor-advance-is-followed-by-the-end-of-group-test'
    ctx.rule(rule, 'in DataDevice._exec_read every path from an increment '
             'of the item index to the end of the handler passes through '
             'the test that compares the index with the length of the '
             'current group (and moves to the next group)')
    f = repo.func('qvm.machine', 'DataDevice._exec_read')
    cfg = build_cfg(f.node, repo_noreturn)
    incs = [n for n in cfg.nodes if n.kind == 'stmt' and
            isinstance(n.ast, ast.AugAssign) and
            isinstance(n.ast.op, ast.Add) and
            'data_idx' in unparse(n.ast.target)]
    tests = [n for n in cfg.nodes if n.kind == 'test' and
             'data_idx' in unparse(n.ast.test) and
             'len(' in unparse(n.ast.test)]
    if not incs:
        raise AnalysisError('anchor vanished: item index increment in '
                            '_exec_read')
    for k, a in enumerate(incs):
        construct = f'{f.file}:DataDevice._exec_read:advance[{k}]'
        ok = bool(tests) and cfg.must_pass(cfg.exit, lambda x: x in tests,
                                           start=a)
        ctx.instance(rule, construct, sample={'followed_by_test': ok})
        if not ok:
            ctx.finding(rule, construct,
                        'the item index is advanced on a path that returns '
                        'without the end-of-group test: after reading the '
                        'last item of a group that way the next READ fails '
                        'with Out of data although a later DATA group '
                        'exists', f.file, a.line)


def quoted_regexes(ctx):
    """Inside quotes a DATA item is taken verbatim.  The grammar has one
    regex for a closed quoted item and one for a quoted item whose closing
    quote is missing at the end of the line; what they accept between the
    quotes must be the same, line terminators aside."""
    try:
        import re._parser as sre_parse
    except ImportError:   # pragma: no cover
        import sre_parse
    repo = ctx.repo
    rule = 'C15.quoted-item-regexes-accept-the-same-text'
    ctx.rule(rule, 'every Regex of the grammar that starts with a double '
             'quote (DATA / string items) excludes, after the opening quote, '
             'only the quote itself and line terminators: a comma or a colon '
             'inside quotes is part of the item in the closed and in the '
             'unclosed form alike')
    g = repo.module('qbee.grammar')
    n = 0
    for name, v in sorted(g.assigns.items()):
        for c in ast.walk(v):
            if not (isinstance(c, ast.Call) and dotted(c.func) == 'Regex'
                    and c.args and isinstance(const(c.args[0]), str)):
                continue
            pat_ = const(c.args[0])
            try:
                items = list(sre_parse.parse(pat_))
            except Exception:
                continue
            if not items or items[0] != (sre_parse.LITERAL, 34):
                continue
            body = items[1] if len(items) > 1 else None
            if body is None or str(body[0]) not in ('MAX_REPEAT',
                                                    'MIN_REPEAT'):
                continue
            inner = list(body[1][2])
            excluded = None
            if len(inner) == 1 and str(inner[0][0]) == 'NOT_LITERAL':
                excluded = {inner[0][1]}
            elif len(inner) == 1 and str(inner[0][0]) == 'IN' and \
                    inner[0][1] and str(inner[0][1][0][0]) == 'NEGATE':
                excluded = set()
                for kind, val in inner[0][1][1:]:
                    if str(kind) == 'LITERAL':
                        excluded.add(val)
                    else:
                        excluded = None
                        break
            if excluded is None:
                continue
            n += 1
            construct = f'{g.relpath}:{name}:Regex'
            extra = sorted(chr(x) for x in excluded - {34, 10, 13})
            ctx.instance(rule, construct,
                         sample={'pattern': pat_, 'excluded': sorted(
                             chr(x) for x in excluded)})
            if extra:
                ctx.finding(rule, construct,
                            f'the quoted-item pattern {pat_!r} ({name}) '
                            f'also stops at {extra}: a quoted item that '
                            f'contains such a character is split or '
                            f'rejected instead of being taken verbatim',
                            g.relpath, c.lineno)
    ctx.floor('quoted-item regexes in the grammar', n, 2)


def run(ctx):
    ctx.clauses = [
        'type-id protocol between gen_read_stmt and _exec_read',
        'READ emission order and single INTEGER operand',
        'RESTORE operand is a valid non-negative part index',
        'read cursor advance / next part / error mapping / empty items',
        'source order preserved from Pass1 to the loader',
    ]
    ctx.not_decided = ['tokenizer behaviour on every DATA text; conversion '
                       'results (int()/float())']
    r = read_protocol(ctx)
    type_id_protocol(ctx, 'C15', r, r.node, None,
                     f'{r.file}:DataDevice._exec_read')
    restore_operand(ctx)
    read_cursor(ctx, r)
    source_order(ctx)
    quoted_verbatim(ctx)
    cursor_wrap(ctx)
    from .. import gensim
    gensim.check_restore_targets(ctx, 'C15')
    quoted_regexes(ctx)
    return ('Protocol agreement between gen_read_stmt/gen_restore_stmt and '
            'DataDevice (type ids, operand types, emission order), '
            'non-negativity of every RESTORE operand the generator can '
            'push, structural rules on the read cursor and on the '
            'order-preserving path of DATA items from Pass1 to the loader. '
            'Does not decide conversion results or the tokenizer on every '
            'text. Also: quoted-item regexes exclude only the quote and line ends; every index increment is followed by the end-of-group test.')