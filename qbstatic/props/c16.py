"""C16 -- numbers survive conversion to text and back (structural clauses)."""
import ast
import re

from .. import registries as R
from ..astutil import dotted, const, unparse, walk_shallow
from ..model import AnalysisError

try:
    import re._parser as sre_parse
except ImportError:   # pragma: no cover
    import sre_parse


def shared_formatter(ctx):
    repo = ctx.repo
    rule = 'C16.print-and-str-share-one-formatter'
    ctx.rule(rule, 'STR$ (_exec_ntos) and PRINT (print_number) both obtain '
             'the number text from qvm.utils.format_number(value, type) and '
             'apply no other number-to-text conversion')
    ntos = repo.func('qvm.cpu', 'QvmCpu._exec_ntos')
    pr = repo.func('qvm.machine', 'TerminalDevice._exec_print')
    pn = None
    for n in ast.walk(pr.node):
        if isinstance(n, ast.FunctionDef) and n.name == 'print_number':
            pn = n
    if pn is None:
        raise AnalysisError('anchor vanished: print_number in _exec_print')
    for f, node, label in ((ntos, ntos.node, 'QvmCpu._exec_ntos'),
                           (pr, pn, 'TerminalDevice._exec_print.'
                                    'print_number')):
        calls = [c for c in ast.walk(node) if isinstance(c, ast.Call)]
        fmt = [c for c in calls if dotted(c.func) == 'format_number']
        other = [unparse(c)[:40] for c in calls
                 if dotted(c.func) in ('str', 'repr', 'format') or
                 (isinstance(c.func, ast.Attribute) and
                  c.func.attr == 'format')]
        other += [unparse(n)[:40] for n in ast.walk(node)
                  if isinstance(n, ast.JoinedStr)]
        construct = f'{f.file}:{label}'
        ctx.instance(rule, construct,
                     sample={'format_number_calls': len(fmt),
                             'other_conversions': other})
        if len(fmt) != 1:
            ctx.finding(rule, construct,
                        f'{label} calls format_number {len(fmt)} times '
                        f'(expected once)', f.file, node.lineno)
            continue
        args = fmt[0].args
        # (value, type) of the same cell
        from ..astutil import canon
        ok = len(args) == 2 and canon(args[0], node).rstrip('>').endswith(
            '.value')
        tyok = len(args) == 2 and unparse(args[1]).endswith('.type')
        if not (ok and tyok):
            ctx.finding(rule, construct + ':args',
                        f'{label} calls format_number({", ".join(unparse(a) for a in args)}); '
                        f'expected (cell value, cell type)', f.file,
                        fmt[0].lineno)
        if other:
            ctx.finding(rule, construct + ':other',
                        f'{label} applies another number-to-text conversion: '
                        f'{other}', f.file, node.lineno)
    # both resolve format_number to qvm.utils
    for modname in ('qvm.cpu', 'qvm.machine'):
        m = repo.module(modname)
        imp = m.imports.get('format_number')
        ctx.instance(rule, f'{m.relpath}:import format_number')
        if imp != ('attr', 'qvm.utils', 'format_number'):
            ctx.finding(rule, f'{m.relpath}:import format_number',
                        f'{modname} takes format_number from {imp}, not '
                        f'qvm.utils', m.relpath, 1)
    # PRINT adds exactly one trailing blank after a number
    ok = False
    for s in ast.walk(pn):
        if isinstance(s, ast.AugAssign) and isinstance(s.value, ast.BinOp) \
                and isinstance(s.value.op, ast.Add) and \
                const(s.value.right) == ' ':
            ok = True
    ctx.instance(rule, f'{pr.file}:print_number:trailing-blank')
    if not ok:
        ctx.finding(rule, f'{pr.file}:print_number:trailing-blank',
                    'PRINT no longer appends exactly one blank after a '
                    'number', pr.file, pn.lineno)


def _class_accepts(pattern_items, ch):
    """Does some character class in a parsed regex accept ch?  Returns the
    list of class sets (as strings) that contain it."""
    hits = []

    def visit(items):
        for op, av in items:
            name = str(op)
            if name == 'IN':
                chars = set()
                for o, a in av:
                    if str(o) == 'LITERAL':
                        chars.add(chr(a))
                    elif str(o) == 'RANGE':
                        chars |= {chr(c) for c in range(a[0], a[1] + 1)}
                if ch in chars:
                    hits.append(''.join(sorted(chars)))
            elif name in ('SUBPATTERN',):
                visit(av[3])
            elif name in ('MAX_REPEAT', 'MIN_REPEAT'):
                visit(av[2])
            elif name == 'BRANCH':
                for b in av[1]:
                    visit(b)
    visit(pattern_items)
    return hits


def _regex_letters(items):
    """Letters a parsed regex can match anywhere (literals and classes)."""
    out = set()

    def visit(items):
        for op, av in items:
            name = str(op)
            if name == 'LITERAL' and chr(av).isalpha():
                out.add(chr(av))
            elif name == 'IN':
                for o, a in av:
                    if str(o) == 'LITERAL' and chr(a).isalpha():
                        out.add(chr(a))
                    elif str(o) == 'RANGE':
                        out.update(chr(c) for c in range(a[0], a[1] + 1)
                                   if chr(c).isalpha())
            elif name == 'SUBPATTERN':
                visit(av[3])
            elif name in ('MAX_REPEAT', 'MIN_REPEAT'):
                visit(av[2])
            elif name == 'BRANCH':
                for b in av[1]:
                    visit(b)
    visit(items)
    return out


def _validation_regexes(repo, fnode, module, cls):
    """Patterns a function applies to the text with match/fullmatch."""
    out = []
    for c in ast.walk(fnode):
        if not (isinstance(c, ast.Call) and
                isinstance(c.func, ast.Attribute) and
                c.func.attr in ('match', 'fullmatch', 'search')):
            continue
        recv = c.func.value
        pat_node = None
        if dotted(recv) == 're' and c.args:
            pat_node = ast.Call(func=ast.Name(id='re.compile'),
                                args=[c.args[0]] + list(c.args[2:]),
                                keywords=[])
        else:
            nm = dotted(recv) or ''
            last = nm.split('.')[-1]
            v = None
            if cls is not None and nm.startswith(('self.', 'cls.')):
                for k in repo.mro(cls):
                    if last in k.class_attrs:
                        v = k.class_attrs[last]
                        break
            if v is None:
                v = module.assigns.get(last)
            if isinstance(v, ast.Call) and dotted(v.func) in (
                    're.compile', 'compile'):
                pat_node = v
        if pat_node is None or not pat_node.args:
            continue
        p = const(pat_node.args[0])
        if not isinstance(p, str):
            continue
        flags = ' '.join(unparse(a) for a in pat_node.args[1:]) + ' '.join(
            unparse(k.value) for k in getattr(pat_node, 'keywords', []))
        icase = 're.I' in flags or 'IGNORECASE' in flags or '(?i' in p
        out.append((p, icase, c.lineno))
    return out


def exponent_alphabet(ctx):
    repo = ctx.repo
    rule = 'C16.formatter-alphabet-accepted-by-readers'
    ctx.rule(rule, 'every exponent marker format_number can write is '
             'accepted by every reader of numbers: VAL (numeric_literal '
             'regex) and READ / INPUT (float()/int(), which accept only '
             'e/E)')
    fn = repo.func('qvm.utils', 'format_number')
    markers = set()
    for c in ast.walk(fn.node):
        if isinstance(c, ast.Call) and isinstance(c.func, ast.Attribute) \
                and c.func.attr == 'replace' and len(c.args) == 2 and \
                const(c.args[0]) == 'e':
            markers.add(const(c.args[1]))
    if not markers:
        raise AnalysisError('anchor vanished: exponent replace in '
                            'format_number')
    # VAL
    g = repo.module('qbee.grammar')
    nl = g.assigns.get('numeric_literal')
    regexes = [const(c.args[0]) for c in ast.walk(nl)
               if isinstance(c, ast.Call) and dotted(c.func) == 'Regex'
               and c.args and isinstance(const(c.args[0]), str)] \
        if nl is not None else []
    if not regexes:
        raise AnalysisError('anchor vanished: numeric_literal regexes')
    parsed_all = [sre_parse.parse(r) for r in regexes]
    sdbl = repo.func('qvm.cpu', 'QvmCpu._exec_sdbl')
    uses_grammar = 'numeric_literal' in unparse(sdbl.node)
    ctx.instance(rule, f'{sdbl.file}:QvmCpu._exec_sdbl:uses-grammar')
    if not uses_grammar:
        ctx.finding(rule, f'{sdbl.file}:QvmCpu._exec_sdbl:uses-grammar',
                    'VAL no longer parses with grammar.numeric_literal',
                    sdbl.file, sdbl.line)
    readers = []

    regexes_seen = []
    float_calls = []        # (function node, call) of every float(text)

    def float_sites(fnode, module, depth=0, cls=None):
        """(converter names, preprocessing calls) of every text->float
        conversion in fnode, following calls to repository helpers."""
        conv, pre = set(), []
        regexes_seen.extend(_validation_regexes(repo, fnode, module, cls))
        for c in ast.walk(fnode):
            if not isinstance(c, ast.Call):
                continue
            d = dotted(c.func)
            if d in ('float', 'int'):
                conv.add(d)
                if d == 'float' and c.args and not any(
                        c is c0 for _, c0, _m in float_calls):
                    float_calls.append((fnode, c, module))
            elif isinstance(c.func, ast.Attribute) and \
                    c.func.attr in ('replace', 'translate', 'lower',
                                    'upper', 'partition', 'split'):
                pre.append(unparse(c)[:80])
            elif isinstance(c.func, ast.Attribute) and depth < 3 and \
                    dotted(c.func.value) == 'self' and cls is not None and \
                    repo.find_method(cls, c.func.attr) is not None and \
                    c.func.attr not in ('cpu', 'impl'):
                g = repo.find_method(cls, c.func.attr)
                c2, p2 = float_sites(g.node, g.module, depth + 1, cls)
                conv |= c2
                pre += p2
            elif isinstance(c.func, ast.Name) and depth < 3:
                tgt = None
                g = module.functions.get(d)
                if g is not None and g.cls is None and g.parent is None:
                    tgt = (g, module)
                else:
                    imp = module.imports.get(d)
                    if imp and imp[0] == 'attr' and \
                            imp[1] in repo.modules:
                        m2 = repo.modules[imp[1]]
                        g = m2.functions.get(imp[2])
                        if g is not None and g.cls is None:
                            tgt = (g, m2)
                if tgt is not None:
                    c2, p2 = float_sites(tgt[0].node, tgt[1], depth + 1)
                    conv |= c2
                    pre += p2
        return conv, pre
    for mod, qn in (('qvm.machine', 'DataDevice._exec_read'),
                    ('qvm.machine', 'TerminalDevice._exec_input')):
        f = repo.func(mod, qn)
        del regexes_seen[:]
        conv, pre = float_sites(f.node, f.module, 0, f.cls)
        rx = list(regexes_seen)
        if 'float' not in conv:
            raise AnalysisError(f'anchor vanished: no text->float '
                                f'conversion found in {qn} or its helpers')
        readers.append((f, qn, conv, pre, rx))
    # every single float(text) conversion the readers reach converts the
    # whole text after the marker rewrite (one function converting some
    # types through the helper and another type with a bare float() still
    # rejects the D form for that type; float() of a part of the text
    # combined arithmetically is not the correctly rounded value)
    rule_s = 'C16.each-text-to-float-conversion-reads-the-written-form'
    ctx.rule(rule_s, 'each float(<text>) call reachable from READ and INPUT '
             'takes the text with the non-E exponent markers of '
             'format_number rewritten (a .replace of the marker in the '
             'argument or in the assignment feeding it), and its result is '
             'not combined with * or ** into the value')
    non_e = sorted(m for m in markers if m.lower() != 'e')
    seen_sites = set()
    for fnode, c, fmod in float_calls:
        arg = c.args[0]
        srcs = [arg]
        if isinstance(arg, ast.Name):
            srcs += [a.value for a in ast.walk(fnode)
                     if isinstance(a, ast.Assign) and any(
                         isinstance(t, ast.Name) and t.id == arg.id
                         for t in a.targets)]
        rewrites = {const(k.args[0]) for e in srcs for k in ast.walk(e)
                    if isinstance(k, ast.Call) and
                    isinstance(k.func, ast.Attribute) and
                    k.func.attr == 'replace' and k.args}
        # a function that splits the text at the marker handles the marked
        # form on its own path
        rewrites |= {const(k.args[0]) for k in ast.walk(fnode)
                     if isinstance(k, ast.Call) and
                     isinstance(k.func, ast.Attribute) and
                     k.func.attr in ('partition', 'split', 'rpartition')
                     and k.args}
        missing = [m for m in non_e if m not in rewrites]
        par = getattr(c, '_parent', None)
        arith = isinstance(par, ast.BinOp) and isinstance(
            par.op, (ast.Mult, ast.Pow, ast.Div))
        fname = getattr(fnode, 'name', '?')
        construct = f'{fmod.relpath}:{fname}:float({unparse(arg)[:30]})'
        if construct in seen_sites:
            continue
        seen_sites.add(construct)
        ctx.instance(rule_s, construct, sample={'rewrites': sorted(
            r for r in rewrites if isinstance(r, str)),
            'combined_arithmetically': arith})
        if arith:
            ctx.finding(rule_s, construct + ':arithmetic',
                        f'{fname} converts a part of the text with float() '
                        f'and combines it arithmetically '
                        f'(`{unparse(par)[:60]}`): the result is not the '
                        f'correctly rounded value of the text, so numbers '
                        f'written by PRINT/STR$ read back as neighbours',
                        fmod.relpath, c.lineno)
        elif missing:
            ctx.finding(rule_s, construct,
                        f'{fname} converts text with a bare '
                        f'float({unparse(arg)[:30]}) without rewriting the '
                        f'exponent marker(s) {missing} format_number '
                        f'writes: that conversion rejects the printed form',
                        fmod.relpath, c.lineno)
    ctx.floor('text->float conversion sites', len(seen_sites), 1)
    for mk in sorted(markers):
        construct = f'{fn.file}:format_number:marker[{mk}]'
        hits = [h for p in parsed_all for h in _class_accepts(list(p), mk)
                if any(c.isdigit() for c in h) is False]
        ctx.instance(rule, construct + ':VAL',
                     sample={'marker': mk, 'regex_classes': hits})
        if not hits:
            ctx.finding(rule, construct + ':VAL',
                        f'format_number writes exponent marker {mk!r} but '
                        f'the numeric_literal regex has no class accepting '
                        f'it: VAL(STR$(x)) fails', fn.file, fn.line)
        for f, qn, conv, pre, rx in readers:
            for p, icase, line in rx:
                letters = _regex_letters(list(sre_parse.parse(p)))
                if not (letters & set('eEdD')):
                    continue            # not a pattern with an exponent
                c3 = f'{construct}:{qn}:validation-regex'
                ok = icase or mk in letters
                ctx.instance(rule, c3, sample={'pattern': p, 'marker': mk,
                                               'accepts': ok})
                if not ok:
                    ctx.finding(rule, c3,
                                f'{qn} validates the text with {p!r} before '
                                f'converting it; the pattern accepts '
                                f'exponent letters {sorted(letters & set("eEdD"))} '
                                f'but not {mk!r}, which format_number writes: '
                                f'a number printed by PRINT/STR$ is rejected '
                                f'when read back', f.file, line)
            c2 = f'{construct}:{qn}'
            ctx.instance(rule, c2, sample={'marker': mk, 'converts_with':
                                           sorted(conv), 'preprocess': pre})
            if 'float' in conv and mk.lower() != 'e' and not any(
                    repr(mk) in p or repr(mk.lower()) in p for p in pre):
                ctx.finding(rule, c2,
                            f'format_number writes exponent marker {mk!r} '
                            f'(DOUBLE) but {qn} converts text with float(), '
                            f'which accepts only e/E: a number printed by '
                            f'PRINT/STR$ is rejected when read back',
                            f.file, f.line)
    # leading sign/blank: n >= 0 gets a blank; negative gets '-'
    from .. import pat
    ok = pat.has("if n >= 0:\n    _S = ' ' + _S", fn.node)
    ctx.instance(rule, f'{fn.file}:format_number:leading-blank')
    if not ok:
        ctx.finding(rule, f'{fn.file}:format_number:leading-blank',
                    'format_number no longer prefixes non-negative numbers '
                    'with one blank', fn.file, fn.line)


def run(ctx):
    ctx.clauses = [
        'PRINT and STR$ share one formatter (format_number)',
        'the exponent alphabet the formatter writes is accepted by VAL, '
        'READ and INPUT',
    ]
    ctx.not_decided = ['digits, rounding, significant-digit bounds and '
                       'round-trip equality (numeric, value-level)']
    shared_formatter(ctx)
    exponent_alphabet(ctx)
    return ('Two structural necessary conditions of C16: (1) who-may-format '
            '-- _exec_ntos and print_number obtain number text only from '
            'qvm.utils.format_number(value, type); (2) writer/reader '
            'alphabet agreement -- the exponent markers format_number can '
            'introduce (constants of its replace calls) against the '
            'character classes of the VAL regex (parsed with re._parser) and '
            'the float()/int() conversions of READ and INPUT. Digits, '
            'rounding and round-trip values are NOT decided.')
