"""C12 -- debugger transparency (structural clause only)."""
import ast

from .. import registries as R
from .. import effects
from ..astutil import dotted, const, unparse, walk_shallow, decorators
from ..callgraph import CallGraph
from ..cfg import build_cfg, repo_noreturn
from ..model import AnalysisError

# the only ways the debugger may advance / configure the machine
CPU_API = {'run', 'tick', 'next', 'add_breakpoint', 'del_breakpoint'}
# read-only helpers the debugger may call on the cpu, with reasons for the
# one that is not syntactically pure
CPU_READ_EXEMPT = {
    'get_instruction_at':
        'decodes an instruction; its _trap(INVALID_OP_CODE) branch is '
        'unreachable for assembler-produced code (C09 emittable subset of '
        'encodable)',
    'get_current_instruction': 'same as get_instruction_at',
}
MACHINE_ROOTS = ('cpu', 'machine')


def cpu_method_writes(repo, cg):
    """QvmCpu method name -> True if it (transitively) writes cpu state."""
    ci = repo.cls('qvm.cpu', 'QvmCpu')
    direct = {}
    for name, f in list(ci.methods.items()) + [
            (k, v) for k, v in cg.handlers.items()]:
        w = [x for x in effects.writes(f.node) if x[1] == 'self']
        direct[f] = bool(w)
    out = {}
    for name, f in ci.methods.items():
        reach = cg.reachable([f])
        out[name] = any(direct.get(g, False) for g in reach)
    return out


def who_may_write(ctx, cg):
    repo = ctx.repo
    rule = 'C12.debugger-writes-machine-only-through-api'
    ctx.rule(rule, 'functions of qvm/dbg.py and qvm/eval.py never store '
             'into, delete from, or call a mutator on anything reached '
             'through the cpu/machine objects; they touch the machine only '
             'through cpu.run/tick/next/add_breakpoint/del_breakpoint (and '
             'machine.tick)')
    writes_state = cpu_method_writes(repo, cg)
    n_funcs = 0
    for modname in ('qvm.dbg', 'qvm.eval'):
        m = repo.module(modname)
        for f in m.functions.values():
            n_funcs += 1
            construct = f'{f.file}:{f.qualname}'
            bad = []
            for kind, root, path, line, text in effects.writes(f.node):
                comps = ([root] if root else []) + \
                    (path.split('.') if path else [])
                # receiver chain passes through a cpu/machine object?
                through = [c for c in comps[:-1] if c in MACHINE_ROOTS] \
                    if kind == 'mutcall' else \
                    [c for c in comps[:-1] if c in MACHINE_ROOTS]
                if root in ('segment', 'frame', 'cell_value') and \
                        kind != 'mutcall':
                    through = [root]
                if kind == 'mutcall' and root in ('segment', 'frame'):
                    through = [root]
                if not through:
                    continue
                last = comps[-1]
                if kind == 'mutcall' and last in CPU_API and \
                        comps[-2] in MACHINE_ROOTS:
                    continue
                bad.append((kind, text, line))
            # calls to cpu methods outside the API that write state
            for c in walk_shallow(f.node):
                if isinstance(c, ast.Call) and \
                        isinstance(c.func, ast.Attribute):
                    d = dotted(c.func.value) or ''
                    if d.split('.')[-1] == 'cpu':
                        mname = c.func.attr
                        if mname in CPU_API:
                            continue
                        if mname in CPU_READ_EXEMPT:
                            continue
                        if writes_state.get(mname):
                            bad.append(('call', unparse(c.func), c.lineno))
            ctx.instance(rule, construct, nontrivial=True,
                         sample={'violations': bad} if bad else None)
            for kind, text, line in bad:
                ctx.finding(rule, f'{construct}:{text}',
                            f'{f.qualname} writes machine state directly '
                            f'({kind} {text}); debugger commands must stay '
                            f'transparent', f.file, line)
    ctx.floor('debugger functions examined', n_funcs, 40)
    for k, why in CPU_READ_EXEMPT.items():
        ctx.observe(f'cpu.{k} exempt from the write rule: {why}')


def paired_breakpoints(ctx):
    repo = ctx.repo
    rule = 'C12.temporary-breakpoints-paired'
    ctx.rule(rule, 'every add_breakpoint of a locally created predicate is '
             'followed on all paths, including exceptional ones, by '
             'del_breakpoint of the same object')
    n = 0
    for f in repo.all_functions():
        if f.module.name not in ('qvm.dbg', 'qvm.cpu'):
            continue
        adds = [c for c in walk_shallow(f.node) if isinstance(c, ast.Call)
                and isinstance(c.func, ast.Attribute) and
                c.func.attr == 'add_breakpoint' and c.args and
                isinstance(c.args[0], ast.Name)]
        if not adds:
            continue
        local_defs = {s.name for s in walk_shallow(f.node)
                      if isinstance(s, ast.FunctionDef) and s is not f.node}
        local_defs |= {dotted(s.targets[0]) for s in walk_shallow(f.node)
                       if isinstance(s, ast.Assign) and
                       isinstance(s.value, ast.Lambda)}
        cfg = build_cfg(f.node, repo_noreturn)
        for c in adds:
            name = c.args[0].id
            if name not in local_defs:
                continue   # a user breakpoint (do_break)
            n += 1
            construct = f'{f.file}:{f.qualname}:add_breakpoint({name})'
            addn = [x for x in cfg.nodes if x.kind == 'stmt' and any(
                y is c for y in ast.walk(x.ast))]
            dels = [x for x in cfg.nodes if x.kind == 'stmt' and any(
                isinstance(y, ast.Call) and
                isinstance(y.func, ast.Attribute) and
                y.func.attr == 'del_breakpoint' and y.args and
                dotted(y.args[0]) == name for y in ast.walk(x.ast))]
            ok = bool(addn) and bool(dels)
            leaks = []
            if ok:
                for a in addn:
                    r = cfg.reachable(a, blocked_nodes=dels)
                    if cfg.exit in r:
                        leaks.append('normal exit')
                    if cfg.raise_exit in r:
                        leaks.append('exception')
            ctx.instance(rule, construct, sample={'del_sites': len(dels),
                                                  'leaks': leaks})
            if not ok or leaks:
                ctx.finding(rule, construct,
                            f'temporary breakpoint {name} added in '
                            f'{f.qualname} is not removed on: '
                            f'{leaks or "any path"}; a leaked predicate '
                            f'keeps stopping later commands', f.file,
                            c.lineno)
    ctx.floor('temporary breakpoint sites', n, 2)


def pure_predicates(ctx, cg):
    repo = ctx.repo
    rule = 'C12.breakpoint-predicates-pure'
    ctx.rule(rule, 'breakpoint predicates (Breakpoint.__call__, the local '
             'predicates of do_step and QvmCpu.next) write nothing, neither '
             'directly nor through the functions they call')
    preds = [repo.func('qvm.dbg', 'Breakpoint.__call__'),
             repo.func('qvm.dbg', 'Cmd.do_step.step_breakpoint')]
    nxt = repo.func('qvm.cpu', 'QvmCpu.next')
    lambdas = [n for n in walk_shallow(nxt.node, include_self=False)
               if isinstance(n, ast.Lambda)]
    if not lambdas:
        raise AnalysisError('anchor vanished: lambda predicate in next')
    for lam in lambdas:
        construct = f'{nxt.file}:QvmCpu.next:lambda'
        bad = [x for x in effects.writes(lam, shallow=False)]
        calls = [unparse(c.func) for c in ast.walk(lam)
                 if isinstance(c, ast.Call)]
        ctx.instance(rule, construct, sample={'writes': bad, 'calls': calls})
        if bad or calls:
            ctx.finding(rule, construct,
                        f'the call-skipping predicate in next() is not a '
                        f'pure comparison (writes {bad}, calls {calls})',
                        nxt.file, lam.lineno)
    for p in preds:
        construct = f'{p.file}:{p.qualname}'
        reach = cg.reachable([p], stop=lambda f: f.name in CPU_READ_EXEMPT)
        bad = []
        for g in reach:
            if g.name in CPU_READ_EXEMPT:
                continue
            for kind, root, path, line, text in effects.writes(g.node):
                if root == 'self' or root in MACHINE_ROOTS or \
                        (path and path.split('.')[0] in MACHINE_ROOTS):
                    bad.append((g.qualname, text, line))
        ctx.instance(rule, construct,
                     sample={'reachable': sorted(g.qualname for g in reach),
                             'writes': bad})
        for q, text, line in bad:
            ctx.finding(rule, f'{construct}:{q}:{text}',
                        f'breakpoint predicate {p.qualname} reaches {q}, '
                        f'which writes {text}', p.file, line)


def halt_guard(ctx):
    repo = ctx.repo
    rule = 'C12.progress-commands-carry-halt-guard'
    ctx.rule(rule, 'every debugger command that advances the machine '
             '(calls cpu.run/tick/next or machine.tick) is decorated with '
             '@unhalted')
    ci = repo.cls('qvm.dbg', 'Cmd')
    n = 0
    for name, f in ci.methods.items():
        if not name.startswith('do_'):
            continue
        adv = [unparse(c.func) for c in walk_shallow(f.node)
               if isinstance(c, ast.Call) and
               isinstance(c.func, ast.Attribute) and
               c.func.attr in ('run', 'tick', 'next') and
               (dotted(c.func.value) or '').split('.')[-1] in MACHINE_ROOTS]
        if not adv:
            continue
        n += 1
        decs = [d for d, _ in decorators(f.node)]
        ctx.instance(rule, f'{f.file}:Cmd.{name}',
                     sample={'advances_with': adv, 'decorators': decs})
        if 'unhalted' not in decs:
            ctx.finding(rule, f'{f.file}:Cmd.{name}',
                        f'{name} advances the machine ({adv}) without the '
                        f'@unhalted guard its sibling commands carry',
                        f.file, f.line)
    ctx.floor('progress commands', n, 5)
    # the guard itself: returns without calling func when halted by
    # instruction / end of code
    u = repo.func('qvm.dbg', 'unhalted')
    txt = unparse(u.node)
    ok = 'HaltReason.INSTRUCTION' in txt and 'HaltReason.END_OF_CODE' in txt
    ctx.instance(rule, f'{u.file}:unhalted')
    if not ok:
        ctx.finding(rule, f'{u.file}:unhalted',
                    '@unhalted no longer tests both terminal halt reasons',
                    u.file, u.line)


def run_loop(ctx):
    repo = ctx.repo
    rule = 'C12.run-evaluates-breakpoints-after-tick'
    ctx.rule(rule, 'QvmCpu.run evaluates breakpoints only after executing '
             'an instruction in that iteration and never assigns pc itself')
    f = repo.func('qvm.cpu', 'QvmCpu.run')
    cfg = build_cfg(f.node, repo_noreturn)
    bp_loop = [n for n in cfg.nodes if n.kind == 'for' and
               'self.breakpoints' in unparse(n.ast.iter)]
    ticks = [n for n in cfg.nodes if n.kind == 'stmt' and any(
        isinstance(c, ast.Call) and dotted(c.func) in ('self.tick',
                                                       'self.next')
        for c in ast.walk(n.ast))]
    loop_head = [n for n in cfg.nodes if n.kind == 'test' and
                 isinstance(n.ast, ast.While)]
    if not bp_loop or not ticks or not loop_head:
        raise AnalysisError('anchor vanished: run loop structure')
    head = loop_head[0]
    for b in bp_loop:
        # from the loop head, the breakpoint scan is unreachable if the
        # tick/next statements are removed
        r = cfg.reachable(head, blocked_nodes=ticks)
        ctx.instance(rule, f'{f.file}:QvmCpu.run:bp-scan')
        if b in r:
            ctx.finding(rule, f'{f.file}:QvmCpu.run:bp-scan',
                        'breakpoints can be evaluated in an iteration that '
                        'executed no instruction', f.file, b.line)
    bad = [w for w in effects.writes(f.node)
           if w[1] == 'self' and w[2] == 'pc']
    ctx.instance(rule, f'{f.file}:QvmCpu.run:pc')
    if bad:
        ctx.finding(rule, f'{f.file}:QvmCpu.run:pc',
                    'run() assigns self.pc', f.file, bad[0][3])
    # del_breakpoint removes exactly the given object
    d = repo.func('qvm.cpu', 'QvmCpu.del_breakpoint')
    from .. import pat
    ok = pat.has('self.breakpoints.remove(__)', d.node)
    ctx.instance(rule, f'{d.file}:QvmCpu.del_breakpoint')
    if not ok:
        ctx.finding(rule, f'{d.file}:QvmCpu.del_breakpoint',
                    'del_breakpoint no longer removes the given predicate',
                    d.file, d.line)


def breakpoint_list_is_a_multiset(ctx):
    """Every `break` the user sets is one entry the user can delete again:
    add_breakpoint appends unconditionally, del_breakpoint removes exactly
    one entry.  (Two breakpoints may compare equal -- Breakpoint.__eq__ looks
    at the resolved address -- and still be two entries.)"""
    from ..cfg import build_cfg, repo_noreturn
    repo = ctx.repo
    rule = 'C12.every-added-breakpoint-is-an-entry-of-its-own'
    ctx.rule(rule, 'QvmCpu.add_breakpoint appends its argument to '
             'self.breakpoints on every path (no de-duplication), so that '
             'deleting one breakpoint never disables another one that '
             'resolves to the same address')
    f = repo.func('qvm.cpu', 'QvmCpu.add_breakpoint')
    cfg = build_cfg(f.node, repo_noreturn)
    apps = [n for n in cfg.nodes if n.ast is not None and n.kind == 'stmt'
            and any(isinstance(c, ast.Call) and
                    isinstance(c.func, ast.Attribute) and
                    c.func.attr in ('append', 'insert') and
                    'breakpoints' in unparse(c.func.value)
                    for c in ast.walk(n.ast))]
    ok = bool(apps) and cfg.must_pass(cfg.exit, lambda x: x in apps)
    construct = f'{f.file}:QvmCpu.add_breakpoint'
    ctx.instance(rule, construct, sample={'appends_on_all_paths': ok})
    if not ok:
        ctx.finding(rule, construct,
                    'add_breakpoint does not append on every path: a '
                    'breakpoint equal to an installed one (same resolved '
                    'address) is merged with it, and deleting either removes '
                    'both, so `continue` runs past a breakpoint that was set '
                    'and never deleted', f.file, f.line)


def run_to_stop_commands(ctx):
    """QvmCpu.run tests the breakpoints after every instruction it
    executes.  A command that is specified to run *until a breakpoint* must
    therefore advance the machine through run() alone: an instruction
    executed by a direct tick()/next() lands on an address whose
    breakpoints are never tested."""
    repo = ctx.repo
    rule = 'C12.run-to-stop-commands-advance-through-run-only'
    ctx.rule(rule, 'do_continue and do_step execute instructions only '
             'through cpu.run(), which evaluates the breakpoints after every '
             'instruction; they never call tick() or next() themselves '
             '(stepi/nexti/next are the instruction-granular commands)')
    cmd = repo.cls('qvm.dbg', 'Cmd')
    n = 0
    for name in ('do_continue', 'do_step'):
        f = repo.find_method(cmd, name)
        if f is None:
            raise AnalysisError(f'anchor vanished: Cmd.{name}')
        runs, direct = [], []
        for c in ast.walk(f.node):
            if isinstance(c, ast.Call) and isinstance(c.func, ast.Attribute):
                if c.func.attr == 'run':
                    runs.append(c)
                elif c.func.attr in ('tick', 'next'):
                    direct.append(c)
        n += 1
        construct = f'{f.file}:Cmd.{name}'
        ctx.instance(rule, construct, sample={'run_calls': len(runs),
                                              'direct': len(direct)})
        if not runs:
            ctx.finding(rule, construct + ':no-run',
                        f'{name} no longer advances the machine through '
                        f'cpu.run()', f.file, f.line)
        for c in direct:
            ctx.finding(rule, construct + f':{unparse(c.func)}',
                        f'{name} executes an instruction with '
                        f'{unparse(c)} outside cpu.run(): breakpoints at the '
                        f'address reached by that instruction are never '
                        f'tested, so the command can run past a breakpoint',
                        f.file, c.lineno)
    ctx.floor('run-to-stop commands examined', n, 2)


def breakpoint_resolution(ctx):
    repo = ctx.repo
    rule = 'C12.line-breakpoint-scans-in-source-order'
    ctx.rule(rule, 'a line breakpoint is resolved by scanning the statement '
             'records in SOURCE order (they are stored in address order, '
             'and procedures are emitted after the main program) for the '
             'first non-empty statement at or after the line; the '
             'breakpoint address is that statement\'s start offset')
    from .. import pat
    from ..astutil import canon
    f = repo.func('qvm.dbg', 'Cmd.parse_breakpoint_spec')
    loops = [n for n in ast.walk(f.node) if isinstance(n, ast.For) and
             'stmts' in canon(n.iter, f.node)]
    construct = f'{f.file}:Cmd.parse_breakpoint_spec:scan'
    ok_sorted = any('sorted(self.debug_info.stmts' in canon(n.iter, f.node)
                    and 'source_start_offset' in canon(n.iter, f.node)
                    for n in loops)
    ctx.instance(rule, construct, sample={'loops': len(loops),
                                          'sorted_by_source': ok_sorted})
    if not loops:
        raise AnalysisError('anchor vanished: statement scan in '
                            'parse_breakpoint_spec')
    if not ok_sorted:
        ctx.finding(rule, construct,
                    'line breakpoints scan the statement records in address '
                    'order instead of source order: a line inside a '
                    'procedure written above later main-program code '
                    'resolves to the wrong statement', f.file,
                    loops[0].lineno)
    ok = pat.has('if _S.source_start_line >= _L and '
                 '_S.end_offset - _S.start_offset > 0:\n    ...', f.node) \
        and pat.has('Breakpoint(..., start_addr=_S.start_offset)', f.node)
    ctx.instance(rule, construct + ':match')
    if not ok:
        ctx.finding(rule, construct + ':match',
                    'the line breakpoint is no longer placed at the start '
                    'offset of the first non-empty statement at or after '
                    'the line', f.file, f.line)
    b = repo.func('qvm.dbg', 'Breakpoint.__call__')
    ok = pat.has('return cpu.pc == self.start_addr', b.node) and \
        pat.has('return self.start_addr <= cpu.pc < self.end_addr', b.node)
    ctx.instance(rule, f'{b.file}:Breakpoint.__call__')
    if not ok:
        ctx.finding(rule, f'{b.file}:Breakpoint.__call__',
                    'breakpoint matching is no longer pc == start_addr '
                    '(exact) / start <= pc < end (range)', b.file, b.line)


def run(ctx):
    ctx.clauses = [
        'who-may-write: debugger touches the machine only through the '
        'cpu API', 'temporary breakpoints are paired on all paths',
        'breakpoint predicates are pure',
        'all progress commands carry @unhalted',
        'run() scans breakpoints only after a tick and never writes pc',
        'continue/step advance the machine through run() only',
    ]
    ctx.not_decided = ['stop positions, progress and statement order of '
                       'stepping (properties of command histories)']
    cg = CallGraph(ctx.repo, mode='precise')
    who_may_write(ctx, cg)
    paired_breakpoints(ctx)
    pure_predicates(ctx, cg)
    halt_guard(ctx)
    run_loop(ctx)
    run_to_stop_commands(ctx)
    breakpoint_list_is_a_multiset(ctx)
    breakpoint_resolution(ctx)
    return ('Transparency as a structural clause: effects (who-may-write) '
            'analysis of qvm/dbg.py and qvm/eval.py against the cpu API, '
            'CFG pairing of temporary breakpoints including exceptional '
            'exits, purity of breakpoint predicates through the resolved '
            'call graph, decorator agreement of progress commands, and '
            'dominance of tick before the breakpoint scan in run(). Stop '
            'positions and stepping order are NOT decided.')
