"""C01 -- operator translation chain is consistent end to end.

Decides a structural necessary condition only (see DESIGN.md C01)."""
import ast

from .. import registries as R
from .. import opsem
from ..astutil import dotted, const, unparse, walk_shallow
from ..model import AnalysisError


def chain_rules(ctx, pid_prefix='C01'):
    """Rules shared with C02: token -> Operator -> mnemonic -> handler."""
    repo = ctx.repo
    handlers, nd, ng = R.cpu_handlers(repo)
    mangling = R.op_mangling(repo)
    instrs = R.instructions(repo)
    operators = R.enum(repo, 'qbee.expr', 'Operator')
    ctx.floor('Operator members', len(operators), 21)
    (bin_tab, bin_f), (un_tab, un_f) = opsem.token_tables(repo)
    ctx.floor('binary tokens', len(bin_tab), 21)
    ctx.floor('unary tokens', len(un_tab), 3)

    # Operator -> spec expression via tokens (all tokens of one Operator
    # must agree on the meaning)
    op_spec = {}
    rule = f'{pid_prefix}.token-meaning'
    ctx.rule(rule, 'every operator token maps to an Operator member; all '
             'spellings of one member have one language meaning')
    for tok, (member, line) in bin_tab.items():
        ctx.instance(rule, f'binary:{tok}', sample={'token': tok,
                                                    'operator': member})
        spec = opsem.BINARY_SPEC.get(tok)
        if spec is None:
            ctx.observe(f'binary token {tok!r} has no entry in the language '
                        f'table of the checker; not checked')
            continue
        if member not in operators:
            ctx.finding(rule, f'qbee/expr.py:binary_op_from_token[{tok}]',
                        f'token {tok!r} maps to unknown Operator member '
                        f'{member}', bin_f.file, line)
            continue
        prev = op_spec.get(member)
        if prev and not opsem.equivalent(opsem.parse_expr(prev[0]),
                                         opsem.parse_expr(spec)):
            ctx.finding(rule, f'qbee/expr.py:binary_op_from_token[{tok}]',
                        f'token {tok!r} (meaning {spec}) and token '
                        f'{prev[1]!r} (meaning {prev[0]}) both map to '
                        f'Operator.{member}', bin_f.file, line)
        op_spec.setdefault(member, (spec, tok))
    missing = set(opsem.BINARY_SPEC) - set(bin_tab)
    for tok in sorted(missing):
        ctx.finding(rule, f'qbee/expr.py:binary_op_from_token[{tok}]',
                    f'operator token {tok!r} of the language is not in the '
                    f'token table', bin_f.file, bin_f.line)
    un_spec = {}
    for tok, (member, line) in un_tab.items():
        ctx.instance(rule, f'unary:{tok}', sample={'token': tok,
                                                   'operator': member})
        spec = opsem.UNARY_SPEC.get(tok)
        if spec is None:
            continue
        un_spec[member] = (spec, tok)
    for tok in sorted(set(opsem.UNARY_SPEC) - set(un_tab)):
        ctx.finding(rule, f'qbee/expr.py:unary_op_from_token[{tok}]',
                    f'unary token {tok!r} missing', un_f.file, un_f.line)

    # ---- Operator -> mnemonic (gen_binary_op, gen_compare_case_clause) --
    gens, _ = R.generators(repo)
    gb = gens.get('BinaryOp')
    gu = gens.get('UnaryOp')
    gc = gens.get('CompareCaseClause')
    if gb is None or gu is None or gc is None:
        raise AnalysisError('anchor vanished: generator for BinaryOp/'
                            'UnaryOp/CompareCaseClause')
    rule = f'{pid_prefix}.operator-mnemonic'
    ctx.rule(rule, 'each Operator member is translated to exactly one '
             'mnemonic whose CPU handler computes the language meaning with '
             'left operand = second pop, right operand = first pop')
    mn = {}          # member -> mnemonic
    dicts = opsem.operator_dicts(gb.node)
    if len(dicts) < 2:
        raise AnalysisError('anchor vanished: Operator->mnemonic dicts in '
                            'gen_binary_op')
    cmp_dict_gb = None
    for dnode, tab in dicts:
        vals = {k: const(v) for k, v in tab.items()}
        if all(k.startswith('CMP_') for k in vals):
            cmp_dict_gb = vals
        for k, v in vals.items():
            if k in mn and mn[k] != v:
                ctx.finding(rule, f'{gb.file}:gen_binary_op[{k}]',
                            f'Operator.{k} mapped to both {mn[k]} and {v}',
                            gb.file, dnode.lineno)
            mn[k] = v
    binary_members = [m for m in operators
                      if m not in ('NEG', 'PLUS', 'NOT')]
    for m in binary_members:
        ctx.instance(rule, f'binary:{m}',
                     sample={'operator': m, 'mnemonic': mn.get(m)})
        if m not in mn:
            ctx.finding(rule, f'{gb.file}:gen_binary_op[{m}]',
                        f'Operator.{m} has no mnemonic in gen_binary_op '
                        f'(KeyError / InternalError at code generation)',
                        gb.file, gb.line)
    # comparison dicts agree
    cdicts = opsem.operator_dicts(gc.node)
    rule2 = f'{pid_prefix}.compare-dicts-agree'
    ctx.rule(rule2, 'the comparison-mnemonic dicts of gen_binary_op and '
             'gen_compare_case_clause are equal')
    if not cdicts or cmp_dict_gb is None:
        raise AnalysisError('anchor vanished: comparison dict')
    cc = {k: const(v) for k, v in cdicts[0][1].items()}
    ctx.instance(rule2, 'gen_compare_case_clause', sample=cc)
    if cc != cmp_dict_gb:
        diff = {k: (cmp_dict_gb.get(k), cc.get(k))
                for k in set(cc) | set(cmp_dict_gb)
                if cc.get(k) != cmp_dict_gb.get(k)}
        ctx.finding(rule2, f'{gc.file}:gen_compare_case_clause',
                    f'comparison mnemonics differ between gen_binary_op and '
                    f'gen_compare_case_clause: {diff}', gc.file,
                    cdicts[0][0].lineno, facts=diff)

    # ---- operand order in the emitter -----------------------------------
    rule3 = f'{pid_prefix}.operand-order'
    ctx.rule(rule3, 'gen_binary_op emits the left operand before the right '
             'operand (the handler treats the second pop as left)')
    order = []
    for n in walk_shallow(gb.node):
        if isinstance(n, ast.Call) and isinstance(n.func, ast.Attribute) \
                and n.func.attr == 'gen_code_for_node' and n.args:
            d = dotted(n.args[0])
            if d in ('node.left', 'node.right'):
                order.append((n.lineno, d))
    order.sort()
    ctx.instance(rule3, 'gen_binary_op', sample={'order': order})
    if [d for _, d in order] != ['node.left', 'node.right']:
        ctx.finding(rule3, f'{gb.file}:gen_binary_op',
                    f'operands emitted in order {order}; expected left then '
                    f'right exactly once each', gb.file, gb.line)

    # ---- mnemonic -> handler expression ---------------------------------
    rule4 = f'{pid_prefix}.handler-semantics'
    ctx.rule(rule4, 'the CPU handler of the mnemonic applies the Python '
             'operator that the language meaning prescribes, in operand '
             'order (left, right) = (second pop, first pop)')
    cmp_ok = None
    for m in binary_members:
        mnemonic = mn.get(m)
        if mnemonic is None or m not in op_spec:
            continue
        spec_s, tok = op_spec[m]
        spec = opsem.parse_expr(spec_s)
        hname = R.mangle(mnemonic, mangling)
        construct = f'qvm/cpu.py:QvmCpu.{hname}'
        if mnemonic not in instrs:
            ctx.finding(rule4, construct + ':instr',
                        f'mnemonic {mnemonic!r} for Operator.{m} is not in '
                        f'the instruction table', gb.file, gb.line)
            continue
        if m.startswith('CMP_'):
            got = comparison_semantics(repo, handlers, mangling, mnemonic)
            ctx.instance(rule4, construct,
                         sample={'operator': m, 'mnemonic': mnemonic,
                                 'truth_on(lt,eq,gt)': got[0]})
            if got[0] is None:
                ctx.finding(rule4, construct,
                            f'cannot establish comparison semantics of '
                            f'cmp+{mnemonic}: {got[1]}', 'qvm/cpu.py',
                            getattr(handlers.get(hname), 'line', 0))
                continue
            want = tuple(bool(opsem._ev(spec, {'a': a, 'b': b}))
                         for a, b in ((1, 2), (1, 1), (2, 1)))
            if got[0] != want:
                ctx.finding(rule4, construct,
                            f'Operator.{m} ({tok!r}, meaning {spec_s}) is '
                            f'translated to cmp+{mnemonic}, which is true on '
                            f'(a<b, a=b, a>b) = {got[0]}, expected {want}',
                            'qvm/cpu.py', handlers[hname].line,
                            facts={'got': got[0], 'want': want})
            continue
        e, why = opsem.binary_handler_expr(repo, handlers, hname)
        ctx.instance(rule4, construct,
                     sample={'operator': m, 'mnemonic': mnemonic,
                             'handler_expr': unparse(e) if e is not None
                             else None, 'meaning': spec_s})
        if e is None:
            ctx.finding(rule4, construct,
                        f'cannot extract the operation of handler {hname}: '
                        f'{why}', 'qvm/cpu.py',
                        getattr(handlers.get(hname), 'line', 0))
            continue
        if not opsem.equivalent(e, spec):
            ctx.finding(rule4, construct,
                        f'Operator.{m} ({tok!r}) means {spec_s} but handler '
                        f'{hname} computes {unparse(e)} (a = left = second '
                        f'pop, b = right = first pop)', 'qvm/cpu.py',
                        handlers[hname].line,
                        facts={'handler_expr': unparse(e), 'spec': spec_s})

    # ---- unary ----------------------------------------------------------
    rule5 = f'{pid_prefix}.unary-chain'
    ctx.rule(rule5, 'gen_unary_op handles every unary Operator member and '
             'the emitted mnemonic computes the language meaning')
    arms = unary_arms(gu.node)
    for m in ('NEG', 'PLUS', 'NOT'):
        ctx.instance(rule5, f'unary:{m}', sample={'operator': m,
                                                  'emits': arms.get(m)})
        if m not in arms:
            ctx.finding(rule5, f'{gu.file}:gen_unary_op[{m}]',
                        f'Operator.{m} is not handled by gen_unary_op',
                        gu.file, gu.line)
            continue
        if m not in un_spec:
            continue
        spec_s, tok = un_spec[m]
        spec = opsem.parse_expr(spec_s)
        ops = [o for o in arms[m] if not o.startswith('conv')]
        if m == 'PLUS':
            if ops:
                ctx.finding(rule5, f'{gu.file}:gen_unary_op[PLUS]',
                            f'unary plus emits {ops}; expected nothing',
                            gu.file, gu.line)
            continue
        if len(ops) != 1:
            ctx.finding(rule5, f'{gu.file}:gen_unary_op[{m}]',
                        f'Operator.{m} emits {ops}; expected one '
                        f'instruction', gu.file, gu.line)
            continue
        hname = R.mangle(ops[0], mangling)
        e, why = opsem.unary_handler_expr(handlers, hname)
        if e is None:
            ctx.finding(rule5, f'qvm/cpu.py:QvmCpu.{hname}',
                        f'cannot extract operation of {hname}: {why}',
                        'qvm/cpu.py', 0)
        elif not opsem.equivalent(e, spec, names=('a',)):
            ctx.finding(rule5, f'qvm/cpu.py:QvmCpu.{hname}',
                        f'Operator.{m} means {spec_s} but {hname} computes '
                        f'{unparse(e)}', 'qvm/cpu.py', handlers[hname].line)
    return {'op_spec': op_spec, 'un_spec': un_spec, 'mnemonic': mn,
            'handlers': handlers, 'mangling': mangling,
            'binary_members': binary_members}


def unary_arms(fn_node):
    """Operator member -> [op strings emitted] for `if node.op ==
    expr.Operator.X:` ladders (f-string ops rendered with {})."""
    out = {}

    def emitted(body):
        ops = []
        for st in body:
            for n in ast.walk(st):
                if isinstance(n, ast.Call) and \
                        isinstance(n.func, ast.Attribute) and \
                        n.func.attr == 'add':
                    for a in n.args:
                        if isinstance(a, ast.Tuple) and a.elts:
                            from ..astutil import fstring_pattern
                            pat, _ = fstring_pattern(a.elts[0])
                            if pat:
                                ops.append(pat)
        return ops

    def visit_if(st):
        t = st.test
        if isinstance(t, ast.Compare) and len(t.ops) == 1 and \
                isinstance(t.ops[0], ast.Eq) and \
                dotted(t.left) == 'node.op':
            m = opsem.member_name(t.comparators[0])
            if m:
                out[m] = emitted(st.body)
        for s in st.orelse:
            if isinstance(s, ast.If):
                visit_if(s)
    for st in fn_node.body:
        if isinstance(st, ast.If):
            visit_if(st)
    return out


class _Trap(Exception):
    pass


def _mini_run(fn_node, inputs):
    """Run a tiny handler (cmp / eq / lt ...) on concrete cells.  Supports
    only: x = self.pop([T]); if/elif/else over comparisons; assignments of
    constants/conditional expressions; self.push(T, e); self.trap(...)."""
    env = {}
    inputs = list(inputs)
    pushed = []

    class Cell:
        def __init__(self, v):
            self.value = v

    def ev(e):
        if isinstance(e, ast.Attribute) and e.attr == 'value' and \
                isinstance(e.value, ast.Name):
            v = env[e.value.id]
            return v.value if isinstance(v, Cell) else v
        if isinstance(e, ast.Attribute):
            raise ValueError('attr')
        if isinstance(e, ast.Name):
            v = env[e.id]
            return v.value if isinstance(v, Cell) else v
        if isinstance(e, ast.Constant):
            return e.value
        if isinstance(e, ast.UnaryOp) and isinstance(e.op, ast.USub):
            return -ev(e.operand)
        if isinstance(e, ast.Compare) and len(e.ops) == 1:
            l, r = ev(e.left), ev(e.comparators[0])
            return {ast.Eq: l == r, ast.NotEq: l != r, ast.Lt: l < r,
                    ast.LtE: l <= r, ast.Gt: l > r,
                    ast.GtE: l >= r}[type(e.ops[0])]
        if isinstance(e, ast.IfExp):
            return ev(e.body if ev(e.test) else e.orelse)
        raise ValueError(unparse(e))

    def run(body):
        for st in body:
            if isinstance(st, ast.Assign) and len(st.targets) == 1 and \
                    isinstance(st.targets[0], ast.Name):
                v = st.value
                if isinstance(v, ast.Call) and dotted(v.func) == 'self.pop':
                    x = inputs.pop()
                    env[st.targets[0].id] = x if v.args else Cell(x)
                else:
                    env[st.targets[0].id] = ev(v)
            elif isinstance(st, ast.If):
                try:
                    t = ev(st.test)
                except ValueError:
                    # type guard (value.type.is_numeric ...): the guarded
                    # body only traps; skip it
                    if all(isinstance(s, ast.Expr) and
                           isinstance(s.value, ast.Call) and
                           dotted(s.value.func) == 'self.trap'
                           for s in st.body) and not st.orelse:
                        continue
                    raise
                run(st.body if t else st.orelse)
            elif isinstance(st, ast.Expr) and isinstance(st.value, ast.Call):
                d = dotted(st.value.func)
                if d == 'self.push':
                    pushed.append(ev(st.value.args[1]))
                elif d == 'self.trap':
                    raise _Trap()
                elif d and d.split('.')[0] in ('logger', 'logging',
                                               'print'):
                    pass
                else:
                    raise ValueError(d)
            elif isinstance(st, ast.Expr) and \
                    isinstance(st.value, ast.Constant):
                pass
            else:
                raise ValueError(f'stmt {type(st).__name__}')
    run(fn_node.body)
    return pushed


def comparison_semantics(repo, handlers, mangling, mnemonic):
    """Truth of `cmp ; <mnemonic>` on the three orderings (a<b, a=b, a>b)
    with a = left (pushed first).  Exact because _exec_cmp touches the
    operand values only through comparisons (checked)."""
    cmp_h = handlers.get('_exec_cmp')
    h = handlers.get(R.mangle(mnemonic, mangling))
    if cmp_h is None or h is None:
        return None, 'handler missing'
    pops = opsem._pops_in_order(cmp_h.node)
    if len(pops) != 2:
        return None, '_exec_cmp does not pop two values'
    for var, _ in pops:
        if not opsem.pop_value_uses_only_in_compare(cmp_h.node, var):
            return None, '_exec_cmp uses operand values outside comparisons'
    out = []
    try:
        for a, b in ((1, 2), (1, 1), (2, 1)):
            # stack: a pushed first, then b; pops return b then a
            r = _mini_run(cmp_h.node, [a, b])
            if len(r) != 1:
                return None, '_exec_cmp pushes != 1 value'
            r2 = _mini_run(h.node, [r[0]])
            if len(r2) != 1:
                return None, f'{h.name} pushes != 1 value'
            if r2[0] not in (0, -1):
                return None, f'{h.name} pushes {r2[0]}, not a QB boolean'
            out.append(r2[0] == -1)
    except (ValueError, KeyError, _Trap, IndexError) as e:
        return None, f'handler shape not understood: {e!r}'
    return tuple(out), None


def rnd_memory(ctx):
    """RND(0) repeats the last number delivered.  Necessary for that: on
    every path of RngDevice._exec_rnd the number handed to the program is
    the one remembered in last_rnd afterwards."""
    import ast
    from ..absint import (AbsObj, Unk, Interp, Closure, Env, PathEnd,
                          Raised, Unmodelled, explore)
    repo = ctx.repo
    rule = 'C01.rnd-remembers-the-number-it-delivered'
    ctx.rule(rule, 'on every path of RngDevice._exec_rnd (argument <0, =0, '
             '>0; with and without an earlier number) the value pushed is '
             'the object stored in self.last_rnd when the handler returns '
             '(abstract run with opaque numbers)')
    f = repo.func('qvm.machine', 'RngDevice._exec_rnd')

    class Tok(AbsObj):
        def __init__(self, name):
            self.name = name

        def eq_(self, other):
            return other is self

        def __repr__(self):
            return self.name

    class Fn(AbsObj):
        is_callable = True

        def __init__(self, fn):
            self.fn = fn

        def call_(self, args, kwargs, interp):
            return self.fn(*args, **kwargs)

    class Hooks:
        def global_name(self, modname, name, interp):
            if name == 'CellType':
                class NS(AbsObj):
                    def getattr_(self, a, interp):
                        return f'CellType.{a}'
                return NS()
            if name in ('logger', 'logging'):
                class Null(AbsObj):
                    def getattr_(self, a, interp):
                        return Fn(lambda *a, **k: None)
                return Null()
            raise KeyError(name)

        def on_unknown_call(self, f, args, kwargs, node, interp):
            raise Unmodelled('unknown call')
    n = 0
    for initial in (None, 'old'):
        def run(oracle, initial=initial):
            pushed = []
            counter = [0]
            attrs = {'last_rnd': Tok('old') if initial else None}

            def fresh(*a):
                counter[0] += 1
                return Tok(f'new{counter[0]}')

            class Impl(AbsObj):
                def getattr_(self, a, interp):
                    if a.startswith('rng_'):
                        return Fn(fresh)
                    raise Unmodelled(f'impl.{a}')

            class Cpu(AbsObj):
                def getattr_(self, a, interp):
                    if a == 'push':
                        return Fn(lambda t, v: pushed.append(v))
                    raise Unmodelled(f'cpu.{a}')

            class Self(AbsObj):
                def getattr_(self, a, interp):
                    if a == '_get_arg_from_stack':
                        return Fn(lambda *x: Unk('arg', True))
                    if a == 'impl':
                        return Impl()
                    if a == 'cpu':
                        return Cpu()
                    if a in attrs:
                        return attrs[a]
                    raise Unmodelled(f'self.{a}')

                def setattr_(self, a, v, interp):
                    attrs[a] = v
            interp = Interp(Hooks(), oracle)
            clo = Closure(f.node, Env(None, globals_='qvm.machine'),
                          name='_exec_rnd')
            try:
                clo.call_([Self()], {}, interp)
            except (PathEnd, Raised) as e:
                return ('end', str(e))
            return ('ok', pushed, attrs.get('last_rnd'))
        try:
            res = explore(run, 200)
        except Unmodelled as u:
            ctx.observe(f'{f.file}:RngDevice._exec_rnd: not modelled ({u}); '
                        f'undecided')
            ctx.instance(rule, f'{f.file}:RngDevice._exec_rnd:'
                               f'initial={initial}', nontrivial=False)
            continue
        for choices, r in res:
            if r[0] != 'ok':
                continue
            n += 1
            construct = (f'{f.file}:RngDevice._exec_rnd:initial={initial}:'
                         f'path{"".join(map(str, choices))}')
            pushed, last = r[1], r[2]
            ok = len(pushed) == 1 and pushed[0] is last
            ctx.instance(rule, construct, sample={'pushed': repr(pushed),
                                                  'last_rnd': repr(last)})
            if not ok:
                ctx.finding(rule, f'{f.file}:RngDevice._exec_rnd:'
                            f'delivered-not-remembered',
                            f'on a path of _exec_rnd the program receives '
                            f'{pushed} while last_rnd ends as {last}: a '
                            f'following RND(0) does not repeat the number '
                            f'just delivered', f.file, f.line)
    ctx.floor('paths of _exec_rnd analysed', n, 4)


def run(ctx):
    ctx.clauses = [
        'operator/comparison translation chain token -> Operator -> '
        'mnemonic -> CPU handler expression is consistent for all 21 '
        'operators, in operand order',
        'both comparison-mnemonic tables agree',
        'every Operator member is handled by gen_binary_op/gen_unary_op',
        'EXIT FOR / EXIT DO leave the innermost loop of their kind '
        '(emission interpreter)',
    ]
    ctx.not_decided = [
        'behavioural equivalence of compiled programs (values, '
        'conversions, control flow, procedures, arrays, scoping)']
    ctx.assumptions = [
        'the 24-row language table in qbstatic/opsem.py states the QBASIC '
        'meaning of each operator token',
        'expression equivalence is decided syntactically, else on a grid '
        'of 125 sample points (integers and floats)',
    ]
    chain_rules(ctx, 'C01')
    rnd_memory(ctx)
    from .. import gensim
    gensim.check_exit_targets(ctx, 'C01')
    gensim.check_comparison_types(ctx, 'C01')
    return ('Structural clause of C01: for each of the 21 Operator members '
            'the chain token -> Operator (binary/unary_op_from_token) -> '
            'mnemonic (gen_binary_op / gen_unary_op / '
            'gen_compare_case_clause dicts) -> handler (QvmCpu._exec_*) is '
            'resolved from the current source and the expression the '
            'handler applies to (second pop, first pop) is compared with '
            'the language meaning of the token; comparisons are decided by '
            'abstractly evaluating _exec_cmp followed by the comparison '
            'handler on the three possible orderings. Does NOT decide '
            'behavioural equivalence of compiled programs. Also decided by abstract runs: EXIT FOR/DO target the innermost loop of their kind; a comparison uses the arithmetic common type of its operands; RngDevice._exec_rnd remembers the number it delivers.')