"""C02 -- optimisation and compile-time evaluation never change behaviour.

Structural clauses only (DESIGN.md C02)."""
import ast
import ctypes

from .. import registries as R
from .. import opsem
from ..astutil import dotted, const, unparse, walk_shallow, ancestors, canon
from ..cfg import build_cfg, repo_noreturn
from ..model import AnalysisError
from .c01 import chain_rules

LOGICAL = {'AND', 'OR', 'XOR', 'EQV', 'IMP', 'MOD', 'INTDIV', 'NOT'}

# modules whose code runs at compile time
COMPILE_MODULES = ('qbee.', 'qvm.debug_info', 'qvm.memlayout')

# eval() call sites that are propagators, not fold sites
PROPAGATORS = {'eval', 'eval_lvalue', '_eval_numeric', '_eval_string'}

# fold sites exempt from the guard rule, one reason each
FOLD_EXEMPT = {
    'qbee/qvm_codegen.py:QvmCode.optimize:UnaryOp(...).eval()':
        'UnaryOp over an integral NumericLiteral built from a push operand: '
        'UnaryOp.eval saturates instead of raising and its only partial '
        'operation, int(round(.)), is applied to an int',
}


def folder_table(ctx, chain):
    repo = ctx.repo
    f = repo.func('qbee.expr', 'BinaryOp._eval_numeric')
    dicts = opsem.operator_dicts(f.node)
    if not dicts:
        raise AnalysisError('anchor vanished: Operator->lambda table in '
                            'BinaryOp._eval_numeric')
    dnode, tab = dicts[0]
    rule = 'C02.folder-equals-machine'
    ctx.rule(rule, 'for every binary Operator the constant folder applies '
             'the same Python operator, in the same operand order, as the '
             'CPU handler the code generator selects')
    handlers = chain['handlers']
    mangling = chain['mangling']
    for m in chain['binary_members']:
        construct = f'{f.file}:BinaryOp._eval_numeric[{m}]'
        lam = tab.get(m)
        ctx.instance(rule, construct,
                     sample={'operator': m,
                             'fold': unparse(lam) if lam else None})
        if lam is None:
            ctx.finding(rule, construct,
                        f'Operator.{m} has no entry in the folder table '
                        f'(KeyError when a constant expression uses it)',
                        f.file, dnode.lineno)
            continue
        if not isinstance(lam, ast.Lambda) or len(lam.args.args) != 2:
            ctx.finding(rule, construct, 'folder entry is not a 2-argument '
                        'lambda', f.file, lam.lineno)
            continue
        p0, p1 = (a.arg for a in lam.args.args)
        body = opsem.strip_wrappers(lam.body)
        fe = opsem.subst(body, {p0: ast.Name('a', ast.Load()),
                                p1: ast.Name('b', ast.Load())})
        dom = 'int' if m in LOGICAL else 'num'
        mnemonic = chain['mnemonic'].get(m)
        if m.startswith('CMP_'):
            spec = opsem.parse_expr(chain['op_spec'][m][0])
            if not opsem.equivalent(fe, spec):
                ctx.finding(rule, construct,
                            f'folder computes {unparse(fe)} for '
                            f'Operator.{m}; the machine (cmp+{mnemonic}) '
                            f'computes {chain["op_spec"][m][0]}',
                            f.file, lam.lineno)
            continue
        he, why = opsem.binary_handler_expr(
            repo, handlers, R.mangle(mnemonic, mangling)) \
            if mnemonic else (None, 'no mnemonic')
        if he is None:
            continue   # reported by the chain rule
        if not opsem.equivalent(fe, he, domain=dom):
            ctx.finding(rule, construct,
                        f'folder computes {unparse(fe)} for Operator.{m} '
                        f'but the machine handler for {mnemonic!r} computes '
                        f'{unparse(he)}', f.file, lam.lineno,
                        facts={'fold': unparse(fe), 'machine': unparse(he)})
    # unary folder
    uf = repo.func('qbee.expr', 'UnaryOp.eval')
    rule_u = 'C02.unary-folder-equals-machine'
    ctx.rule(rule_u, 'UnaryOp.eval applies, per operator, the operation of '
             'the instruction gen_unary_op emits')
    arms = {}

    def visit_if(st):
        t = st.test
        if isinstance(t, ast.Compare) and len(t.ops) == 1 and \
                isinstance(t.ops[0], ast.Eq) and \
                dotted(t.left) == 'self.op':
            m = opsem.member_name(t.comparators[0])
            if m:
                arms[m] = st.body
        for s in st.orelse:
            if isinstance(s, ast.If):
                visit_if(s)
    for st in uf.node.body:
        if isinstance(st, ast.If):
            visit_if(st)
    rets = [r.value.id for r in ast.walk(uf.node)
            if isinstance(r, ast.Return) and isinstance(r.value, ast.Name)]
    valname = rets[-1] if rets else 'value'
    for m, spec_s in (('NOT', '~a'), ('NEG', '-a'), ('PLUS', 'a')):
        construct = f'{uf.file}:UnaryOp.eval[{m}]'
        ctx.instance(rule_u, construct, sample={'operator': m})
        if m not in arms:
            ctx.finding(rule_u, construct,
                        f'Operator.{m} not handled in UnaryOp.eval',
                        uf.file, uf.line)
            continue
        cur = ast.Name('a', ast.Load())
        ok = True
        for st in arms[m]:
            if isinstance(st, ast.Pass):
                continue
            if isinstance(st, ast.Assign) and len(st.targets) == 1 and \
                    dotted(st.targets[0]) == valname:
                cur = opsem.subst(st.value, {valname: cur})
            else:
                ok = False
        if not ok:
            ctx.finding(rule_u, construct, 'arm is not a sequence of '
                        'assignments to value', uf.file, arms[m][0].lineno)
            continue
        if not opsem.equivalent(cur, opsem.parse_expr(spec_s),
                                names=('a',), domain='int'):
            ctx.finding(rule_u, construct,
                        f'UnaryOp.eval computes {unparse(cur)} for '
                        f'Operator.{m}; the machine computes {spec_s}',
                        uf.file, arms[m][0].lineno)


def peephole_tables(ctx, chain):
    repo = ctx.repo
    f = repo.func('qbee.qvm_codegen', 'QvmCode.optimize')
    rule = 'C02.peephole-op-tables'
    ctx.rule(rule, 'in QvmCode.optimize each Op -> Operator table composes '
             'with gen_binary_op/gen_unary_op to the identity and the '
             'guarding list equals the key set of the table it indexes')
    mn = dict(chain['mnemonic'])
    mn.update({'NOT': 'not', 'NEG': 'neg'})
    n_tabs = 0
    for n in ast.walk(f.node):
        if not (isinstance(n, ast.Subscript) and
                isinstance(n.value, ast.Dict)):
            continue
        d = n.value
        keys = [opsem.member_name(k) for k in d.keys]
        vals = [opsem.member_name(v) for v in d.values]
        if not all(keys) or not all(vals):
            continue
        n_tabs += 1
        for k, v in zip(keys, vals):
            construct = f'{f.file}:QvmCode.optimize[Op.{k}]'
            ctx.instance(rule, construct, sample={'op': k, 'operator': v})
            want = (mn.get(v) or '').upper()
            if want != k:
                ctx.finding(rule, construct,
                            f'peephole folds instruction {k.lower()} with '
                            f'Operator.{v}, whose instruction is '
                            f'{want.lower() or "?"}', f.file, d.lineno)
        # the guarding `cur.op in [...]` list in the enclosing if
        guard = None
        for a in ancestors(n):
            if isinstance(a, ast.If):
                for c in ast.walk(a.test):
                    if isinstance(c, ast.Compare) and len(c.ops) == 1 and \
                            isinstance(c.ops[0], ast.In) and \
                            isinstance(c.comparators[0],
                                       (ast.List, ast.Tuple)):
                        guard = [opsem.member_name(e)
                                 for e in c.comparators[0].elts]
                break
        construct = f'{f.file}:QvmCode.optimize[guard@{",".join(keys[:2])}]'
        ctx.instance(rule, construct, sample={'guard': guard, 'keys': keys})
        if guard is None or set(guard) != set(keys):
            ctx.finding(rule, construct,
                        f'guard list {guard} differs from table keys {keys} '
                        f'(KeyError in the compiler or a missed fold)',
                        f.file, d.lineno)
    ctx.floor('peephole Op->Operator tables', n_tabs, 2)


def _unary_eval_cannot_raise(repo):
    """The premise of the exemption above, re-checked on every run:
    UnaryOp.eval raises nothing arithmetic itself."""
    f = repo.func('qbee.expr', 'UnaryOp.eval')
    for r in ast.walk(f.node):
        if isinstance(r, ast.Raise) and r.exc is not None:
            e = r.exc.func if isinstance(r.exc, ast.Call) else r.exc
            name = (dotted(e) or '').split('.')[-1]
            if name in ('OverflowError', 'ZeroDivisionError',
                        'ArithmeticError', 'ValueError'):
                return False
    return True


def fold_sites(ctx):
    repo = ctx.repo
    rule = 'C02.fold-site-guarded'
    ctx.rule(rule, 'every site that replaces code by the result of '
             '.eval() catches OverflowError and ZeroDivisionError and '
             'leaves the tree / instruction list untouched in the handler')
    n_sites = 0
    for f in repo.all_functions():
        if not f.module.name.startswith(COMPILE_MODULES):
            continue
        if f.name in PROPAGATORS:
            continue
        if f.module.name == 'qbee.grammar':
            continue
        for n in walk_shallow(f.node):
            if not (isinstance(n, ast.Call) and
                    isinstance(n.func, ast.Attribute) and
                    n.func.attr == 'eval' and not n.args):
                continue
            n_sites += 1
            recv = canon(n.func.value, f.node)
            for cls in ('UnaryOp', 'BinaryOp'):
                if recv.startswith(f'<<expr.{cls}('):
                    recv = f'{cls}(...)'
            if recv.startswith('<<for:'):
                recv = 'item-of:' + recv[6:].split('>>')[0][:40]
            construct = f'{f.file}:{f.qualname}:{recv}.eval()'
            guarded = False
            handler_ok = True
            for a in ancestors(n):
                if a is f.node:
                    break
                if isinstance(a, ast.Try):
                    # is n in the try body (not in a handler)?
                    in_body = any(n in list(ast.walk(s)) for s in a.body)
                    if not in_body:
                        continue
                    caught = set()
                    for h in a.handlers:
                        if h.type is None:
                            caught |= {'OverflowError', 'ZeroDivisionError'}
                        elif isinstance(h.type, ast.Tuple):
                            caught |= {dotted(e) for e in h.type.elts}
                        else:
                            caught.add(dotted(h.type))
                        if 'ArithmeticError' in caught or \
                                'Exception' in caught:
                            caught |= {'OverflowError', 'ZeroDivisionError'}
                    if {'OverflowError', 'ZeroDivisionError'} <= caught:
                        guarded = True
                        for h in a.handlers:
                            for s in ast.walk(h):
                                if isinstance(s, (ast.Delete,)):
                                    handler_ok = False
                                if isinstance(s, ast.Assign) and any(
                                        isinstance(t, ast.Subscript)
                                        for t in s.targets):
                                    handler_ok = False
                    break
            ctx.instance(rule, construct,
                         sample={'guarded': guarded, 'line': n.lineno})
            if construct in FOLD_EXEMPT and _unary_eval_cannot_raise(repo):
                ctx.observe(f'fold site exempt: {construct}: '
                            f'{FOLD_EXEMPT[construct]}')
                continue
            if not guarded:
                ctx.finding(rule, construct,
                            f'compile-time evaluation {recv}.eval() in '
                            f'{f.qualname} is not guarded against '
                            f'OverflowError/ZeroDivisionError: an expression '
                            f'that fails at run time crashes the compiler',
                            f.file, n.lineno)
            elif not handler_ok:
                ctx.finding(rule, construct + ':handler',
                            'the exception handler of this fold site '
                            'modifies the instruction list / tree',
                            f.file, n.lineno)
    ctx.floor('compile-time .eval() sites', n_sites, 7)


def _bounds_from_can_hold(repo):
    """{BuiltinType member: (lo, hi_inclusive)} from Type.can_hold."""
    f = repo.func('qbee.expr', 'Type.can_hold')
    out = {}

    def cval(e):
        try:
            return eval(compile(ast.Expression(e), '<c>', 'eval'),
                        {'__builtins__': {}})
        except Exception:
            return None
    for n in ast.walk(f.node):
        if isinstance(n, ast.If) and isinstance(n.test, ast.Compare) and \
                dotted(n.test.left) == 'self._type' and \
                isinstance(n.test.ops[0], ast.Eq):
            member = opsem.member_name(n.test.comparators[0],
                                       ('BuiltinType',))
            for r in n.body:
                if isinstance(r, ast.Return) and \
                        isinstance(r.value, ast.Compare) and \
                        len(r.value.ops) == 2:
                    lo = cval(r.value.left)
                    hi = cval(r.value.comparators[1])
                    if lo is None or hi is None:
                        continue
                    if isinstance(r.value.ops[0], ast.Lt):
                        lo += 1
                    if isinstance(r.value.ops[1], ast.Lt):
                        hi -= 1
                    out[member] = (lo, hi)
    return out


def range_tables(ctx):
    repo = ctx.repo
    rule = 'C02.fold-range-equals-runtime-range'
    ctx.rule(rule, 'the integer width the folder uses to detect overflow '
             'equals the range Type.can_hold enforces at run time')
    bounds = _bounds_from_can_hold(repo)
    if 'INTEGER' not in bounds or 'LONG' not in bounds:
        raise AnalysisError('anchor vanished: INTEGER/LONG ranges in '
                            'Type.can_hold')
    f = repo.func('qbee.expr', 'BinaryOp._eval_numeric')
    limit = None
    for n in ast.walk(f.node):
        if isinstance(n, ast.FunctionDef) and n.name == 'limit':
            limit = n
    if limit is None:
        raise AnalysisError('anchor vanished: limit() in _eval_numeric')
    tab = None
    for n in ast.walk(limit):
        if isinstance(n, ast.Dict) and n.keys and all(
                (dotted(k) or '').startswith('Type.') for k in n.keys):
            tab = n
    if tab is None:
        raise AnalysisError('anchor vanished: Type->ctypes table in limit')
    for k, v in zip(tab.keys, tab.values):
        tname = dotted(k).split('.')[1]
        cname = (dotted(v) or '').split('.')[-1]
        if tname not in ('INTEGER', 'LONG'):
            continue
        construct = f'{f.file}:BinaryOp._eval_numeric.limit[{tname}]'
        ct = getattr(ctypes, cname, None)
        lo, hi = bounds[tname]
        ctx.instance(rule, construct,
                     sample={'type': tname, 'ctypes': cname,
                             'runtime_range': [lo, hi],
                             'sizeof_here': ctypes.sizeof(ct) if ct else None})
        if ct is None:
            ctx.finding(rule, construct, f'unknown ctypes type {cname}',
                        f.file, v.lineno)
            continue
        bits = ctypes.sizeof(ct) * 8
        clo, chi = -2 ** (bits - 1), 2 ** (bits - 1) - 1
        fixed = cname in ('c_int8', 'c_int16', 'c_int32', 'c_int64',
                          'c_short')
        if (clo, chi) != (lo, hi):
            ctx.finding(rule, construct,
                        f'folder checks {tname} overflow with ctypes.{cname} '
                        f'({bits} bits here: [{clo}, {chi}]) but the run-time '
                        f'range is [{lo}, {hi}]: an out-of-range constant is '
                        f'folded instead of trapping at run time',
                        f.file, v.lineno,
                        facts={'ctypes': cname, 'bits': bits})
        elif not fixed:
            ctx.observe(f'{construct}: ctypes.{cname} has the right width '
                        f'on this platform but is platform-dependent')


def level_independence(ctx, pid='C02'):
    repo = ctx.repo
    f = repo.func('qbee.compiler', 'Compiler.compile')
    rule = f'{pid}.passes-unconditional'
    ctx.rule(rule, 'parse and the three semantic passes run unconditionally '
             '(not control-dependent on optimization level or debug flag) '
             'and before folding, code generation and the peephole pass')
    cfg = build_cfg(f.node, repo_noreturn)
    steps = {}
    for n in cfg.stmt_nodes():
        if n.kind != 'stmt':
            continue
        for c in ast.walk(n.ast):
            if isinstance(c, ast.Call):
                d = dotted(c.func) or ''
                if d == 'parse_string':
                    steps.setdefault('parse', []).append(n)
                elif d.endswith('.process_tree'):
                    steps.setdefault('pass', []).append(n)
                elif d.endswith('.fold'):
                    steps.setdefault('fold', []).append(n)
                elif d.endswith('.gen_code'):
                    steps.setdefault('gen', []).append(n)
                elif d.endswith('.optimize'):
                    steps.setdefault('opt', []).append(n)
    if len(steps.get('pass', [])) < 3 or 'parse' not in steps or \
            'gen' not in steps:
        raise AnalysisError('anchor vanished: pass/parse/gen calls in '
                            'Compiler.compile')
    for kind in ('parse', 'pass', 'gen'):
        for n in steps[kind]:
            construct = f'{f.file}:Compiler.compile:{unparse(n.ast)[:40]}'
            conds = cfg.conditions(n)
            ctx.instance(rule, construct,
                         sample={'step': kind, 'conditions': [
                             unparse(t.ast.test) for t, _ in conds]})
            if conds:
                ctx.finding(rule, construct,
                            f'{kind} step is control-dependent on '
                            f'{[unparse(t.ast.test) for t, _ in conds]}',
                            f.file, n.line)
            if cfg.exit not in cfg.reachable(n):
                ctx.finding(rule, construct + ':noexit',
                            'step cannot reach the normal exit', f.file,
                            n.line)
    # ordering: every pass dominates fold/gen/opt
    for later in ('fold', 'gen', 'opt'):
        for ln in steps.get(later, []):
            for pn in steps['pass'] + steps['parse']:
                construct = (f'{f.file}:Compiler.compile:order:'
                             f'{unparse(pn.ast)[:30]}<{later}')
                ctx.instance(rule, construct, nontrivial=True)
                if not cfg.must_pass(ln, lambda x, pn=pn: x is pn):
                    ctx.finding(rule, construct,
                                f'{later} step at line {ln.line} can run '
                                f'without the pass at line {pn.line}',
                                f.file, ln.line)


ROUNDING_SITES = [
    # (module, function qualname, description, required call names)
    ('qbee.expr', 'Type.coerce', 'run-time cell coercion float->int',
     {'round'}),
    ('qbee.stmt', 'ArrayDimRange.static_lbound',
     'compile-time array lower bound', {'round'}),
    ('qbee.stmt', 'ArrayDimRange.static_ubound',
     'compile-time array upper bound', {'round'}),
    ('qbee.expr', 'UnaryOp.eval', 'compile-time NOT on a float', {'round'}),
    ('qbee.qvm_codegen', 'QvmCode.optimize',
     'peephole push+conv fold float->int', {'round'}),
    ('qvm.cpu', 'QvmCpu._exec_cint', 'CINT', {'round'}),
    ('qvm.cpu', 'QvmCpu._exec_clng', 'CLNG', {'round'}),
]


def rounding_agreement(ctx):
    repo = ctx.repo
    rule = 'C02.float-to-int-rounds-everywhere'
    ctx.rule(rule, 'every compile-time and run-time float->integer '
             'conversion site rounds (round()), so folded values equal '
             'run-time values; sibling agreement across the sites')
    handlers, _, _ = R.cpu_handlers(repo)
    for mod, qn, desc, req in ROUNDING_SITES:
        f = repo.func(mod, qn)
        names = {dotted(c.func) for c in ast.walk(f.node)
                 if isinstance(c, ast.Call)}
        construct = f'{f.file}:{qn}'
        ctx.instance(rule, construct, sample={'site': desc,
                                              'calls': sorted(
                                                  n for n in names if n)[:8]})
        if not (req & names):
            ctx.finding(rule, construct,
                        f'{desc}: no round() on the float->int path '
                        f'(sibling sites round; truncation here makes '
                        f'folded and run-time values differ)',
                        f.file, f.line)
        # int() applied directly to something not produced by round()
        for c in ast.walk(f.node):
            if isinstance(c, ast.Call) and dotted(c.func) in (
                    'math.trunc', 'math.ceil'):
                ctx.finding(rule, construct + ':' + dotted(c.func),
                            f'{desc}: uses {dotted(c.func)} where sibling '
                            f'sites use round()', f.file, c.lineno)
    # the conv family: float -> int uses int(round(n))
    convs = [h for n, h in handlers.items() if n.startswith('_exec_conv_')]
    ctx.floor('conv handlers', len(convs), 12)
    outer = getattr(convs[0], 'outer', None)
    if outer is None:
        raise AnalysisError('anchor vanished: conv factory')
    has_round = False
    guarded_on_float_int = False
    for n in ast.walk(outer):
        if isinstance(n, ast.If):
            t = unparse(n.test)
            if 'float' in t and 'int' in t:
                for s in ast.walk(n):
                    if isinstance(s, ast.Call) and dotted(s.func) == 'round':
                        has_round = True
                        guarded_on_float_int = True
    construct = 'qvm/cpu.py:conv-family-factory'
    ctx.instance(rule, construct, sample={'rounds_on_float_to_int':
                                          has_round})
    if not (has_round and guarded_on_float_int):
        ctx.finding(rule, construct,
                    'the conv<src><dst> handler factory does not round when '
                    'converting a float cell to an integer cell',
                    'qvm/cpu.py', outer.lineno)


def peephole_guards(ctx):
    """The push+conv fold is taken only when the folded value fits the
    destination type (otherwise the run-time conversion error must
    remain)."""
    repo = ctx.repo
    f = repo.func('qbee.qvm_codegen', 'QvmCode.optimize')
    rule = 'C02.conv-fold-range-guard'
    ctx.rule(rule, 'the push+conv peephole fold replaces instructions only '
             'under a can_hold() test of the destination type')
    cfg = build_cfg(f.node, repo_noreturn)
    n_sites = 0
    for n in cfg.stmt_nodes():
        if n.kind != 'stmt' or not isinstance(n.ast, ast.Assign):
            continue
        tgt = n.ast.targets[0]
        if not (isinstance(tgt, ast.Subscript) and
                dotted(tgt.value) == 'self._instrs'):
            continue
        v = n.ast.value
        if not (isinstance(v, ast.Call) and dotted(v.func) == 'QvmInstr'
                and v.args and isinstance(v.args[0], ast.JoinedStr)):
            continue
        conds = cfg.conditions(n)
        texts = [(unparse(t.ast.test), lab) for t, lab in conds]
        if not any('Op.CONV' in t and lab == 'true' for t, lab in texts):
            continue
        n_sites += 1
        construct = f'{f.file}:QvmCode.optimize:conv-fold'
        ctx.instance(rule, construct, sample={'conditions': texts})
        if not any('can_hold' in t and lab == 'true' for t, lab in texts):
            ctx.finding(rule, construct,
                        'push+conv fold is not guarded by can_hold(): an '
                        'out-of-range constant conversion is folded at '
                        'compile time instead of failing at run time',
                        f.file, n.line)
            continue
        # the value that was tested is the value that is pushed: between
        # the can_hold(x) test and the push, x changes only by the type
        # constructor (py_type); rounding after the test could leave the
        # range again (2147483647.6 passes `< 2**31`, rounds to 2**31)
        for t, lab in conds:
            if lab != 'true':
                continue
            calls = [c for c in ast.walk(t.ast.test)
                     if isinstance(c, ast.Call) and
                     isinstance(c.func, ast.Attribute) and
                     c.func.attr == 'can_hold' and c.args and
                     isinstance(c.args[0], ast.Name)]
            for c in calls:
                x = c.args[0].id
                body = t.ast.body
                changed = []
                for st in body:
                    if st is n.ast:
                        break
                    for a in ast.walk(st):
                        if isinstance(a, (ast.Assign, ast.AugAssign)):
                            tg = a.targets if isinstance(a, ast.Assign) \
                                else [a.target]
                            if any(isinstance(g, ast.Name) and g.id == x
                                   for g in tg):
                                v2 = a.value
                                ok = isinstance(v2, ast.Call) and \
                                    isinstance(v2.func, ast.Attribute) and \
                                    v2.func.attr == 'py_type'
                                if not ok:
                                    changed.append(a)
                c2 = construct + ':tested-value-is-pushed'
                ctx.instance(rule, c2, sample={'changed_after_test':
                                               [unparse(a) for a in changed]})
                for a in changed:
                    ctx.finding(rule, c2,
                                f'after the can_hold({x}) test the value is '
                                f'changed by `{unparse(a)[:50]}` before it '
                                f'is pushed: a value that passes the test '
                                f'can leave the range again (rounding up at '
                                f'the upper bound) and the assembler then '
                                f'fails on the operand', f.file, a.lineno)
    # the rounding step of the fold covers every float source: its guard
    # is about the value (isinstance float), a Type predicate, or names
    # both float type chars; a guard naming one of '!' / '#' leaves the
    # other truncated by int() while the conv handler rounds
    rule_r = 'C02.conv-fold-rounds-every-float-source'
    ctx.rule(rule_r, 'the round() of the push+conv fold is guarded only by '
             'conditions that hold for SINGLE and DOUBLE sources alike')
    for n in cfg.stmt_nodes():
        if n.kind != 'stmt' or not any(
                isinstance(c, ast.Call) and dotted(c.func) == 'round'
                for c in ast.walk(n.ast)):
            continue
        conds = cfg.conditions(n)
        if not any('Op.CONV' in unparse(t.ast.test) and lab == 'true'
                   for t, lab in conds):
            continue
        construct = f'{f.file}:QvmCode.optimize:conv-fold:round-guard'
        partial = []
        for t, lab in conds:
            test = t.ast.test
            if 'Op.CONV' in unparse(test):
                continue
            conj = test.values if isinstance(test, ast.BoolOp) and \
                isinstance(test.op, ast.And) and lab == 'true' else [test]
            for cj in conj:
                if not isinstance(cj, ast.Compare) or len(cj.ops) != 1:
                    continue
                consts = [x.value for x in ast.walk(cj)
                          if isinstance(x, ast.Constant) and
                          isinstance(x.value, str)]
                chars = {ch for cst in consts for ch in cst
                         if ch in '!#'} if all(
                    len(cst) <= 4 for cst in consts) else set()
                if chars and chars != {'!', '#'}:
                    partial.append((unparse(cj), sorted(chars)))
        ctx.instance(rule_r, construct,
                     sample={'conditions': [(unparse(t.ast.test), lab)
                                            for t, lab in conds]})
        for txt, chars in partial:
            ctx.finding(rule_r, construct,
                        f'the fold rounds only under `{txt}`, which names '
                        f'float type char(s) {chars} and not the other: a '
                        f'constant of the other float type is truncated by '
                        f'the integer constructor at -O2 while the conv '
                        f'instruction rounds it at -O0', f.file, n.line)
    ctx.floor('push+conv fold sites', n_sites, 1)


def dead_code_premises(ctx):
    """The peephole pass deletes an instruction that follows a 'jump-like'
    instruction or a halt.  That is sound only if the CPU handler of every
    such instruction transfers control unconditionally and does not save
    the fall-through address."""
    repo = ctx.repo
    rule = 'C02.dead-code-premise-unconditional-transfer'
    ctx.rule(rule, 'every Op the peephole pass treats as making the next '
             'instruction unreachable (the jump-like list, HALT) has a CPU '
             'handler that assigns pc (or halts) on every normal path and '
             'does not push the return address')
    f = repo.func('qbee.qvm_codegen', 'QvmCode.optimize')
    handlers, _, _ = R.cpu_handlers(repo)
    mangling = R.op_mangling(repo)
    # lists of Op members used as `X.op in <list> and Y.op in <list>`
    from ..astutil import local_defs
    lists = {}
    for name, ds in local_defs(f.node).items():
        for kind, v in ds:
            if kind == 'assign' and isinstance(v, ast.List) and v.elts and \
                    all(opsem.member_name(e) for e in v.elts):
                lists[name] = [opsem.member_name(e) for e in v.elts]
    jumpish = None
    for n in ast.walk(f.node):
        if isinstance(n, ast.If) and isinstance(n.test, ast.BoolOp) and \
                isinstance(n.test.op, ast.And):
            names = [c.comparators[0].id for c in n.test.values
                     if isinstance(c, ast.Compare) and
                     isinstance(c.ops[0], ast.In) and
                     isinstance(c.comparators[0], ast.Name)]
            if len(names) == 2 and names[0] == names[1] and \
                    names[0] in lists and any(
                        isinstance(s, ast.Delete) for s in n.body):
                jumpish = lists[names[0]]
    if jumpish is None:
        raise AnalysisError('anchor vanished: jump-like list of the '
                            'consecutive-jump elimination')
    ctx.floor('jump-like ops', len(jumpish), 3)
    for m in jumpish + ['HALT']:
        h = handlers.get(R.mangle(m.lower(), mangling))
        construct = f'{f.file}:QvmCode.optimize:unreachable-after[{m}]'
        if h is None:
            ctx.instance(rule, construct)
            ctx.finding(rule, construct, f'Op.{m} has no CPU handler',
                        f.file, f.line)
            continue
        cfg = build_cfg(h.node, repo_noreturn)

        def sets(x, what):
            return x.kind == 'stmt' and isinstance(x.ast, ast.Assign) and \
                any(dotted(t) == what for t in x.ast.targets)
        what = 'self.halted' if m == 'HALT' else 'self.pc'
        uncond = cfg.must_pass(cfg.exit, lambda x: sets(x, what))
        saves = any(isinstance(c, ast.Call) and dotted(c.func) == 'self.push'
                    and len(c.args) == 2 and
                    unparse(c.args[1]) == 'self.pc'
                    for c in ast.walk(h.node))
        ctx.instance(rule, construct, sample={'handler': h.qualname,
                                              'unconditional': uncond,
                                              'saves_return': saves})
        if not uncond or saves:
            ctx.finding(rule, construct,
                        f'the peephole pass deletes the instruction after '
                        f'{m.lower()}, but {h.qualname} '
                        f'{"does not transfer control on every path" if not uncond else "saves the fall-through address"}'
                        f': reachable code is removed at -O2', f.file,
                        f.line)


def string_fold_order(ctx):
    """The machine concatenates left + right (a = second pop = left operand,
    C01 operator chain); the folder must concatenate in the same order."""
    from ..astutil import canon
    repo = ctx.repo
    rule = 'C02.string-folder-equals-machine'
    ctx.rule(rule, 'BinaryOp._eval_string concatenates the value of the '
             'left operand before the value of the right one, as _exec_add '
             'does on the operand stack')
    f = repo.func('qbee.expr', 'BinaryOp._eval_string')
    n = 0
    for r in ast.walk(f.node):
        if isinstance(r, ast.Return) and isinstance(r.value, ast.BinOp) and \
                isinstance(r.value.op, ast.Add):
            n += 1
            lt = canon(r.value.left, f.node)
            rt = canon(r.value.right, f.node)
            ok = 'self.left' in lt and 'self.right' not in lt and \
                'self.right' in rt and 'self.left' not in rt
            construct = f'{f.file}:BinaryOp._eval_string:concat'
            ctx.instance(rule, construct, sample={'left': lt, 'right': rt})
            if not ok:
                ctx.finding(rule, construct,
                            f'the folder concatenates `{lt}` + `{rt}`; the '
                            f'machine computes left + right: a constant '
                            f'string expression changes value at -O1',
                            f.file, r.lineno)
    if n == 0:
        ctx.observe('BinaryOp._eval_string is not a plain `a + b` return; '
                    'string folding order undecided')
    # BinaryOp.type admits two operators classes on strings: + and the
    # comparisons (INTEGER result).  eval() sends both to _eval_string, so
    # the concatenation must be conditional on the operator
    from ..cfg import build_cfg, repo_noreturn
    rule2 = 'C02.string-folder-distinguishes-comparisons'
    ctx.rule(rule2, 'every concatenating return of BinaryOp._eval_string is '
             'reached only after a test of the operator (a dominating '
             'condition or an earlier returning `if` that mentions self.op): '
             'a comparison of two constant strings has an INTEGER result')
    ev = repo.func('qbee.expr', 'BinaryOp.eval')
    routes_all = not any(
        isinstance(i, ast.If) and 'self.op' in unparse(i.test)
        for i in ast.walk(ev.node))
    cfg = build_cfg(f.node, repo_noreturn)
    for node in cfg.stmt_nodes():
        r = node.ast
        if not (node.kind == 'stmt' and isinstance(r, ast.Return) and
                isinstance(r.value, ast.BinOp) and
                isinstance(r.value.op, ast.Add)):
            continue
        conds = [unparse(t.ast.test) for t, lab in cfg.conditions(node)]
        earlier = [unparse(i.test) for i in walk_shallow(f.node)
                   if isinstance(i, ast.If) and i.lineno < r.lineno and
                   any(isinstance(b, ast.Return) for b in ast.walk(i))]
        tested = any('self.op' in t for t in conds + earlier)
        construct = f'{f.file}:BinaryOp._eval_string:operator-tested'
        ctx.instance(rule2, construct, sample={
            'conditions': conds, 'earlier_returning_ifs': earlier,
            'eval_routes_every_string_operator_here': routes_all})
        if routes_all and not tested:
            ctx.finding(rule2, construct,
                        'BinaryOp._eval_string returns the concatenation '
                        'whatever the operator: a constant string comparison '
                        '("a" < "b") is folded to a string, from which the '
                        'folder then builds an INTEGER literal (ValueError '
                        'in the compiler at -O1 and above)', f.file,
                        r.lineno)


def fold_returns(ctx):
    """Constant folding replaces an expression by a *literal* holding its
    value (or leaves it alone).  A fold() that returns one of the node's
    operands changes what kind of expression the parent sees -- an argument
    `+a` would become the variable `a` and be passed by reference."""
    repo = ctx.repo
    rule = 'C02.fold-replaces-only-by-literals'
    ctx.rule(rule, 'every fold() method returns self, the result of the '
             'inherited fold(), or a literal node built from the evaluated '
             'value (NumericLiteral / StringLiteral); never a child '
             'expression')
    n = 0
    lit = ('NumericLiteral', 'StringLiteral')
    for f in repo.all_functions():
        if f.name != 'fold' or f.cls is None or \
                not f.module.name.startswith('qbee.'):
            continue
        from ..astutil import local_defs
        defs = local_defs(f.node)
        for r in walk_shallow(f.node):
            if not isinstance(r, ast.Return) or r.value is None:
                continue
            n += 1
            v = r.value
            ok = False
            if isinstance(v, ast.Name) and v.id == 'self':
                ok = True
            elif isinstance(v, ast.Call) and dotted(v.func) in lit:
                ok = True
            elif isinstance(v, ast.Call) and \
                    unparse(v.func) == 'super().fold':
                ok = True
            elif isinstance(v, ast.Name) and v.id in defs and all(
                    k == 'assign' and isinstance(d, ast.Call) and
                    dotted(d.func) in lit for k, d in defs[v.id]):
                ok = True
            construct = f'{f.file}:{f.qualname}:return {unparse(v)[:40]}'
            ctx.instance(rule, construct, sample={'ok': ok})
            if not ok:
                ctx.finding(rule, construct,
                            f'{f.qualname} can return `{unparse(v)[:60]}`: '
                            f'folding would replace the expression by '
                            f'something other than a literal of its value '
                            f'(an operand keeps its own kind, e.g. a '
                            f'variable is then passed by reference)',
                            f.file, r.lineno)
    ctx.floor('return statements of fold() methods', n, 3)


def comparison_operand_type(ctx):
    """The generated code compares two numbers in the bigger of their two
    types (gen_binary_op); the result of a comparison is INTEGER.  The
    folder must coerce the operands to the former, not the latter: coerced
    to the result type, 1.2 < 1.4 becomes 1 < 1."""
    repo = ctx.repo
    from .. import pat
    rule = 'C02.comparison-folded-in-operand-type'
    ctx.rule(rule, 'in BinaryOp._eval_numeric the type the evaluated '
             'operands are coerced to is not unconditionally self.type '
             '(INTEGER for a comparison): it is re-bound under a test of '
             'op.is_comparison, as gen_binary_op picks the common operand '
             'type for cmp')
    f = repo.func('qbee.expr', 'BinaryOp._eval_numeric')
    ty = repo.func('qbee.expr', 'BinaryOp.type')
    cmp_is_int = pat.has('if self.op.is_comparison:\n    return Type.INTEGER',
                         ty.node)
    sites = []
    for c in ast.walk(f.node):
        if isinstance(c, ast.Call) and isinstance(c.func, ast.Attribute) \
                and c.func.attr == 'coerce' and c.args and any(
                    isinstance(e, ast.Call) and isinstance(
                        e.func, ast.Attribute) and e.func.attr == 'eval'
                    for e in ast.walk(c.args[0])):
            sites.append(c)
    if not sites:
        ctx.observe('BinaryOp._eval_numeric no longer coerces evaluated '
                    'operands: comparison operand type not decided here')
        return
    for c in sites:
        recv = c.func.value
        construct = f'{f.file}:BinaryOp._eval_numeric:coerce(' \
                    f'{unparse(c.args[0])[:24]})'
        rebound = False
        if isinstance(recv, ast.Name):
            for i in ast.walk(f.node):
                if isinstance(i, ast.If) and \
                        'is_comparison' in unparse(i.test) and any(
                            isinstance(a, ast.Assign) and any(
                                isinstance(t, ast.Name) and t.id == recv.id
                                for t in a.targets)
                            for b in i.body for a in ast.walk(b)):
                    rebound = True
        elif isinstance(recv, ast.IfExp) and \
                'is_comparison' in unparse(recv.test):
            rebound = True
        plain = unparse(recv) == 'self.type' or (
            isinstance(recv, ast.Name) and not rebound)
        ctx.instance(rule, construct, sample={
            'coerced_to': unparse(recv), 'rebound_for_comparisons': rebound,
            'comparison_result_is_INTEGER': cmp_is_int})
        if cmp_is_int and plain:
            ctx.finding(rule, construct,
                        f'operands are coerced to `{unparse(recv)}`, the '
                        f'result type, which is INTEGER for a comparison: '
                        f'a constant comparison of non-integral numbers is '
                        f'folded on rounded operands (1.2 < 1.4 -> 0 at -O1, '
                        f'-1 at -O0)', f.file, c.lineno)


def run(ctx):
    ctx.clauses = [
        'folder == machine operator by operator (BinaryOp._eval_numeric, '
        'UnaryOp.eval vs CPU handlers); peephole Op<->Operator tables '
        'compose to identity; guard lists equal table keys',
        'every compile-time .eval() fold site is guarded against '
        'OverflowError/ZeroDivisionError',
        'folder overflow width == run-time range (Type.can_hold)',
        'passes run unconditionally and before fold/gen/optimize',
        'all float->int conversion sites round; push+conv fold guarded by '
        'can_hold',
    ]
    ctx.not_decided = [
        'that folded values equal run-time values beyond operator identity '
        'and rounding mode (coercion order)',
        'soundness of each peephole rewrite as a program transformation',
    ]
    ctx.assumptions = ['ctypes widths are those of this platform',
                       'language table of opsem.py']
    chain = chain_rules(ctx, 'C02')
    folder_table(ctx, chain)
    peephole_tables(ctx, chain)
    fold_sites(ctx)
    range_tables(ctx)
    level_independence(ctx)
    rounding_agreement(ctx)
    comparison_operand_type(ctx)
    peephole_guards(ctx)
    dead_code_premises(ctx)
    fold_returns(ctx)
    string_fold_order(ctx)
    from .. import peephole
    peephole.check(ctx, 'C02')
    return ('Structural clauses of C02 decided on the current source: '
            'operator identity between the constant folder, the peephole '
            'tables and the CPU handlers; guard (try/except) on every '
            'compile-time evaluation site; overflow width used by the '
            'folder vs. the run-time range; unconditional execution of the '
            'semantic passes; rounding agreement of all float->int sites. '
            'Does NOT decide value equality of folded results in general '
            'nor soundness of each peephole rewrite. Also: QvmCode.optimize is interpreted on every instruction window of length <= 3 over a representative alphabet and each non-fold rewrite is compared with the original on the CPU handlers (refutation only); fold() returns only literals; the string folder concatenates like the machine; the value tested by can_hold is the value pushed.')