"""CLI: python -m qbstatic.check <id> --tier quick|thorough
        python -m qbstatic.check --replay <path>
        python -m qbstatic.check all --tier quick
"""
import argparse
import importlib
import json
import os
import sys
import traceback

from .model import Repo, AnalysisError
from .report import Ctx

CLAIMED = ['C01', 'C02', 'C03', 'C04', 'C05', 'C06', 'C07', 'C08', 'C09',
           'C10', 'C11', 'C12', 'C13', 'C14', 'C15', 'C16', 'C17', 'C18',
           'C20']


def run_one(pid, tier, repo=None, verbose=True, only_key=None):
    try:
        repo = repo or Repo()
        mod = importlib.import_module(f'.props.{pid.lower()}',
                                      package='qbstatic')
        ctx = Ctx(pid, tier, repo)
        explanation = mod.run(ctx)
        if only_key is not None:
            hits = [f for f in ctx.findings if f.key == only_key]
            if hits:
                for f in hits:
                    print(f'REPLAY property={pid} still derived: {f}')
                    print(json.dumps(f.facts, indent=1, default=str))
                return 1
            print(f'REPLAY property={pid} key no longer derived: {only_key}')
            return 0
        return ctx.finish(explanation, verbose=verbose)
    except AnalysisError as e:
        print(f'ANALYSIS-ERROR property={pid} {e}')
        return 2
    except Exception:
        print(f'ANALYSIS-ERROR property={pid} internal failure of the '
              f'analyser:')
        traceback.print_exc(file=sys.stdout)
        return 2


def main(argv=None):
    ap = argparse.ArgumentParser()
    ap.add_argument('pid', nargs='?')
    ap.add_argument('--tier', default=os.environ.get('VERIF_TIER', 'quick'),
                    choices=['quick', 'thorough'])
    ap.add_argument('--replay')
    args = ap.parse_args(argv)
    if args.replay:
        rec = json.loads(open(args.replay).read())
        return run_one(rec['property'], 'thorough', only_key=rec['key'])
    if not args.pid:
        ap.error('property id required')
    if args.pid == 'all':
        repo = Repo()
        rc = 0
        for pid in CLAIMED:
            r = run_one(pid, args.tier, repo)
            rc = max(rc, r)
        return rc
    return run_one(args.pid.upper(), args.tier)


if __name__ == '__main__':
    sys.exit(main())
