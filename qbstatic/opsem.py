"""Operator semantics extraction: token -> Operator -> mnemonic -> handler
expression, folder lambdas, peephole tables.  Shared by C01 and C02."""
import ast
import itertools

from .model import AnalysisError
from .astutil import dotted, const, unparse, walk_shallow

# The source language's meaning of each operator token, as a Python
# expression over (a, b) = (left operand, right operand).  This is the
# language definition, not a copy of repository text.
BINARY_SPEC = {
    '+': 'a + b', '-': 'a - b', '*': 'a * b', '/': 'a / b',
    'mod': 'a % b', '\\': 'a // b', '^': 'a ** b',
    '=': 'a == b', '<>': 'a != b', '><': 'a != b',
    '<=': 'a <= b', '=<': 'a <= b', '>=': 'a >= b', '=>': 'a >= b',
    '<': 'a < b', '>': 'a > b',
    'and': 'a & b', 'or': 'a | b', 'xor': 'a ^ b',
    'eqv': '~(a ^ b)', 'imp': '~a | b',
}
UNARY_SPEC = {'not': '~a', '-': '-a', '+': '+a'}


def parse_expr(s):
    return ast.parse(s, mode='eval').body


class _Subst(ast.NodeTransformer):
    def __init__(self, mapping):
        self.mapping = mapping

    def visit_Name(self, node):
        if node.id in self.mapping:
            return clone(self.mapping[node.id])
        return node

    def visit_Attribute(self, node):
        d = dotted(node)
        if d in self.mapping:
            return clone(self.mapping[d])
        return self.generic_visit(node)


def clone(expr):
    """Copy of an expression without the model's _parent back-pointers."""
    return ast.parse(ast.unparse(expr), mode='eval').body


def subst(expr, mapping):
    return _Subst(mapping).visit(clone(expr))


def norm(expr):
    return ast.dump(expr, annotate_fields=False, include_attributes=False)


_SAMPLES_INT = [-7, -3, -2, -1, 0, 1, 2, 3, 5, 12]
_SAMPLES_FLT = [-2.5, -1.0, 0.5, 1.5, 3.25]


def _ev(e, env):
    if isinstance(e, ast.Constant):
        return e.value
    if isinstance(e, ast.Name):
        return env[e.id]
    if isinstance(e, ast.UnaryOp):
        v = _ev(e.operand, env)
        if isinstance(e.op, ast.Invert):
            return ~v
        if isinstance(e.op, ast.USub):
            return -v
        if isinstance(e.op, ast.UAdd):
            return +v
        if isinstance(e.op, ast.Not):
            return not v
    if isinstance(e, ast.BinOp):
        l, r = _ev(e.left, env), _ev(e.right, env)
        op = e.op
        if isinstance(op, ast.Add):
            return l + r
        if isinstance(op, ast.Sub):
            return l - r
        if isinstance(op, ast.Mult):
            return l * r
        if isinstance(op, ast.Div):
            return l / r
        if isinstance(op, ast.FloorDiv):
            return l // r
        if isinstance(op, ast.Mod):
            return l % r
        if isinstance(op, ast.Pow):
            return l ** r
        if isinstance(op, ast.BitAnd):
            return l & r
        if isinstance(op, ast.BitOr):
            return l | r
        if isinstance(op, ast.BitXor):
            return l ^ r
    if isinstance(e, ast.Compare) and len(e.ops) == 1:
        l, r = _ev(e.left, env), _ev(e.comparators[0], env)
        op = e.ops[0]
        return {ast.Eq: l == r, ast.NotEq: l != r, ast.Lt: l < r,
                ast.LtE: l <= r, ast.Gt: l > r, ast.GtE: l >= r}[type(op)]
    if isinstance(e, ast.IfExp):
        return _ev(e.body if _ev(e.test, env) else e.orelse, env)
    if isinstance(e, ast.Call) and isinstance(e.func, ast.Name) and \
            e.func.id in ('int', 'round', 'abs', 'float') and \
            len(e.args) == 1 and not e.keywords:
        return {'int': int, 'round': round, 'abs': abs,
                'float': float}[e.func.id](_ev(e.args[0], env))
    raise ValueError(f'unsupported: {unparse(e)}')


def equivalent(e1, e2, names=('a', 'b'), domain='num'):
    """Syntactic equality after normalisation, else agreement on a grid of
    integer (and, where both are defined, float) sample points."""
    if norm(e1) == norm(e2):
        return True
    pts = list(itertools.product(_SAMPLES_INT, repeat=len(names)))
    if domain == 'num':
        pts += list(itertools.product(_SAMPLES_FLT, repeat=len(names)))
    compared = 0
    for p in pts:
        env = dict(zip(names, p))
        try:
            v1 = _ev(e1, env)
        except ZeroDivisionError:
            v1 = 'zde'
        except (TypeError, OverflowError):
            v1 = 'err'
        except ValueError:
            return False
        try:
            v2 = _ev(e2, env)
        except ZeroDivisionError:
            v2 = 'zde'
        except (TypeError, OverflowError):
            v2 = 'err'
        except ValueError:
            return False
        if v1 != v2 or type(v1) != type(v2):
            # bool vs int results of comparisons are compared by truth
            if isinstance(v1, (bool, int)) and isinstance(v2, (bool, int)) \
                    and bool(v1) == bool(v2) and \
                    (isinstance(v1, bool) or isinstance(v2, bool)):
                compared += 1
                continue
            return False
        compared += 1
    return compared > 0


# ---------------------------------------------------------------------------
# dict tables keyed by Operator / Op members

def member_name(expr, enum_names=('Operator', 'Op', 'CanonicalOp')):
    d = dotted(expr)
    if not d:
        return None
    parts = d.split('.')
    if len(parts) >= 2 and parts[-2] in enum_names:
        return parts[-1]
    return None


def token_tables(repo):
    """(binary token->Operator, unary token->Operator)."""
    out = []
    for fname in ('Operator.binary_op_from_token',
                  'Operator.unary_op_from_token'):
        f = repo.func('qbee.expr', fname)
        d = None
        for n in ast.walk(f.node):
            if isinstance(n, ast.Dict):
                d = n
                break
        if d is None:
            raise AnalysisError(f'anchor vanished: dict in {fname}')
        tab = {}
        for k, v in zip(d.keys, d.values):
            tab[const(k)] = (member_name(v), k.lineno)
        out.append((tab, f))
    return out


def operator_dicts(fn_node, key_enums=('Operator',)):
    """All dict displays in a function whose keys are enum members:
    [(dict node, {member: value ast})]."""
    out = []
    for n in ast.walk(fn_node):
        if isinstance(n, ast.Dict) and n.keys and all(
                k is not None and member_name(k, key_enums) for k in n.keys):
            out.append((n, {member_name(k, key_enums): v
                            for k, v in zip(n.keys, n.values)}))
    return out


# ---------------------------------------------------------------------------
# handler expression extraction

def _pops_in_order(fn_node):
    """[(var name, call node)] for `x = self.pop(...)` statements in source
    order (shallow)."""
    out = []
    for n in walk_shallow(fn_node):
        if isinstance(n, ast.Assign) and len(n.targets) == 1 and \
                isinstance(n.targets[0], ast.Name) and \
                isinstance(n.value, ast.Call) and \
                dotted(n.value.func) in ('self.pop', 'self.stack.pop'):
            out.append((n.targets[0].id, n.value, n.lineno))
    out.sort(key=lambda t: t[2])
    return [(a, b) for a, b, _ in out]


def _assignments(fn_node, name):
    return [n for n in walk_shallow(fn_node)
            if isinstance(n, ast.Assign) and len(n.targets) == 1 and
            isinstance(n.targets[0], ast.Name) and n.targets[0].id == name]


def _push_calls(fn_node):
    return [n for n in walk_shallow(fn_node)
            if isinstance(n, ast.Call) and dotted(n.func) == 'self.push']


def binary_handler_expr(repo, handlers, name):
    """Expression over (a, b) = (second pop, first pop) that handler `name`
    pushes, or raises AnalysisError with a reason."""
    f = handlers.get(name)
    if f is None:
        return None, f'no handler {name}'
    node = f.node
    # delegation: self._bitwise(lambda a, b: E)
    for n in walk_shallow(node):
        if isinstance(n, ast.Call) and isinstance(n.func, ast.Attribute) and \
                dotted(n.func.value) == 'self' and n.args and \
                isinstance(n.args[0], ast.Lambda) and f.cls is not None:
            helper = repo.find_method(f.cls, n.func.attr)
            if helper is None:
                return None, f'helper {n.func.attr} not found'
            lam = n.args[0]
            hp = helper.node.args.args[1].arg if \
                len(helper.node.args.args) > 1 else None
            hexpr, why = _direct_binary_expr(helper.node, callee_param=hp)
            if hexpr is None:
                return None, f'helper {n.func.attr}: {why}'
            # hexpr is OPCALL(x, y) with x,y over a/b; substitute in lambda
            params = [a.arg for a in lam.args.args]
            if len(params) != 2 or not isinstance(hexpr, ast.Call) or \
                    len(hexpr.args) != 2:
                return None, 'helper does not apply op to two values'
            return subst(lam.body, {params[0]: hexpr.args[0],
                                    params[1]: hexpr.args[1]}), None
    return _direct_binary_expr(node)


def _direct_binary_expr(node, callee_param=None):
    pops = _pops_in_order(node)
    if len(pops) < 2:
        return None, 'fewer than two pops'
    right_var, left_var = pops[0][0], pops[1][0]
    pushes = _push_calls(node)
    if len(pushes) != 1 or len(pushes[0].args) != 2:
        return None, f'{len(pushes)} push calls'
    e = pushes[0].args[1]
    seen = set()
    while isinstance(e, ast.Name) and e.id not in seen:
        seen.add(e.id)
        asg = _assignments(node, e.id)
        if len(asg) != 1:
            break
        e = asg[0].value
    mapping = {f'{left_var}.value': ast.Name('a', ast.Load()),
               f'{right_var}.value': ast.Name('b', ast.Load())}
    e = subst(e, mapping)
    return e, None


def unary_handler_expr(handlers, name):
    f = handlers.get(name)
    if f is None:
        return None, f'no handler {name}'
    pops = _pops_in_order(f.node)
    if len(pops) != 1:
        return None, f'{len(pops)} pops'
    var = pops[0][0]
    pushes = _push_calls(f.node)
    if len(pushes) != 1:
        return None, f'{len(pushes)} push calls'
    e = subst(pushes[0].args[1], {f'{var}.value': ast.Name('a', ast.Load())})
    return e, None


def pop_value_uses_only_in_compare(fn_node, var):
    """True iff every `var.value` / bare `var` (typed pop) occurrence is a
    direct operand of a Compare."""
    for n in walk_shallow(fn_node):
        if isinstance(n, ast.Attribute) and n.attr == 'value' and \
                isinstance(n.value, ast.Name) and n.value.id == var:
            if not isinstance(getattr(n, '_parent', None), ast.Compare):
                return False
    return True


def strip_wrappers(e, wrappers=('limit', 'qbool')):
    while isinstance(e, ast.Call) and isinstance(e.func, ast.Name) and \
            e.func.id in wrappers and len(e.args) == 1:
        e = e.args[0]
    return e
