"""Translation validation of the peephole pass, window by window.

QvmCode.optimize is interpreted by the abstract interpreter on every short
instruction window over a representative alphabet (each instruction object
is built by interpreting QvmInstr.__init__ from the source).  Whenever the
pass changes a window, the old and the new window are run on the VM's own
handlers -- interpreted from qvm/cpu.py -- from a set of representative
operand stacks, entering at the top and at every label, and their outcomes
(where control goes next, what is left on the stack, which variables were
written) are compared.  A difference is a rewrite that changes what a
program does, with the window and the operand values as the witness.

The comparison only ever *refutes*: a rewrite is reported when a concrete
difference is exhibited; constant folds, whose results this module treats
as opaque, are compared by the C02 folder rules instead.
"""
import ast
import itertools

from .absint import (AbsObj, Unk, is_unk, Interp, Closure, Env, PathEnd,
                     Raised, Unmodelled, explore, BUILTINS)
from .model import AnalysisError, enum_members
from . import vmsim


# --------------------------------------------------------------------------
# instruction objects built from the source of QvmInstr
# --------------------------------------------------------------------------

class EnumV(AbsObj):
    """Enum class by name -> members compared by identity."""

    def __init__(self, ci):
        self.ci = ci
        self.names = enum_members(ci)
        self._m = {}

    def member(self, n):
        if n not in self._m:
            self._m[n] = EnumM(self, n)
        return self._m[n]

    def getattr_(self, a, interp):
        if a in self.names:
            return self.member(a)
        raise Raised('AttributeError', a)

    def getitem_(self, key, interp):
        if key in self.names:
            return self.member(key)
        raise Raised('KeyError', key)

    def instancecheck_(self, x):
        return isinstance(x, EnumM) and x.ns is self


class EnumM(AbsObj):
    def __init__(self, ns, name):
        self.ns, self.name_ = ns, name

    def getattr_(self, a, interp):
        if a == 'name':
            return self.name_
        raise Unmodelled(f'enum member .{a}')

    def eq_(self, other):
        return other is self

    def __hash__(self):
        return hash(self.name_)

    def __eq__(self, other):
        return other is self

    def __repr__(self):
        return f'Op.{self.name_}'


class Obj(AbsObj):
    """Instance of a repository class: attributes in a dict; methods and
    properties interpreted from the class source."""

    def __init__(self, hooks, ci):
        self.hooks, self.ci = hooks, ci
        self.d = {}

    def _find(self, name):
        return self.hooks.repo.find_method(self.ci, name)

    def getattr_(self, a, interp):
        if a in self.d:
            return self.d[a]
        for k in self.hooks.repo.mro(self.ci):
            for st in k.node.body:
                if isinstance(st, ast.FunctionDef) and st.name == a:
                    decs = [ast.unparse(d) for d in st.decorator_list]
                    if any(d.endswith('.setter') for d in decs):
                        continue
                    clo = Closure(st, self.hooks.module_env(k.module.name),
                                  name=a)
                    if 'property' in decs:
                        return clo.call_([self], {}, interp)
                    clo.bound = self
                    return clo
        raise Raised('AttributeError', a)

    def setattr_(self, a, v, interp):
        # property setters: `op` stores `_op`
        for k in self.hooks.repo.mro(self.ci):
            for st in k.node.body:
                if isinstance(st, ast.FunctionDef) and st.name == a and any(
                        ast.unparse(d) == f'{a}.setter'
                        for d in st.decorator_list):
                    clo = Closure(st, self.hooks.module_env(k.module.name),
                                  name=a)
                    clo.call_([self, v], {}, interp)
                    return
        self.d[a] = v

    def eq_(self, other):
        return other is self


class Fn(AbsObj):
    is_callable = True

    def __init__(self, fn):
        self.fn = fn

    def call_(self, args, kwargs, interp):
        return self.fn(*args, **kwargs)


TAINT = []


class Opaque(AbsObj):
    """Result of a constant fold (not evaluated here).  A decision taken on
    it taints the path: such paths are left to the folder rules."""

    def __init__(self, what):
        self.what = what

    def eq_(self, other):
        if other is self:
            return True
        TAINT.append(self)
        return Unk('folded value')

    def cmp_(self, op, other, reflected):
        TAINT.append(self)
        return Unk('folded value')

    def truth_(self):
        TAINT.append(self)
        return Unk('folded value')

    def __repr__(self):
        return f'<fold {self.what}>'


class Hooks:
    def __init__(self, repo):
        self.repo = repo
        self._envs = {}
        m = repo.module('qbee.qvm_codegen')
        self.op_enum = EnumV(m.classes['CanonicalOp'])
        self.instr_ci = m.classes['QvmInstr']
        tc = repo.cls('qbee.expr', 'Type')
        chars = tc.class_attrs.get('type_chars')
        self.type_chars = chars.value if isinstance(chars, ast.Constant) \
            else '%&!#$'

    def module_env(self, modname):
        if modname not in self._envs:
            self._envs[modname] = Env(None, globals_=modname)
        return self._envs[modname]

    def new_instr(self, *elements):
        interp = Interp(self)
        o = Obj(self, self.instr_ci)
        init = self.repo.find_method(self.instr_ci, '__init__')
        Closure(init.node, self.module_env('qbee.qvm_codegen'),
                name='QvmInstr.__init__').call_([o] + list(elements), {},
                                                interp)
        return o

    def global_name(self, modname, name, interp):
        if name in ('Op', 'CanonicalOp'):
            return self.op_enum
        if name == 'QvmInstr':
            return Fn(lambda *a: self.new_instr(*a))
        if name == 'InternalError':
            return 'InternalError'
        if name == 'defaultdict':
            return Fn(lambda *a: {})
        if name == 'expr':
            return ExprNS(self)
        if name in ('logger', 'logging'):
            class Null(AbsObj):
                def getattr_(self, a, interp):
                    return Fn(lambda *a, **k: None)
            return Null()
        raise KeyError(name)

    def on_unknown_call(self, f, args, kwargs, node, interp):
        raise Unmodelled('unknown call')


class ExprNS(AbsObj):
    """qbee.expr as the peephole pass uses it: Type.is_type_char /
    from_type_char / can_hold / py_type, NumericLiteral, UnaryOp, BinaryOp
    and Operator -- folds are not evaluated (Opaque)."""

    def __init__(self, hooks):
        self.h = hooks

    def getattr_(self, a, interp):
        h = self.h
        if a == 'Type':
            class T(AbsObj):
                def getattr_(self, b, interp):
                    if b == 'is_type_char':
                        return Fn(lambda c: c in h.type_chars)
                    if b == 'from_type_char':
                        return Fn(lambda c: TypeV(c))
                    raise Unmodelled(f'Type.{b}')
            return T()
        if a == 'Operator':
            class O(AbsObj):
                def getattr_(self, b, interp):
                    return f'Operator.{b}'
            return O()
        if a == 'NumericLiteral':
            return Fn(lambda v, t: ('lit', v, t))
        if a in ('UnaryOp', 'BinaryOp'):
            class E(AbsObj):
                def __init__(self, args):
                    self.args = args

                def getattr_(self, b, interp):
                    if b == 'eval':
                        return Fn(lambda: Opaque(self.args))
                    raise Unmodelled(f'expr node .{b}')
            return Fn(lambda *args: E(args))
        raise Unmodelled(f'expr.{a}')


class TypeV(AbsObj):
    def __init__(self, ch):
        self.ch = ch

    def getattr_(self, a, interp):
        if a == 'is_integral':
            return self.ch in '%&'
        if a == 'can_hold':
            return Fn(lambda v: Unk('can_hold'))
        if a == 'py_type':
            return Fn(lambda v: Opaque(('conv', self.ch, v)))
        raise Unmodelled(f'Type.{a}')


# --------------------------------------------------------------------------
# running optimize on a window
# --------------------------------------------------------------------------

ALPHABET = [
    ('push%', 0), ('push%', 7), ('push&', 3), ('push!', 1.5),
    ('conv%&',), ('conv!%',),
    ('readl%', 'x'), ('storel', 'x'), ('readg&', 'g'), ('storeg', 'g'),
    ('readidxl%', 'x', 1), ('storeidxl', 'x', 1), ('storeidxl', 'x', 2),
    ('not',), ('neg',), ('add',), ('sub',), ('and',),
    ('jmp', 'L1'), ('jmp', 'L2'), ('jz', 'L1'), ('jz', 'L2'),
    ('_label', 'L1'), ('_label', 'L2'),
    ('ret',), ('halt',), ('pop',), ('dupl',), ('eq',), ('lt',),
    ('_dbg_info_start', 'n'), ('_dbg_info_end', 'n'),
]


def run_optimize(hooks, window):
    """Returns the list of final tuples after optimize, or ('unmodelled', why)
    / ('raise', cls)."""
    cls = hooks.repo.cls('qbee.qvm_codegen', 'QvmCode')
    fn = hooks.repo.find_method(cls, 'optimize')
    if fn is None:
        raise AnalysisError('QvmCode.optimize not found')
    results = []

    def run(oracle):
        del TAINT[:]
        interp = Interp(hooks, oracle)
        interp.MAX_LOOP = 400
        instrs = [hooks.new_instr(*w) for w in window]

        s = Obj(hooks, cls)
        init = hooks.repo.find_method(cls, '__init__')
        if init is not None:
            Closure(init.node, hooks.module_env('qbee.qvm_codegen'),
                    name='QvmCode.__init__').call_([s], {}, interp)
        s.d['_instrs'] = instrs
        s.d['_string_literals'] = ['a', 'b']
        clo = Closure(fn.node, hooks.module_env('qbee.qvm_codegen'),
                      name='optimize')
        try:
            clo.call_([s], {}, interp)
        except Raised as r:
            return ('raise', r.cls_name, str(r.value)[:80])
        except PathEnd as e:
            return ('unmodelled', str(e))
        if TAINT:
            return ('tainted',)
        out = []
        for i in s.d['_instrs']:
            out.append(tuple([i.d['_op'].name_.lower() +
                              (i.d.get('scope') or '') +
                              i.d.get('src_type_char', '') +
                              i.d.get('type_char', '')] +
                             [a for a in i.d.get('args', [])]))
        return ('ok', out)
    try:
        for choices, r in explore(run, 64):
            results.append(r)
    except Unmodelled as u:
        return [('unmodelled', str(u))]
    return results


# --------------------------------------------------------------------------
# running a window on the VM's own handlers
# --------------------------------------------------------------------------

LABELS = {'L1': 101, 'L2': 102}
VARS = {'x': 0, 'g': 1}
TERMINAL = ('ret', 'retv', 'ijmp', 'call', 'halt')


class MemSeg(AbsObj):
    def __init__(self, cells):
        self.cells = dict(cells)
        self.writes = {}

    def getattr_(self, a, interp):
        if a == 'get_cell':
            return vmsim.FnV(lambda ar, k: self.cells.get(ar[0]))
        if a == 'set_cell':
            def sc(ar, k):
                self.cells[ar[0]] = ar[1]
                self.writes[ar[0]] = ar[1]
            return vmsim.FnV(sc)
        raise Unmodelled(f'segment.{a}')


class PCpu(vmsim.CpuV):
    def __init__(self, sim, cells, frame, glob):
        super().__init__(sim, cells)
        self.frame, self.glob = frame, glob
        self.attrs['pc'] = 1000

    def getattr_(self, attr, interp):
        if attr == 'cur_frame':
            return self.frame
        if attr == 'globals_segment':
            return self.glob
        return super().getattr_(attr, interp)


def _show_cells(cells):
    out = []
    for c in cells:
        t = getattr(c, 'type', None)
        out.append((getattr(t, 'name', repr(t)), getattr(c, 'value', None)))
    return tuple(out)


def run_window(sim, window, entry, stack):
    """Executes window[entry:] on the handlers.  Returns a hashable outcome
    or ('undecided', why)."""
    frame = MemSeg({0: sim.cell('INTEGER', 9), 1: sim.cell('INTEGER', 21),
                    2: sim.cell('INTEGER', 22)})
    glob = MemSeg({1: sim.cell('LONG', 4)})
    cells = [sim.cell(t, v) for t, v in stack]
    pos = entry
    steps = 0
    label_pos = {w[1]: k for k, w in enumerate(window)
                 if w[0] == '_label'}
    while pos < len(window):
        steps += 1
        if steps > 12:
            return ('undecided', 'loop inside the window')
        w = window[pos]
        op = w[0]
        if op.startswith('_'):
            pos += 1
            continue
        if op in TERMINAL:
            return ('exit', op, _show_cells(cells), _mem(frame, glob))
        operands = []
        for a in w[1:]:
            if a in LABELS:
                operands.append(LABELS[a])
            elif a in VARS:
                operands.append(VARS[a])
            else:
                operands.append(a)
        cpu_box = {}
        hname = vmsim.R.mangle(op, sim.mangling)
        h = sim.handlers.get(hname)
        if h is None:
            return ('undecided', f'no handler for {op}')

        def call(interp, cpu, h=h, operands=operands):
            env = Env(sim.module_env('qvm.cpu'))
            for k, v in (h.bindings or {}).items():
                env.set(k, sim._bind(v))
            outer = getattr(h, 'outer', None)
            if outer is not None:
                for st in outer.body:
                    if isinstance(st, (ast.FunctionDef, ast.Return)):
                        continue
                    if isinstance(st, ast.Assign) and \
                            '__name__' in ast.unparse(st.targets[0]):
                        continue
                    interp.exec_stmt(st, env)
            Closure(h.node, env, name=hname).call_([cpu] + list(operands),
                                                   {}, interp)

        def run(oracle):
            cpu = PCpu(sim, cells, frame, glob)
            cpu_box['cpu'] = cpu
            interp = Interp(sim, oracle)
            try:
                call(interp, cpu)
                return ('ok', cpu)
            except PathEnd as e:
                return ('trap', str(e.detail))
            except Raised as r:
                return ('raise', r.cls_name)
            except Unmodelled as u:
                return ('unmodelled', str(u))
        try:
            res = [r for _, r in explore(run, 8)]
        except Unmodelled as u:
            return ('undecided', str(u))
        if len(res) != 1:
            return ('undecided', f'{op}: {len(res)} paths on concrete input')
        r = res[0]
        if r[0] == 'trap':
            # the trap code only; the explanatory operands differ by design
            return ('trap', str(r[1]).split()[0] if r[1] else '?',
                    _mem(frame, glob))
        if r[0] != 'ok':
            return ('undecided', f'{op}: {r}')
        cpu = r[1]
        cells = list(cpu.cells)
        pc = cpu.attrs.get('pc')
        if pc != 1000:
            lab = [k for k, v in LABELS.items() if v == pc]
            if not lab:
                return ('undecided', f'{op}: pc set to {pc!r}')
            if lab[0] in label_pos:
                pos = label_pos[lab[0]]
                continue
            return ('exit', f'goto {lab[0]}', _show_cells(cells),
                    _mem(frame, glob))
        pos += 1
    return ('exit', 'fallthrough', _show_cells(cells), _mem(frame, glob))


def _mem(frame, glob):
    """Final contents of the two variable areas (not the write log: writing
    a cell with the value it already holds changes nothing)."""
    return (tuple(sorted((k, _show_cells([v])[0])
                         for k, v in frame.cells.items())),
            tuple(sorted((k, _show_cells([v])[0])
                         for k, v in glob.cells.items())))


STACKS = [
    [('LONG', 3), ('INTEGER', a), ('INTEGER', b)]
    for a in (0, -1, 5) for b in (0, -1, 5)
] + [[('LONG', 3), ('LONG', 2), ('LONG', 0)],
     [('LONG', 3), ('SINGLE', 1.5), ('SINGLE', 0.0)]]


def compare(sim, before, after):
    """None if no difference was exhibited, else a witness dict."""
    entries = [0] + [k + 1 for k, w in enumerate(before)
                     if w[0] == '_label']
    lab_after = {w[1]: k for k, w in enumerate(after) if w[0] == '_label'}
    for e in entries:
        if e == 0:
            ea = 0
        else:
            lab = before[e - 1][1]
            if lab not in lab_after:
                return {'why': f'label {lab} is removed although code '
                               f'elsewhere may jump to it'}
            ea = lab_after[lab] + 1
        for st in STACKS:
            a = run_window(sim, before, e, st)
            b = run_window(sim, after, ea, st)
            if a[0] == 'undecided' or b[0] == 'undecided':
                continue
            if a != b:
                return {'entry': e, 'stack': st, 'before': a, 'after': b}
    return None


QUICK_ALPHABET = [
    ('push%', 0), ('push%', 7), ('conv%&',), ('readl%', 'x'),
    ('storel', 'x'), ('readidxl%', 'x', 1), ('storeidxl', 'x', 1),
    ('storeidxl', 'x', 2),
    ('not',), ('add',), ('jmp', 'L1'), ('jmp', 'L2'),
    ('jz', 'L1'), ('jz', 'L2'), ('_label', 'L1'), ('ret',), ('halt',),
    ('pop',), ('_dbg_info_end', 'n'),
]


def _chunks(items, nproc):
    return [items[i::nproc] for i in range(nproc) if items[i::nproc]]


def _jobs():
    import os
    return int(os.environ.get('QB_JOBS', '0') or 0) or \
        min(16, os.cpu_count() or 4)


def _analyse_chunk(args):
    root, wins = args
    from .model import Repo
    repo = Repo(root)
    hooks = Hooks(repo)
    sim = vmsim.VmSim(repo)
    vmsim.install_primitives(sim)
    changed, witnesses, undecided = [], [], 0
    n = 0
    for win in wins:
            n += 1
            win = list(win)
            for r in run_optimize(hooks, win):
                if r[0] != 'ok':
                    undecided += 1
                    continue
                after = r[1]
                if after == win:
                    continue
                if any(isinstance(a, Opaque) for w in after for a in w):
                    continue        # constant folds: C02 folder rules
                changed.append((win, after))
                w = compare(sim, win, after)
                if w is not None:
                    witnesses.append((win, after, w))
    return {'windows': n, 'rewritten': len(changed),
            'witnesses': witnesses, 'undecided': undecided,
            'sample_rewrites': changed[:8]}


def analyse(repo, tier='quick'):
    from concurrent.futures import ProcessPoolExecutor
    alpha = ALPHABET if tier == 'thorough' else QUICK_ALPHABET
    wins = [w for k in (1, 2, 3)
            for w in itertools.product(alpha, repeat=k)]
    chunks = _chunks(wins, _jobs())
    if len(chunks) == 1:
        parts = [_analyse_chunk((str(repo.root), chunks[0]))]
    else:
        with ProcessPoolExecutor(max_workers=len(chunks)) as ex:
            parts = list(ex.map(_analyse_chunk,
                                [(str(repo.root), c) for c in chunks]))
    out = {'windows': 0, 'rewritten': 0, 'witnesses': [], 'undecided': 0,
           'sample_rewrites': []}
    for p in parts:
        out['windows'] += p['windows']
        out['rewritten'] += p['rewritten']
        out['undecided'] += p['undecided']
        out['witnesses'] += p['witnesses']
        out['sample_rewrites'] += p['sample_rewrites']
    out['witnesses'].sort(key=lambda x: (len(x[0]), repr(x[0])))
    out['sample_rewrites'] = sorted(out['sample_rewrites'],
                                    key=repr)[:8]
    return out



def check(ctx, pid):
    res = analyse(ctx.repo, ctx.tier)
    rule = f'{pid}.peephole-rewrites-preserve-the-window'
    ctx.rule(rule, 'QvmCode.optimize, interpreted on every instruction '
             'window of length <= 3 over a representative alphabet, only '
             'performs rewrites for which the old and the new window, run '
             'on the CPU handlers from representative operand stacks '
             '(entering at the top and at every label), go to the same '
             'place with the same stack and the same variable writes; '
             'constant folds are left to the folder rules; a difference is '
             'reported with the window and the operand values')
    f = ctx.repo.find_method(ctx.repo.cls('qbee.qvm_codegen', 'QvmCode'),
                             'optimize')
    ctx.floor('peephole windows interpreted', res['windows'], 1000)
    ctx.floor('windows the pass rewrites (non-fold)', res['rewritten'], 50)
    ctx.instance(rule, f'{f.file}:QvmCode.optimize:windows',
                 sample={'windows': res['windows'],
                         'rewritten': res['rewritten'],
                         'undecided': res['undecided'],
                         'examples': [f'{a} -> {b}' for a, b in
                                      res['sample_rewrites'][:4]]})
    seen = set()
    wits = sorted(res['witnesses'], key=lambda x: (len(x[0]), repr(x[0])))
    if wits:
        # the shortest windows are the rewrites themselves; longer ones
        # only add unchanged context
        shortest = len(wits[0][0])
        wits = [x for x in wits if len(x[0]) == shortest][:6]
    for win, after, w in wits:
        shape = ' '.join(x[0] for x in win) + ' => ' + \
            (' '.join(x[0] for x in after) or '(nothing)')
        if shape in seen:
            continue
        seen.add(shape)
        ctx.instance(rule, f'{f.file}:QvmCode.optimize:{shape}')
        ctx.finding(rule, f'{f.file}:QvmCode.optimize:{shape}',
                    f'the pass rewrites {win} to {after}, which behaves '
                    f'differently: {w}', f.file, f.line,
                    facts={'witness': repr(w)})


# --------------------------------------------------------------------------
# debug markers must not change what the optimised code does (C08)
# --------------------------------------------------------------------------

def _markers_chunk(args):
    root, wins = args
    from .model import Repo
    repo = Repo(root)
    hooks = Hooks(repo)
    sim = vmsim.VmSim(repo)
    vmsim.install_primitives(sim)
    n = differ = undec = 0
    wit = None
    lost_wit = None
    n_lost = 0
    for win in wins:
        win = list(win)
        k = len(win)
        plain = [r for r in run_optimize(hooks, win) if r[0] == 'ok']
        if len(plain) != 1:
            undec += 1
            continue
        for gaps in itertools.product((False, True), repeat=k - 1):
            if not any(gaps):
                continue
            # statement s<j> ends at the j-th boundary, s<j+1> starts there
            marked = []
            nb = 0
            for i, w in enumerate(win):
                marked.append(w)
                if i < k - 1 and gaps[i]:
                    marked += [('_dbg_info_end', f's{nb}'),
                               ('_dbg_info_start', f's{nb + 1}')]
                    nb += 1
            res = [r for r in run_optimize(hooks, marked) if r[0] == 'ok']
            if len(res) != 1:
                undec += 1
                continue
            n += 1
            a, b = plain[0][1], res[0][1]
            # a marker may disappear only together with its partner (a
            # whole statement removed); the assembler pairs them
            m_in = [w for w in marked if w[0].startswith('_dbg')]
            m_out = [w for w in b if w[0].startswith('_dbg')]
            if m_in != m_out:
                gone = list(m_in)
                for w in m_out:
                    if w in gone:
                        gone.remove(w)
                extra = [w for w in m_out if w not in m_in]
                bad = list(extra)
                for w in gone:
                    other = ('_dbg_info_end' if w[0] == '_dbg_info_start'
                             else '_dbg_info_start', w[1])
                    if other not in gone:
                        bad.append(w)
                if bad or [w for w in m_out] != [w for w in m_in
                                                 if w in m_out]:
                    n_lost += 1
                    if lost_wit is None or len(marked) < len(lost_wit[0]):
                        lost_wit = (marked, list(b), bad)
            if any(isinstance(x, Opaque) for w in a + b for x in w):
                continue        # folds: values are opaque here
            if [w for w in b if not w[0].startswith('_dbg')] == a:
                continue
            w_ = compare(sim, a, list(b))
            if w_ is not None and 'why' not in w_:
                differ += 1
                if wit is None:
                    wit = (win, marked, a, b, w_)
    return n, differ, undec, wit, (n_lost, lost_wit)


def check_markers(ctx, pid):
    """With debug info, `_dbg_info_start/_end` pseudo-instructions sit
    between the statements and the peephole pass stops at them, so it
    optimises *different* windows.  Decided here for every window of real
    instructions over the alphabet and every way of putting a statement
    boundary (an end marker followed by a start marker) into its gaps: the
    optimised marked window and the optimised plain window behave alike on
    the CPU handlers (markers are skipped by the assembler)."""
    from concurrent.futures import ProcessPoolExecutor
    repo = ctx.repo
    rule = f'{pid}.markers-do-not-change-optimised-behaviour'
    ctx.rule(rule, 'for every window of up to 3 real instructions over the '
             'representative alphabet and every placement of statement '
             'boundaries (`_dbg_info_end`, `_dbg_info_start`) in its gaps, '
             'QvmCode.optimize (interpreted) yields code that goes to the '
             'same place with the same stack and variables as the code it '
             'yields for the window without markers, from every '
             'representative operand stack and entry label')
    alpha = [a for a in (ALPHABET if ctx.tier == 'thorough'
                         else QUICK_ALPHABET) if not a[0].startswith('_dbg')]
    f = repo.find_method(repo.cls('qbee.qvm_codegen', 'QvmCode'), 'optimize')
    wins = [w for k in (2, 3) for w in itertools.product(alpha, repeat=k)]
    chunks = _chunks(wins, _jobs())
    if len(chunks) == 1:
        parts = [_markers_chunk((str(repo.root), chunks[0]))]
    else:
        with ProcessPoolExecutor(max_workers=len(chunks)) as ex:
            parts = list(ex.map(_markers_chunk,
                                [(str(repo.root), c) for c in chunks]))
    n = sum(p[0] for p in parts)
    differ = sum(p[1] for p in parts)
    undec = sum(p[2] for p in parts)
    wits = sorted([p[3] for p in parts if p[3] is not None],
                  key=lambda x: (len(x[0]), repr(x[0])))
    wit = wits[0] if wits else None
    construct = f'{f.file}:QvmCode.optimize:markers'
    ctx.instance(rule, construct, sample={'windows_x_placements': n,
                                          'undecided': undec})
    ctx.floor('marker placements interpreted', n, 500)
    n_lost = sum(p[4][0] for p in parts)
    lws = sorted([p[4][1] for p in parts if p[4][1] is not None],
                 key=lambda x: (len(x[0]), repr(x[0])))
    rule_l = f'{pid}.optimizer-keeps-marker-pairs'
    ctx.rule(rule_l, 'on the same marked windows, every `_dbg_info_start` / '
             '`_dbg_info_end` pseudo-instruction of the input is still in '
             'the optimised output, in order, unless its partner went with '
             'it: the assembler pairs them and asserts on a lone marker, so '
             'a pass that deletes one makes -g reject what plain accepts')
    c_l = f'{f.file}:QvmCode.optimize:marker-pairs'
    ctx.instance(rule_l, c_l, sample={'windows_x_placements': n,
                                      'placements_losing_a_marker': n_lost})
    if lws:
        marked, b, bad = lws[0]
        ctx.finding(rule_l, c_l,
                    f'{n_lost} placement(s) lose or reorder a lone debug '
                    f'marker; e.g. {marked} is optimised to {b}: {bad} has '
                    f'no partner left', f.file, f.line)
    if wit is not None:
        win, marked, a, b, w_ = wit
        ctx.finding(rule, construct,
                    f'{differ} placement(s) differ; e.g. the window {win} is '
                    f'optimised to {a}, with statement boundaries {marked} '
                    f'to {b}, and they behave differently: {w_}',
                    f.file, f.line, facts={'witness': repr(w_)})
