"""Resolved call graph over the repository model."""
import ast

from .astutil import dotted, walk_shallow, decorators
from . import registries as R

# method names too generic to resolve by name alone
GENERIC = {
    'append', 'extend', 'pop', 'get', 'items', 'keys', 'values', 'add',
    'update', 'remove', 'index', 'join', 'split', 'strip', 'lower', 'upper',
    'startswith', 'endswith', 'format', 'replace', 'sort', 'reverse',
    'insert', 'copy', 'encode', 'decode', 'setdefault', 'count', 'find',
    'isnumeric', 'lstrip', 'rstrip', 'read', 'write', 'close', 'seed',
    'random', 'getstate', 'setstate', 'match', 'group', 'info', 'debug',
    'warning', 'error', 'parse_args', 'add_argument', 'total_seconds',
    'suppress', 'set_name', 'add_parse_action', 'parse_string', 'call',
    'call_with_result', 'launch', 'cmdloop', 'clear', 'discard',
}


class CallGraph:
    def __init__(self, repo, mode='cha'):
        self.repo = repo
        self.mode = mode
        self.edges = {}          # FuncInfo -> set(FuncInfo)
        self.sites = {}          # FuncInfo -> [(call node, [targets])]
        self.unresolved = []     # (FuncInfo, call text)
        self._methods_by_name = {}
        self._props_by_name = {}
        for ci in repo.all_classes():
            for name, f in ci.methods.items():
                self._methods_by_name.setdefault(name, []).append(f)
                if any(d[0] in ('property',) or
                       (d[0] or '').endswith('.setter')
                       for d in decorators(f.node)):
                    self._props_by_name.setdefault(name, []).append(f)
        self._special = None
        self.funcs = list(repo.all_functions())
        self.handlers, _, _ = R.cpu_handlers(repo)
        for f in self.handlers.values():
            if f not in self.funcs:
                self.funcs.append(f)
        self._build()

    # ---- special dispatch tables -------------------------------------
    def _specials(self):
        if self._special is not None:
            return self._special
        repo = self.repo
        gens, _ = R.generators(repo)
        ph = R.pass_handlers(repo)
        devs = R.device_classes(repo)
        dev_execs = []
        for ci in devs.values():
            for n, f in ci.methods.items():
                if n.startswith('_exec_'):
                    dev_execs.append(f)
        impl = []
        mm = repo.module('qvm.machine')
        for cname in ('BasePeripheralsImpl', 'SmartTerminalMixin',
                      'DumbTerminalMixin'):
            ci = mm.classes.get(cname)
            if ci:
                impl.extend(ci.methods.values())
        self._special = {
            'generators': list(gens.values()),
            'pass_handlers': [f for _, _, _, f in ph],
            'dev_execs': dev_execs,
            'impl': {f.name: f for f in impl},
            'impl_all': impl,
            'cpu_handlers': list(self.handlers.values()),
        }
        return self._special

    # ---- resolution ---------------------------------------------------
    def resolve_call(self, f, call):
        repo = self.repo
        sp = self._specials()
        fn = call.func
        d = dotted(fn)
        out = []
        if isinstance(fn, ast.Name):
            # nested local function?
            p = f
            while p is not None:
                cand = f.module.functions.get(f'{p.qualname}.{fn.id}')
                if cand is not None:
                    return [cand]
                p = p.parent
            r = repo.resolve_name(f.module, fn.id)
            if r:
                if r[0] == 'func':
                    return [r[1]]
                if r[0] == 'class':
                    out = []
                    for special in ('__new__', '__init__'):
                        m = repo.find_method(r[1], special)
                        if m:
                            out.append(m)
                    return out
            return []
        if isinstance(fn, ast.Attribute):
            attr = fn.attr
            base = dotted(fn.value)
            # special dispatchers
            if attr == 'gen_code_for_node':
                m = repo.find_method(
                    repo.cls('qbee.codegen', 'BaseCodeGen'),
                    'gen_code_for_node')
                return [m] if m else []
            if attr == 'execute' and base and base.endswith('device'):
                m = repo.find_method(repo.cls('qvm.machine', 'Device'),
                                     'execute')
                return [m] if m else []
            if base in ('self.impl',):
                m = sp['impl'].get(attr)
                cands = [g for g in sp['impl_all'] if g.name == attr]
                return cands
            if base == 'self' and f.cls is not None:
                m = repo.find_method(f.cls, attr)
                out = [m] if m else []
                for sub in repo.subclasses(f.cls):
                    if attr in sub.methods and sub.methods[attr] not in out:
                        out.append(sub.methods[attr])
                if out:
                    return out
                # attribute holding a callable (self.find_routine_func)
                return []
            if base == 'super()' or (
                    isinstance(fn.value, ast.Call) and
                    dotted(fn.value.func) == 'super'):
                if f.cls is not None:
                    for c in repo.mro(f.cls)[1:]:
                        if attr in c.methods:
                            return [c.methods[attr]]
                return []
            # local variable holding an instance: x = Cls(...); x.m()
            if isinstance(fn.value, ast.Name):
                for a in walk_shallow(f.node):
                    if isinstance(a, ast.Assign) and len(a.targets) == 1 \
                            and isinstance(a.targets[0], ast.Name) and \
                            a.targets[0].id == fn.value.id and \
                            isinstance(a.value, ast.Call):
                        rc = repo.resolve_expr(f.module, a.value.func)
                        if rc and rc[0] == 'class':
                            m = repo.find_method(rc[1], attr)
                            if m:
                                return [m]
            r = repo.resolve_expr(f.module, fn.value) if base else None
            if r:
                if r[0] == 'module':
                    rr = repo.resolve_name(r[1], attr)
                    if rr and rr[0] == 'func':
                        return [rr[1]]
                    if rr and rr[0] == 'class':
                        m = repo.find_method(rr[1], '__init__')
                        return [m] if m else []
                    return []
                if r[0] == 'class':
                    m = repo.find_method(r[1], attr)
                    return [m] if m else []
            if self.mode == 'cha' and attr not in GENERIC:
                return list(self._methods_by_name.get(attr, []))
            return []
        return []

    def _extra_edges(self, f):
        """Registry dispatch that is not a syntactic call."""
        sp = self._specials()
        out = set()
        key = (f.module.name, f.qualname)
        if key == ('qbee.codegen', 'BaseCodeGen.gen_code_for_node'):
            out.update(sp['generators'])
        elif key == ('qbee.compiler', 'CompilePass.process_tree'):
            out.update(sp['pass_handlers'])
        elif key == ('qvm.machine', 'Device.execute'):
            out.update(sp['dev_execs'])
        elif key == ('qvm.cpu', 'QvmCpu.tick'):
            out.update(sp['cpu_handlers'])
        elif key == ('qvm.cpu', 'QvmCpu._exec_io'):
            m = self.repo.find_method(
                self.repo.cls('qvm.machine', 'Device'), 'execute')
            if m:
                out.add(m)
        return out

    def _build(self):
        for f in self.funcs:
            tg = set()
            sites = []
            for n in walk_shallow(f.node):
                if isinstance(n, ast.Call):
                    ts = self.resolve_call(f, n)
                    sites.append((n, ts))
                    tg.update(ts)
                    if not ts:
                        self.unresolved.append((f, dotted(n.func) or '?'))
                elif self.mode == 'cha' and isinstance(n, ast.Attribute) \
                        and isinstance(n.ctx, ast.Load):
                    ps = self._props_by_name.get(n.attr)
                    if ps:
                        tg.update(ps)
            # nested defs and lambdas execute in the context of f (closures
            # called later); treat as callees
            for n in walk_shallow(f.node, include_self=False):
                pass
            for child in f.module.functions.values():
                if child.parent is f:
                    tg.add(child)
            tg.update(self._extra_edges(f))
            self.edges[f] = tg
            self.sites[f] = sites

    # ---- queries ------------------------------------------------------
    def reachable(self, roots, stop=None):
        seen = set()
        stack = list(roots)
        while stack:
            f = stack.pop()
            if f in seen:
                continue
            seen.add(f)
            if stop and stop(f):
                continue
            for g in self.edges.get(f, ()):
                if g not in seen:
                    stack.append(g)
        return seen

    def path(self, root, target_pred, stop=None):
        """Shortest call path root -> first f satisfying target_pred."""
        from collections import deque
        prev = {root: None}
        dq = deque([root])
        while dq:
            f = dq.popleft()
            if target_pred(f):
                out = []
                while f is not None:
                    out.append(f)
                    f = prev[f]
                return list(reversed(out))
            if stop and stop(f):
                continue
            for g in self.edges.get(f, ()):
                if g not in prev:
                    prev[g] = f
                    dq.append(g)
        return None

    def callers(self, target):
        return [f for f, ts in self.edges.items() if target in ts]
