"""Statement-level control-flow graph for the statement kinds the repo uses.

Nodes are simple statements or the tests of compound statements.  Edges carry
a label: 'next', 'true', 'false', 'exc', 'loop', 'iter', 'done'.
Calls recognised by the `noreturn` predicate (e.g. self.trap(...)) and
`assert False` terminate the path like `raise`.
"""
import ast

from .astutil import dotted


class Node:
    __slots__ = ('id', 'kind', 'ast', 'succ', 'pred', 'note')

    def __init__(self, id, kind, astnode=None, note=None):
        self.id = id
        self.kind = kind      # entry exit raise stmt test for handler
        self.ast = astnode
        self.succ = []        # [(Node, label)]
        self.pred = []
        self.note = note

    @property
    def line(self):
        return getattr(self.ast, 'lineno', 0)

    def __repr__(self):
        return f'<N{self.id} {self.kind} L{self.line}>'


class CFG:
    def __init__(self):
        self.nodes = []
        self.entry = self._new('entry')
        self.exit = self._new('exit')       # normal return
        self.raise_exit = self._new('raise')  # exception leaves function

    def _new(self, kind, astnode=None, note=None):
        n = Node(len(self.nodes), kind, astnode, note)
        self.nodes.append(n)
        return n

    def edge(self, a, b, label='next'):
        if (b, label) not in a.succ:
            a.succ.append((b, label))
            b.pred.append((a, label))

    # ---- queries ------------------------------------------------------
    def reachable(self, start=None, blocked_nodes=(), blocked_edges=()):
        start = start or self.entry
        blocked_nodes = set(blocked_nodes)
        blocked_edges = set(blocked_edges)
        seen = set()
        if start in blocked_nodes:
            return seen
        stack = [start]
        seen.add(start)
        while stack:
            n = stack.pop()
            for s, lab in n.succ:
                if (n, s, lab) in blocked_edges or s in blocked_nodes:
                    continue
                if s not in seen:
                    seen.add(s)
                    stack.append(s)
        return seen

    def reachable_after(self, start):
        """Nodes reachable from the successors of start (start itself only
        if on a cycle)."""
        seen = set()
        stack = [s for s, _ in start.succ]
        for s in stack:
            seen.add(s)
        while stack:
            n = stack.pop()
            for s, _ in n.succ:
                if s not in seen:
                    seen.add(s)
                    stack.append(s)
        return seen

    def must_pass(self, target, pred, start=None):
        """True iff every path start->target passes through a node
        satisfying pred (target itself excluded)."""
        blocked = [n for n in self.nodes if n is not target and pred(n)]
        return target not in self.reachable(start, blocked_nodes=blocked)

    def conditions(self, target):
        """[(test node, label)] such that every entry->target path takes
        that edge."""
        out = []
        live = self.reachable()
        if target not in live:
            return out
        for n in self.nodes:
            if n.kind not in ('test', 'for') or n not in live:
                continue
            for s, lab in n.succ:
                if lab not in ('true', 'false'):
                    continue
                r = self.reachable(blocked_edges=[(n, s, lab)])
                if target not in r:
                    out.append((n, lab))
        return out

    def stmt_nodes(self):
        return [n for n in self.nodes if n.kind in ('stmt', 'test', 'for',
                                                    'handler')]

    def find(self, pred):
        return [n for n in self.nodes if n.ast is not None and pred(n)]


class _Builder:
    def __init__(self, noreturn):
        self.noreturn = noreturn or (lambda call: False)
        self.cfg = CFG()
        # stack of contexts for break/continue/return/raise
        self.loops = []      # (continue_target, break_target)
        self.trys = []       # handler dispatch descriptors
        self.finals = []     # pending finally bodies

    # frontier = list of (node, label) dangling edges to connect to next
    def connect(self, frontier, node):
        for n, lab in frontier:
            self.cfg.edge(n, node, lab)

    def is_noreturn_stmt(self, st):
        if isinstance(st, ast.Expr) and isinstance(st.value, ast.Call):
            return self.noreturn(st.value)
        if isinstance(st, ast.Assert):
            t = st.test
            if isinstance(t, ast.Constant) and not t.value:
                return True
        return False

    def raise_targets(self):
        """Where does an exception raised here go?  Innermost try handlers
        (all of them -- we do not type-match) and, unless a catch-all
        handler exists, further out."""
        return self._raise_from(len(self.trys))

    def _raise_from(self, depth):
        targets = []
        d = depth
        while d > 0:
            d -= 1
            t = self.trys[d]
            if t['kind'] == 'handlers':
                targets.extend(t['entries'])
                if t['catch_all']:
                    return targets
            elif t['kind'] == 'finally':
                targets.append(t['exc_entry'])
                return targets
        targets.append(self.cfg.raise_exit)
        return targets

    def do_raise(self, node):
        for t in self.raise_targets():
            self.cfg.edge(node, t, 'exc')

    def may_raise(self, st):
        for n in ast.walk(st):
            if isinstance(n, (ast.Call, ast.Subscript, ast.Raise,
                              ast.BinOp, ast.Attribute)):
                return True
        return False

    def body(self, stmts, frontier):
        for st in stmts:
            frontier = self.stmt(st, frontier)
        return frontier

    def _exit_via_finals(self, node, label, final_target_kind, target):
        """Route a return/break/continue through enclosing finally bodies."""
        # find enclosing finally contexts (innermost first) up to boundary
        frontier = [(node, label)]
        for t in reversed(self.trys):
            if t['kind'] == 'finally' and t.get('active', True):
                if final_target_kind in t['boundary']:
                    break
                # copy of the finally body for this exit
                saved_trys = self.trys
                self.trys = self.trys[:self.trys.index(t)]
                frontier = self.body(t['body'], frontier)
                self.trys = saved_trys
        self.connect(frontier, target)

    def stmt(self, st, frontier):
        cfg = self.cfg
        if isinstance(st, (ast.FunctionDef, ast.AsyncFunctionDef,
                           ast.ClassDef)):
            n = cfg._new('stmt', st, 'def')
            self.connect(frontier, n)
            return [(n, 'next')]
        if isinstance(st, ast.If):
            t = cfg._new('test', st)
            self.connect(frontier, t)
            if self.may_raise(st.test) and self.trys:
                self.do_raise(t)
            out = self.body(st.body, [(t, 'true')])
            out += self.body(st.orelse, [(t, 'false')])
            return out
        if isinstance(st, (ast.While,)):
            t = cfg._new('test', st)
            self.connect(frontier, t)
            brk = []
            self.loops.append((t, brk, len(self.trys)))
            body_out = self.body(st.body, [(t, 'true')])
            self.loops.pop()
            for n, lab in body_out:
                cfg.edge(n, t, 'loop')
            is_true = isinstance(st.test, ast.Constant) and st.test.value
            out = list(brk)
            if not is_true:
                out += self.body(st.orelse, [(t, 'false')])
            return out
        if isinstance(st, (ast.For, ast.AsyncFor)):
            t = cfg._new('for', st)
            self.connect(frontier, t)
            if self.trys:
                self.do_raise(t)
            brk = []
            self.loops.append((t, brk, len(self.trys)))
            body_out = self.body(st.body, [(t, 'iter')])
            self.loops.pop()
            for n, lab in body_out:
                cfg.edge(n, t, 'loop')
            out = list(brk)
            out += self.body(st.orelse, [(t, 'done')])
            return out
        if isinstance(st, ast.Break):
            n = cfg._new('stmt', st)
            self.connect(frontier, n)
            tgt, brk, depth = self.loops[-1]
            brk.extend(self._through_finals([(n, 'next')], depth))
            return []
        if isinstance(st, ast.Continue):
            n = cfg._new('stmt', st)
            self.connect(frontier, n)
            tgt, brk, depth = self.loops[-1]
            for a, lab in self._through_finals([(n, 'next')], depth):
                cfg.edge(a, tgt, 'loop')
            return []
        if isinstance(st, ast.Return):
            n = cfg._new('stmt', st)
            self.connect(frontier, n)
            if st.value is not None and self.may_raise(st.value) and \
                    self.trys:
                self.do_raise(n)
            for a, lab in self._through_finals([(n, 'next')], 0):
                cfg.edge(a, cfg.exit, 'return')
            return []
        if isinstance(st, ast.Raise):
            n = cfg._new('stmt', st)
            self.connect(frontier, n)
            self.do_raise(n)
            return []
        if isinstance(st, ast.Try):
            return self.try_stmt(st, frontier)
        if isinstance(st, (ast.With, ast.AsyncWith)):
            n = cfg._new('stmt', st, 'with')
            self.connect(frontier, n)
            if self.trys:
                self.do_raise(n)
            return self.body(st.body, [(n, 'next')])
        # simple statement
        n = cfg._new('stmt', st)
        self.connect(frontier, n)
        if self.is_noreturn_stmt(st):
            self.do_raise(n)
            return []
        if self.may_raise(st):
            # exceptional edge (only matters inside try; outside it goes to
            # raise_exit which most rules ignore)
            if self.trys:
                self.do_raise(n)
        return [(n, 'next')]

    def _through_finals(self, frontier, depth):
        """Run the finally bodies of try contexts deeper than `depth`."""
        for idx in range(len(self.trys) - 1, depth - 1, -1):
            t = self.trys[idx]
            if t['kind'] == 'finally':
                saved = self.trys
                self.trys = self.trys[:idx]
                frontier = self.body(t['body'], frontier)
                self.trys = saved
        return frontier

    def try_stmt(self, st, frontier):
        cfg = self.cfg
        fin = None
        if st.finalbody:
            exc_entry = cfg._new('handler', st, 'finally-exc')
            fin = {'kind': 'finally', 'body': st.finalbody,
                   'exc_entry': exc_entry}
            self.trys.append(fin)
        handlers = None
        if st.handlers:
            entries = []
            catch_all = False
            for h in st.handlers:
                hn = cfg._new('handler', h)
                entries.append(hn)
                if h.type is None or dotted(h.type) in ('Exception',
                                                        'BaseException'):
                    catch_all = True
            handlers = {'kind': 'handlers', 'entries': entries,
                        'catch_all': catch_all}
            self.trys.append(handlers)
        out = self.body(st.body, frontier)
        if handlers:
            self.trys.pop()
        out = self.body(st.orelse, out)
        if handlers:
            for h, hn in zip(st.handlers, handlers['entries']):
                out += self.body(h.body, [(hn, 'next')])
        if fin:
            self.trys.pop()
            # normal completion
            out = self.body(st.finalbody, out)
            # exceptional completion: finally body then re-raise
            exc_out = self.body(st.finalbody, [(fin['exc_entry'], 'next')])
            for a, lab in exc_out:
                for t in self.raise_targets():
                    cfg.edge(a, t, 'exc')
        return out


def build_cfg(fn, noreturn=None):
    b = _Builder(noreturn)
    body = fn.body if not isinstance(fn, list) else fn
    if isinstance(fn, ast.Lambda):
        body = [ast.Return(value=fn.body)]
    out = b.body(body, [(b.cfg.entry, 'next')])
    b.connect(out, b.cfg.exit)
    return b.cfg


# --- repository idioms -----------------------------------------------------

NORETURN_NAMES = {
    'self.trap', 'self.cpu.trap', 'cpu.trap', 'self._device_error',
    'perror', 'exit', 'sys.exit',
}


def repo_noreturn(call):
    return dotted(call.func) in NORETURN_NAMES
