"""Write-effect extraction: which abstract locations a function writes."""
import ast

from .astutil import dotted, walk_shallow, unparse

MUTATORS = {
    'append', 'extend', 'pop', 'remove', 'insert', 'clear', 'update', 'add',
    'discard', 'sort', 'reverse', 'setdefault', 'popitem',
    # repository mutators
    'set_cell', 'append_local', 'set_temp_reference', 'push', 'write_var',
    'destroy', 'connect_device',
}


def root_and_path(expr):
    """('self', 'cpu.stack') for self.cpu.stack / self.cpu.stack[i]."""
    parts = []
    e = expr
    while True:
        if isinstance(e, ast.Attribute):
            parts.append(e.attr)
            e = e.value
        elif isinstance(e, ast.Subscript):
            e = e.value
        elif isinstance(e, ast.Call):
            # x.f().g  -> treat as rooted at x.f
            e = e.func
        else:
            break
    if isinstance(e, ast.Name):
        return e.id, '.'.join(reversed(parts))
    return None, '.'.join(reversed(parts))


def writes(fn_node, shallow=True):
    """[(kind, root, path, lineno, text)] kind in store|aug|del|mutcall"""
    out = []
    it = walk_shallow(fn_node) if shallow else ast.walk(fn_node)
    for n in it:
        if isinstance(n, (ast.Assign, ast.AnnAssign)):
            targets = n.targets if isinstance(n, ast.Assign) else [n.target]
            for t in targets:
                for tt in ([t] if not isinstance(t, (ast.Tuple, ast.List))
                           else t.elts):
                    if isinstance(tt, (ast.Attribute, ast.Subscript)):
                        r, p = root_and_path(tt)
                        out.append(('store', r, p, n.lineno, unparse(tt)))
        elif isinstance(n, ast.AugAssign):
            if isinstance(n.target, (ast.Attribute, ast.Subscript)):
                r, p = root_and_path(n.target)
                out.append(('aug', r, p, n.lineno, unparse(n.target)))
        elif isinstance(n, ast.Delete):
            for t in n.targets:
                if isinstance(t, (ast.Attribute, ast.Subscript)):
                    r, p = root_and_path(t)
                    out.append(('del', r, p, n.lineno, unparse(t)))
        elif isinstance(n, ast.Call) and isinstance(n.func, ast.Attribute) \
                and n.func.attr in MUTATORS:
            r, p = root_and_path(n.func.value)
            out.append(('mutcall', r, (p + '.' if p else '') + n.func.attr,
                        n.lineno, unparse(n.func)))
    return out


def global_decls(fn_node):
    out = []
    for n in walk_shallow(fn_node):
        if isinstance(n, (ast.Global, ast.Nonlocal)):
            out.append((type(n).__name__.lower(), n.names, n.lineno))
    return out
