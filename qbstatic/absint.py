"""A small abstract interpreter for the Python subset used by the code
generators (qbee/qvm_codegen.py) and by the VM instruction / device handlers
(qvm/cpu.py, qvm/machine.py).

Values are ordinary Python values, `Unk` (unknown) or objects implementing
the AbsObj protocol.  A test whose truth is unknown forks the path: paths are
enumerated by re-executing with a recorded choice sequence (no state
copying).  Nothing of the repository is imported or executed natively: only
its AST is walked.
"""
import ast
import itertools

from .astutil import dotted, unparse


class Unk:
    """Unknown value (notnone: known not to be None, e.g. a token)."""
    __slots__ = ('tag', 'notnone')

    def __init__(self, tag='?', notnone=False):
        self.tag = tag
        self.notnone = notnone

    def __repr__(self):
        return f'Unk({self.tag})'


UNK = Unk()


def is_unk(v):
    return isinstance(v, Unk)


class AbsObj:
    """Protocol for modelled objects."""

    def getattr_(self, name, interp):
        return Unk(f'{type(self).__name__}.{name}')

    def setattr_(self, name, value, interp):
        pass

    def call_(self, args, kwargs, interp):
        return Unk(f'call {type(self).__name__}')

    def getitem_(self, key, interp):
        return Unk('item')

    def setitem_(self, key, value, interp):
        pass

    def truth_(self):
        return True

    def eq_(self, other):
        return self is other

    def iter_(self, interp):
        raise Unmodelled(f'iteration over {type(self).__name__}')


class Unmodelled(Exception):
    """The interpreter met a construct it has no model for."""


class PathEnd(Exception):
    """The abstract path ends (trap, raise that leaves the function, ...)."""

    def __init__(self, kind, detail=None, node=None):
        super().__init__(kind)
        self.kind = kind
        self.detail = detail
        self.node = node


class Raised(Exception):
    """A Python exception raised by interpreted code."""

    def __init__(self, cls_name, value=None, node=None):
        super().__init__(cls_name)
        self.cls_name = cls_name
        self.value = value
        self.node = node


class _Ret(Exception):
    def __init__(self, v):
        self.v = v


class _Brk(Exception):
    pass


class _Cont(Exception):
    pass


class Oracle:
    def __init__(self, prefix=()):
        self.prefix = list(prefix)
        self.taken = []

    def choose(self, n=2):
        i = len(self.taken)
        c = self.prefix[i] if i < len(self.prefix) else 0
        self.taken.append((c, n))
        return c


def explore(run, max_paths=2000):
    """run(oracle) -> result.  Enumerates all choice sequences depth-first.
    Returns [(choices, result)]; raises Unmodelled if the path budget is
    exceeded."""
    results = []
    stack = [[]]
    while stack:
        prefix = stack.pop()
        o = Oracle(prefix)
        res = run(o)
        results.append(([c for c, _ in o.taken], res))
        if len(results) > max_paths:
            raise Unmodelled(f'more than {max_paths} abstract paths')
        for i in range(len(prefix), len(o.taken)):
            c, n = o.taken[i]
            for alt in range(c + 1, n):
                stack.append([x for x, _ in o.taken[:i]] + [alt])
    return results


class Closure(AbsObj):
    def __init__(self, fn, env, interp_module=None, name=None, bound=None):
        self.fn = fn              # ast.FunctionDef / ast.Lambda
        self.env = env            # defining Env
        self.module = interp_module
        self.name = name or getattr(fn, 'name', '<lambda>')
        self.bound = bound

    def call_(self, args, kwargs, interp):
        if self.bound is not None:
            args = [self.bound] + list(args)
        return interp.call_function(self, args, kwargs)

    def __repr__(self):
        return f'<Closure {self.name}>'


class Env:
    def __init__(self, parent=None, globals_=None):
        self.vars = {}
        self.parent = parent
        self.globals = globals_ if globals_ is not None else (
            parent.globals if parent else None)

    def lookup(self, name):
        e = self
        while e is not None:
            if name in e.vars:
                return e.vars[name]
            e = e.parent
        raise KeyError(name)

    def set(self, name, value):
        self.vars[name] = value


class AbsList(AbsObj):
    """A list whose elements are known (wraps a Python list) -- used where
    identity matters; plain Python lists are used otherwise."""


class Interp:
    """hooks: object with
         global_name(module, name, interp) -> value or raises KeyError
         on_unknown_call(func_value, args, kwargs, node) -> value
    """

    MAX_LOOP = 64

    def __init__(self, hooks, oracle=None):
        self.hooks = hooks
        self.oracle = oracle or Oracle()
        self.depth = 0
        self.notes = []          # unmodelled things met on this path
        self.steps = 0

    # ---- truth / forks --------------------------------------------------
    def truth(self, v, node=None):
        if is_unk(v):
            return self.oracle.choose(2) == 0
        if isinstance(v, AbsObj):
            t = v.truth_()
            if is_unk(t):
                return self.oracle.choose(2) == 0
            return bool(t)
        return bool(v)

    # ---- calls ----------------------------------------------------------
    def call_function(self, clo, args, kwargs):
        fn = clo.fn
        env = Env(clo.env)
        a = fn.args
        params = [p.arg for p in a.posonlyargs + a.args]
        defaults = a.defaults
        ndef = len(defaults)
        args = list(args)
        for i, p in enumerate(params):
            if i < len(args):
                env.set(p, args[i])
            elif p in kwargs:
                env.set(p, kwargs.pop(p))
            else:
                di = i - (len(params) - ndef)
                if di >= 0:
                    env.set(p, self.eval(defaults[di], clo.env))
                else:
                    raise Raised('TypeError', f'missing argument {p}')
        if a.vararg:
            env.set(a.vararg.arg, list(args[len(params):]))
        elif len(args) > len(params):
            raise Raised('TypeError',
                         f'{clo.name}() takes {len(params)} positional '
                         f'arguments but {len(args)} were given')
        for p, d in zip(a.kwonlyargs, a.kw_defaults):
            if p.arg in kwargs:
                env.set(p.arg, kwargs.pop(p.arg))
            elif d is not None:
                env.set(p.arg, self.eval(d, clo.env))
        if a.kwarg:
            env.set(a.kwarg.arg, dict(kwargs))
        elif kwargs:
            raise Raised('TypeError',
                         f'{clo.name}() got unexpected keyword argument(s) '
                         f'{sorted(kwargs)}')
        self.depth += 1
        if self.depth > 40:
            raise Unmodelled('recursion depth')
        try:
            if isinstance(fn, ast.Lambda):
                return self.eval(fn.body, env)
            self.exec_block(fn.body, env)
            return None
        except _Ret as r:
            return r.v
        finally:
            self.depth -= 1

    def call(self, f, args, kwargs, node=None):
        if isinstance(f, BuiltinType) and f.pytype in (int, float) and \
                len(args) == 1 and is_unk(args[0]) and \
                getattr(args[0], 'tag', '') == 'text':
            # conversion of unknown text: succeeds or raises ValueError
            if self.oracle.choose(2) == 1:
                raise Raised('ValueError', 'invalid literal', node)
            return Unk('number', True)
        if isinstance(f, AbsObj):
            return f.call_(args, kwargs, self)
        if is_unk(f):
            return self.hooks.on_unknown_call(f, args, kwargs, node, self)
        keyf = kwargs.get('key') if kwargs else None
        if isinstance(keyf, AbsObj) and (
                getattr(f, '__name__', '') == 'sort' and
                isinstance(getattr(f, '__self__', None), list) or
                f is BUILTINS.get('sorted') or
                f in (BUILTINS.get('min'), BUILTINS.get('max'))):
            # sorting / extremum with an interpreted key function
            seq = f.__self__ if getattr(f, '__name__', '') == 'sort' \
                else _b_list(args[0])
            if is_unk(seq):
                return Unk('sorted')
            keys = [self.call(keyf, [x], {}, node) for x in seq]
            if any(is_unk(k) or isinstance(k, AbsObj) for k in keys):
                raise Unmodelled('sort key is not a concrete value')
            rev = bool(kwargs.get('reverse', False))
            order = sorted(range(len(seq)), key=lambda i: keys[i],
                           reverse=rev)
            if getattr(f, '__name__', '') == 'sort':
                seq[:] = [seq[i] for i in order]
                return None
            if f is BUILTINS.get('sorted'):
                return [seq[i] for i in order]
            if not seq:
                raise Raised('ValueError', 'empty sequence', node)
            i = (min if f is BUILTINS.get('min') else max)(
                range(len(seq)), key=lambda i: keys[i])
            return seq[i]
        if callable(f):
            try:
                return f(*args, **kwargs)
            except (Raised, PathEnd, Unmodelled, _Ret, _Brk, _Cont):
                raise
            except Exception as e:      # builtin applied to abstract data
                def has_unk(x, d=0):
                    if is_unk(x) or isinstance(x, AbsObj):
                        return True
                    if d < 3 and isinstance(x, (list, tuple, set)):
                        return any(has_unk(y, d + 1) for y in x)
                    return False
                if any(has_unk(a) for a in args):
                    return Unk('builtin')
                raise Raised(type(e).__name__, str(e), node)
        raise Unmodelled(f'call of {f!r}')

    # ---- statements -----------------------------------------------------
    def exec_block(self, body, env):
        for st in body:
            self.exec_stmt(st, env)

    def exec_stmt(self, st, env):
        self.steps += 1
        if self.steps > 200000:
            raise Unmodelled('step budget')
        m = getattr(self, 'st_' + type(st).__name__, None)
        if m is None:
            raise Unmodelled(f'statement {type(st).__name__} at line '
                             f'{getattr(st, "lineno", "?")}')
        return m(st, env)

    def st_Expr(self, st, env):
        self.eval(st.value, env)

    def st_Pass(self, st, env):
        pass

    def st_Import(self, st, env):
        for a in st.names:
            env.set(a.asname or a.name.split('.')[0], Unk('module'))

    def st_ImportFrom(self, st, env):
        for a in st.names:
            env.set(a.asname or a.name, Unk('import'))

    def st_Global(self, st, env):
        pass

    def st_Nonlocal(self, st, env):
        env.vars.setdefault('__nonlocal__', set()).update(st.names)

    def st_FunctionDef(self, st, env):
        env.set(st.name, Closure(st, env))

    def st_Return(self, st, env):
        raise _Ret(self.eval(st.value, env) if st.value else None)

    def st_Break(self, st, env):
        raise _Brk()

    def st_Continue(self, st, env):
        raise _Cont()

    def st_Delete(self, st, env):
        for t in st.targets:
            if isinstance(t, ast.Subscript):
                obj = self.eval(t.value, env)
                key = self.eval(t.slice, env)
                if isinstance(obj, (list, dict)) and not is_unk(key):
                    try:
                        del obj[key]
                    except Exception:
                        pass

    def st_Assert(self, st, env):
        v = self.eval(st.test, env)
        if is_unk(v):
            return
        if isinstance(v, AbsObj):
            v = v.truth_()
            if is_unk(v):
                return
        if not v:
            raise Raised('AssertionError', unparse(st.test), st)

    def st_Raise(self, st, env):
        if st.exc is None:
            raise Raised('reraise', None, st)
        e = st.exc
        if not isinstance(e, ast.Call):
            try:
                v = self.eval(e, env)
            except Raised:
                v = None
            if isinstance(v, ExcValue):
                raise v.raised
        name = dotted(e.func) if isinstance(e, ast.Call) else dotted(e)
        val = None
        if isinstance(e, ast.Call):
            try:
                val = ([self.eval(a, env) for a in e.args],
                       {k.arg: self.eval(k.value, env) for k in e.keywords})
            except Unmodelled:
                val = None
        raise Raised((name or '?').split('.')[-1], val, st)

    def assign(self, target, value, env):
        if isinstance(target, ast.Name):
            e = env
            nl = env.vars.get('__nonlocal__', ())
            if target.id in nl:
                e = env.parent
                while e is not None and target.id not in e.vars:
                    e = e.parent
                e = e or env
            e.set(target.id, value)
        elif isinstance(target, (ast.Tuple, ast.List)):
            if is_unk(value):
                for t in target.elts:
                    self.assign(t.value if isinstance(t, ast.Starred)
                                else t, Unk('unpack'), env)
                return
            vals = list(self.iterate(value))
            star = [i for i, t in enumerate(target.elts)
                    if isinstance(t, ast.Starred)]
            if star:
                i = star[0]
                after = len(target.elts) - i - 1
                if len(vals) < len(target.elts) - 1:
                    raise Raised('ValueError', 'not enough values to unpack')
                for t, v in zip(target.elts[:i], vals[:i]):
                    self.assign(t, v, env)
                self.assign(target.elts[i].value,
                            vals[i:len(vals) - after], env)
                for t, v in zip(target.elts[i + 1:],
                                vals[len(vals) - after:]):
                    self.assign(t, v, env)
            else:
                if len(vals) != len(target.elts):
                    raise Raised('ValueError',
                                 f'cannot unpack {len(vals)} values into '
                                 f'{len(target.elts)}')
                for t, v in zip(target.elts, vals):
                    self.assign(t, v, env)
        elif isinstance(target, ast.Attribute):
            obj = self.eval(target.value, env)
            if isinstance(obj, AbsObj):
                obj.setattr_(target.attr, value, self)
        elif isinstance(target, ast.Subscript):
            obj = self.eval(target.value, env)
            key = self.eval(target.slice, env)
            if isinstance(obj, AbsObj):
                obj.setitem_(key, value, self)
            elif isinstance(obj, (list, dict)) and not is_unk(key):
                try:
                    obj[key] = value
                except (IndexError, KeyError, TypeError) as e:
                    raise Raised(type(e).__name__, str(e), target)
        else:
            raise Unmodelled(f'assignment target {type(target).__name__}')

    def st_Assign(self, st, env):
        v = self.eval(st.value, env)
        for t in st.targets:
            self.assign(t, v, env)

    def st_AnnAssign(self, st, env):
        if st.value is not None:
            self.assign(st.target, self.eval(st.value, env), env)

    def st_AugAssign(self, st, env):
        cur = self.eval(_load(st.target), env)
        rhs = self.eval(st.value, env)
        if isinstance(cur, list) and isinstance(st.op, ast.Add) and \
                isinstance(rhs, list):
            cur.extend(rhs)
            return
        self.assign(st.target, self.binop(st.op, cur, rhs, st), env)

    def st_If(self, st, env):
        if self.truth(self.eval(st.test, env), st):
            self.exec_block(st.body, env)
        else:
            self.exec_block(st.orelse, env)

    def iterate(self, v):
        if is_unk(v):
            raise Unmodelled('iteration over unknown value')
        if isinstance(v, AbsObj):
            return v.iter_(self)
        if isinstance(v, dict):
            return list(v.keys())
        try:
            return list(v)
        except TypeError as ex:
            raise Raised('TypeError', str(ex))

    def st_For(self, st, env):
        itv = self.eval(st.iter, env)
        if isinstance(itv, AbsObj) and hasattr(itv, 'summarise_loop_'):
            return itv.summarise_loop_(self, st, env)
        it = self.iterate(itv)
        broke = False
        for i, x in enumerate(it):
            if i > self.MAX_LOOP * 8:
                raise Unmodelled('loop bound')
            self.assign(st.target, x, env)
            try:
                self.exec_block(st.body, env)
            except _Brk:
                broke = True
                break
            except _Cont:
                continue
        if not broke:
            self.exec_block(st.orelse, env)

    MAX_FOREVER = 64

    def st_While(self, st, env):
        n = 0
        forever = isinstance(st.test, ast.Constant) and st.test.value is True
        while True:
            n += 1
            if n > (self.MAX_FOREVER if forever else self.MAX_LOOP):
                raise PathEnd('loop-bound', 'while loop bound reached', st)
            if not self.truth(self.eval(st.test, env), st):
                self.exec_block(st.orelse, env)
                break
            try:
                self.exec_block(st.body, env)
            except _Brk:
                break
            except _Cont:
                continue

    def st_Try(self, st, env):
        try:
            try:
                self.exec_block(st.body, env)
            except Raised as r:
                for h in st.handlers:
                    if _handler_matches(h, r.cls_name):
                        if h.name:
                            env.set(h.name, ExcValue(r))
                        self.exec_block(h.body, env)
                        break
                else:
                    raise
            else:
                self.exec_block(st.orelse, env)
        finally:
            if st.finalbody:
                self.exec_block(st.finalbody, env)

    def st_With(self, st, env):
        for item in st.items:
            v = self.eval(item.context_expr, env)
            if item.optional_vars is not None:
                self.assign(item.optional_vars, v, env)
        self.exec_block(st.body, env)

    def st_ClassDef(self, st, env):
        env.set(st.name, Unk('class'))

    # ---- expressions ----------------------------------------------------
    def eval(self, e, env):
        m = getattr(self, 'ev_' + type(e).__name__, None)
        if m is None:
            raise Unmodelled(f'expression {type(e).__name__}: {unparse(e)}')
        return m(e, env)

    def ev_Constant(self, e, env):
        return e.value

    def ev_Name(self, e, env):
        try:
            return env.lookup(e.id)
        except KeyError:
            pass
        try:
            return self.hooks.global_name(env.globals, e.id, self)
        except KeyError:
            pass
        if e.id in BUILTINS:
            return BUILTINS[e.id]
        import builtins as _py
        if hasattr(_py, e.id):
            # a Python builtin the interpreter has no model for: undecided,
            # never a NameError of the analysed program
            raise Unmodelled(f'builtin {e.id}')
        raise Raised('NameError', f"name '{e.id}' is not defined", e)

    def ev_Attribute(self, e, env):
        obj = self.eval(e.value, env)
        return self.getattr(obj, e.attr, e)

    def getattr(self, obj, name, node=None):
        if is_unk(obj):
            if obj.tag == 'text' and name in ('strip', 'lower', 'upper',
                                              'lstrip', 'rstrip',
                                              'replace'):
                return (lambda *a: Unk('text'))
            return Unk(f'{obj.tag}.{name}')
        if isinstance(obj, AbsObj):
            return obj.getattr_(name, self)
        if obj is None:
            raise Raised('AttributeError',
                         f"'NoneType' object has no attribute '{name}'",
                         node)
        if isinstance(obj, (str, list, dict, tuple, int, float, bytes, set)):
            try:
                return getattr(obj, name)
            except AttributeError as ex:
                raise Raised('AttributeError', str(ex), node)
        raise Unmodelled(f'attribute {name} of {type(obj).__name__}')

    def ev_Subscript(self, e, env):
        obj = self.eval(e.value, env)
        if isinstance(e.slice, ast.Slice):
            lo = self.eval(e.slice.lower, env) if e.slice.lower else None
            hi = self.eval(e.slice.upper, env) if e.slice.upper else None
            if is_unk(obj) or is_unk(lo) or is_unk(hi):
                return Unk('slice')
            if isinstance(obj, AbsObj):
                return obj.getitem_(slice(lo, hi), self)
            return obj[lo:hi]
        key = self.eval(e.slice, env)
        if isinstance(obj, AbsObj):
            return obj.getitem_(key, self)
        if is_unk(obj) or is_unk(key):
            return Unk('item')
        try:
            return obj[key]
        except (IndexError, KeyError, TypeError) as ex:
            raise Raised(type(ex).__name__, str(ex), e)

    def ev_Call(self, e, env):
        f = self.eval(e.func, env)
        args = []
        for a in e.args:
            if isinstance(a, ast.Starred):
                args.extend(self.iterate(self.eval(a.value, env)))
            else:
                args.append(self.eval(a, env))
        kwargs = {}
        for k in e.keywords:
            if k.arg is None:
                v = self.eval(k.value, env)
                if isinstance(v, dict):
                    kwargs.update(v)
            else:
                kwargs[k.arg] = self.eval(k.value, env)
        return self.call(f, args, kwargs, e)

    def ev_Lambda(self, e, env):
        return Closure(e, env)

    def ev_IfExp(self, e, env):
        if self.truth(self.eval(e.test, env), e):
            return self.eval(e.body, env)
        return self.eval(e.orelse, env)

    def ev_List(self, e, env):
        out = []
        for x in e.elts:
            if isinstance(x, ast.Starred):
                out.extend(self.iterate(self.eval(x.value, env)))
            else:
                out.append(self.eval(x, env))
        return out

    def ev_Tuple(self, e, env):
        return tuple(self.ev_List(e, env))

    def ev_Set(self, e, env):
        return set(self.eval(x, env) for x in e.elts)

    def ev_Dict(self, e, env):
        out = {}
        for k, v in zip(e.keys, e.values):
            kv = self.eval(k, env)
            out[_hashable(kv)] = self.eval(v, env)
        return out

    def ev_JoinedStr(self, e, env):
        s = ''
        for v in e.values:
            if isinstance(v, ast.Constant):
                s += str(v.value)
            else:
                x = self.eval(v.value, env)
                if is_unk(x):
                    return Unk('fstring')
                if isinstance(x, AbsObj):
                    x = x.getattr_('__str__', self) \
                        if hasattr(x, 'str_') is False else x.str_()
                    if is_unk(x) or isinstance(x, AbsObj):
                        return Unk('fstring')
                s += str(x)
        return s

    def ev_FormattedValue(self, e, env):
        return self.eval(e.value, env)

    def ev_UnaryOp(self, e, env):
        v = self.eval(e.operand, env)
        if isinstance(e.op, ast.Not):
            if is_unk(v):
                return Unk('not')
            if isinstance(v, AbsObj):
                t = v.truth_()
                return Unk('not') if is_unk(t) else (not t)
            return not v
        if is_unk(v) or isinstance(v, AbsObj):
            return Unk('unary')
        try:
            if isinstance(e.op, ast.USub):
                return -v
            if isinstance(e.op, ast.UAdd):
                return +v
            if isinstance(e.op, ast.Invert):
                return ~v
        except TypeError as ex:
            raise Raised('TypeError', str(ex), e)
        raise Unmodelled('unary op')

    def binop(self, op, l, r, node=None):
        for a, b, refl in ((l, r, False), (r, l, True)):
            if isinstance(a, AbsObj) and hasattr(a, 'binop_'):
                v = a.binop_(op, b, refl)
                if v is not NotImplemented:
                    return v
        if is_unk(l) or is_unk(r):
            return Unk('binop')
        if isinstance(l, AbsObj) or isinstance(r, AbsObj):
            return Unk('binop')
        try:
            return _BINOPS[type(op)](l, r)
        except ZeroDivisionError:
            raise Raised('ZeroDivisionError', None, node)
        except (TypeError, ValueError, OverflowError) as ex:
            raise Raised(type(ex).__name__, str(ex), node)

    def ev_BinOp(self, e, env):
        return self.binop(e.op, self.eval(e.left, env),
                          self.eval(e.right, env), e)

    def ev_BoolOp(self, e, env):
        is_and = isinstance(e.op, ast.And)
        v = None
        for x in e.values:
            v = self.eval(x, env)
            t = self.truth(v, e)
            if is_and and not t:
                return v if not is_unk(v) else False
            if not is_and and t:
                return v if not is_unk(v) else True
        return v if not is_unk(v) else (True if is_and else False)

    def compare(self, op, l, r, node=None):
        if isinstance(op, (ast.Is, ast.IsNot)):
            if r is None or l is None:
                if (is_unk(l) and l.notnone) or (is_unk(r) and r.notnone):
                    return isinstance(op, ast.IsNot)
                if is_unk(l) or is_unk(r):
                    return Unk('is')
                if getattr(l, 'maybe_none', False) or \
                        getattr(r, 'maybe_none', False):
                    return Unk('is')
                res = l is r
            elif is_unk(l) or is_unk(r):
                return Unk('is')
            else:
                res = (l is r) or (isinstance(l, AbsObj) and l.eq_(r) is True
                                   and type(l) is type(r) and
                                   getattr(l, 'identity_by_eq', False))
            return res if isinstance(op, ast.Is) else (not res)
        if isinstance(op, (ast.In, ast.NotIn)):
            if is_unk(r) or is_unk(l):
                return Unk('in')
            if isinstance(r, AbsObj):
                res = r.contains_(l, self) if hasattr(r, 'contains_') \
                    else Unk('in')
                if is_unk(res):
                    return res
            elif isinstance(r, dict):
                res = _hashable(l) in r
            elif isinstance(r, str):
                if not isinstance(l, str):
                    raise Raised('TypeError', 'in <string> requires string',
                                 node)
                res = l in r
            else:
                res = False
                for x in r:
                    eq = self.compare(ast.Eq(), l, x)
                    if is_unk(eq):
                        return Unk('in')
                    if eq:
                        res = True
                        break
            return res if isinstance(op, ast.In) else (not res)
        if isinstance(l, AbsObj) or isinstance(r, AbsObj):
            if isinstance(op, (ast.Eq, ast.NotEq)):
                a, b = (l, r) if isinstance(l, AbsObj) else (r, l)
                res = a.eq_(b)
                if is_unk(res):
                    return res
                return res if isinstance(op, ast.Eq) else (not res)
            for a, b, refl in ((l, r, False), (r, l, True)):
                if isinstance(a, AbsObj) and hasattr(a, 'cmp_'):
                    return a.cmp_(op, b, refl)
            return Unk('cmp')
        if is_unk(l) or is_unk(r):
            return Unk('cmp')
        try:
            return _CMPOPS[type(op)](l, r)
        except TypeError as ex:
            raise Raised('TypeError', str(ex), node)

    def ev_Compare(self, e, env):
        l = self.eval(e.left, env)
        res = True
        for op, c in zip(e.ops, e.comparators):
            r = self.eval(c, env)
            v = self.compare(op, l, r, e)
            if is_unk(v):
                if len(e.ops) == 1:
                    return v
                if not self.truth(v, e):
                    return False
            elif not v:
                return False
            l = r
        return res

    def _comp(self, e, env, gens, k, emit):
        if k == len(gens):
            emit(env)
            return
        g = gens[k]
        for x in self.iterate(self.eval(g.iter, env)):
            e2 = Env(env)
            self.assign(g.target, x, e2)
            if all(self.truth(self.eval(c, e2), c) for c in g.ifs):
                self._comp(e, e2, gens, k + 1, emit)

    def ev_ListComp(self, e, env):
        out = []
        self._comp(e, env, e.generators, 0,
                   lambda en: out.append(self.eval(e.elt, en)))
        return out

    ev_GeneratorExp = ev_ListComp
    ev_SetComp = ev_ListComp

    def ev_DictComp(self, e, env):
        out = {}

        def emit(en):
            out[_hashable(self.eval(e.key, en))] = self.eval(e.value, en)
        self._comp(e, env, e.generators, 0, emit)
        return out

    def ev_Starred(self, e, env):
        return self.eval(e.value, env)

    def ev_NamedExpr(self, e, env):
        v = self.eval(e.value, env)
        env.set(e.target.id, v)
        return v


class ExcValue(AbsObj):
    def __init__(self, raised):
        self.raised = raised

    def getattr_(self, name, interp):
        v = self.raised.value
        if isinstance(v, tuple) and name in v[1]:
            return v[1][name]
        return Unk(f'exc.{name}')


def _handler_matches(h, cls_name):
    if h.type is None:
        return True
    names = [dotted(x) for x in h.type.elts] \
        if isinstance(h.type, ast.Tuple) else [dotted(h.type)]
    names = [(n or '').split('.')[-1] for n in names]
    if cls_name in names:
        return True
    parents = {
        'ZeroDivisionError': ['ArithmeticError', 'Exception'],
        'OverflowError': ['ArithmeticError', 'Exception'],
        'IndexError': ['LookupError', 'Exception'],
        'KeyError': ['LookupError', 'Exception'],
    }
    for p in parents.get(cls_name, ['Exception']):
        if p in names:
            return True
    return 'BaseException' in names


def _load(t):
    import copy
    t2 = copy.copy(t)
    t2.ctx = ast.Load()
    return t2


def _hashable(v):
    if isinstance(v, list):
        return tuple(v)
    return v


_BINOPS = {
    ast.Add: lambda a, b: a + b, ast.Sub: lambda a, b: a - b,
    ast.Mult: lambda a, b: a * b, ast.Div: lambda a, b: a / b,
    ast.FloorDiv: lambda a, b: a // b, ast.Mod: lambda a, b: a % b,
    ast.Pow: lambda a, b: a ** b, ast.BitAnd: lambda a, b: a & b,
    ast.BitOr: lambda a, b: a | b, ast.BitXor: lambda a, b: a ^ b,
    ast.LShift: lambda a, b: a << b, ast.RShift: lambda a, b: a >> b,
}
_CMPOPS = {
    ast.Eq: lambda a, b: a == b, ast.NotEq: lambda a, b: a != b,
    ast.Lt: lambda a, b: a < b, ast.LtE: lambda a, b: a <= b,
    ast.Gt: lambda a, b: a > b, ast.GtE: lambda a, b: a >= b,
}


def _b_len(x):
    if is_unk(x):
        return Unk('len')
    if isinstance(x, AbsObj):
        return x.len_() if hasattr(x, 'len_') else Unk('len')
    return len(x)


def _b_isinstance(x, cls):
    if isinstance(cls, (tuple, list)):
        rs = [_b_isinstance(x, c) for c in cls]
        if any(r is True for r in rs):
            return True
        if any(is_unk(r) for r in rs):
            return Unk('isinstance')
        return False
    if isinstance(cls, AbsObj) and hasattr(cls, 'instancecheck_'):
        return cls.instancecheck_(x)
    if is_unk(x) or is_unk(cls):
        return Unk('isinstance')
    if isinstance(cls, type):
        return isinstance(x, cls)
    return Unk('isinstance')


def _b_list(x=()):
    if is_unk(x):
        return Unk('list')
    if isinstance(x, AbsObj):
        return list(x.iter_(None))
    if isinstance(x, dict):
        return list(x.keys())
    return list(x)


def _b_next(it, *default):
    xs = _b_list(it)
    if is_unk(xs):
        return Unk('next')
    if xs:
        return xs[0]
    if default:
        return default[0]
    raise Raised('StopIteration', None)


def _b_reversed(x):
    return list(reversed(_b_list(x)))


def _b_range(*a):
    if any(is_unk(x) for x in a):
        return Unk('range')
    return list(range(*a))


def _b_any(x):
    rs = _b_list(x)
    if any(r is True or (not is_unk(r) and not isinstance(r, AbsObj) and r)
           for r in rs):
        return True
    if any(is_unk(r) for r in rs):
        return Unk('any')
    return False


def _b_all(x):
    rs = _b_list(x)
    if any((not is_unk(r)) and not isinstance(r, AbsObj) and not r
           for r in rs):
        return False
    if any(is_unk(r) for r in rs):
        return Unk('all')
    return True


def _b_print(*a, **k):
    return None


def _b_callable(x):
    if isinstance(x, (Closure,)):
        return True
    if is_unk(x):
        return Unk('callable')
    if isinstance(x, AbsObj):
        return hasattr(x, 'is_callable') and x.is_callable
    return callable(x)


def _b_getattr(obj, name, *default):
    if is_unk(obj) or is_unk(name):
        return Unk('getattr')
    if isinstance(obj, AbsObj):
        v = obj.getattr_(name, None)
        return v
    return getattr(obj, name, *default)


def _b_hasattr(obj, name):
    if is_unk(obj):
        return Unk('hasattr')
    if isinstance(obj, AbsObj):
        return obj.hasattr_(name) if hasattr(obj, 'hasattr_') else \
            Unk('hasattr')
    return hasattr(obj, name)


BUILTINS = {
    'len': _b_len, 'isinstance': _b_isinstance, 'list': _b_list,
    'tuple': lambda x=(): tuple(_b_list(x)) if not is_unk(x) else x,
    'reversed': _b_reversed, 'range': _b_range, 'any': _b_any,
    'all': _b_all, 'print': _b_print, 'callable': _b_callable,
    'getattr': _b_getattr, 'hasattr': _b_hasattr,
    'enumerate': lambda x, start=0: list(enumerate(_b_list(x), start)),
    'zip': lambda *a: list(zip(*[_b_list(x) for x in a])),
    'str': lambda x='': Unk('str', True) if is_unk(x) or
    isinstance(x, AbsObj) else str(x),
    'int': lambda x=0, *a, **k: Unk('int', True) if is_unk(x) or any(
        is_unk(y) for y in list(a) + list(k.values())) else int(x, *a, **k),
    'float': lambda x=0: Unk('float', True) if is_unk(x) else float(x),
    'bool': lambda x=False: Unk('bool') if is_unk(x) else bool(x),
    'abs': lambda x: Unk('abs') if is_unk(x) else abs(x),
    'round': lambda x, *a: Unk('round') if is_unk(x) else round(x, *a),
    'min': lambda *a: Unk('min') if any(is_unk(x) for x in a) else min(*a),
    'max': lambda *a: Unk('max') if any(is_unk(x) for x in a) else max(*a),
    'sum': lambda x, s=0: Unk('sum') if is_unk(x) or any(
        is_unk(y) for y in _b_list(x)) else sum(_b_list(x), s),
    'sorted': lambda x, **k: sorted(_b_list(x)),
    'ord': lambda x: Unk('ord') if is_unk(x) else ord(x),
    'chr': lambda x: Unk('chr') if is_unk(x) else chr(x),
    'bytes': lambda *a: Unk('bytes'),
    'object': lambda: Sentinel(),
    'dict': lambda *a, **k: dict(*a, **k),
    'set': lambda x=(): set(_b_list(x)),
    'type': lambda x: x.type_() if isinstance(x, AbsObj) and
    hasattr(x, 'type_') else Unk('type'),
    'id': lambda x: Unk('id'),
    'repr': lambda x: Unk('repr'),
    'next': lambda it, *d: _b_next(it, *d),
    'iter': lambda x: _b_list(x),
    'divmod': lambda a, b: Unk('divmod') if is_unk(a) or is_unk(b)
    else divmod(a, b),
    'hex': lambda x: Unk('hex', True) if is_unk(x) else hex(x),
    'frozenset': lambda x=(): frozenset(_b_list(x)),
    'map': lambda f, *a: Unk('map'),
    'filter': lambda f, x: Unk('filter'),
    'format': lambda *a: Unk('format', True),
    'pow': lambda *a: Unk('pow') if any(is_unk(x) for x in a) else pow(*a),
    'True': True, 'False': False, 'None': None,
    'Exception': 'Exception', 'ValueError': 'ValueError',
    'TypeError': 'TypeError', 'IndexError': 'IndexError',
    'KeyError': 'KeyError', 'AttributeError': 'AttributeError',
    'ZeroDivisionError': 'ZeroDivisionError',
    'OverflowError': 'OverflowError', 'NameError': 'NameError',
    'RuntimeError': 'RuntimeError', 'AssertionError': 'AssertionError',
    'NotImplementedError': 'NotImplementedError',
}


class BuiltinType(AbsObj):
    """int / str / list / tuple ... usable both as a converter and as the
    second argument of isinstance."""
    is_callable = True

    def __init__(self, pytype, conv):
        self.pytype = pytype
        self.conv = conv

    def call_(self, args, kwargs, interp):
        return self.conv(*args, **kwargs)

    def instancecheck_(self, x):
        if is_unk(x):
            return Unk('isinstance')
        if isinstance(x, AbsObj):
            return getattr(x, 'pytype_', None) is self.pytype
        if self.pytype is int and isinstance(x, bool):
            return True
        return isinstance(x, self.pytype)

    def eq_(self, other):
        return isinstance(other, BuiltinType) and \
            other.pytype is self.pytype


for _n, _t in (('int', int), ('str', str), ('float', float),
               ('list', list), ('tuple', tuple), ('dict', dict),
               ('bool', bool)):
    BUILTINS[_n] = BuiltinType(_t, BUILTINS[_n])


class Sentinel(AbsObj):
    """object() -- unique identity."""

    def eq_(self, other):
        return self is other
