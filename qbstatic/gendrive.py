"""Driver of the emission interpreter: enumerates scenarios per generator,
runs the generator abstractly, checks the emitted sequences and reports
findings for C03 (stack/type discipline), C06 (generator totality), C08
(debug-flag equivalence), C11 (marker discipline)."""
import time

from . import registries as R
from .gensim import GenSim, ANode, AType, BUILTIN_TYPES
from . import gencheck as G
from .model import AnalysisError

_CACHE = {}


def _analyse_classes(root, classes, budget_s=600):
    from .model import Repo
    repo = Repo(root)
    sim = GenSim(repo)
    t0 = time.time()
    res = {'generators': {}, 'scenarios': 0, 'admissible': 0, 'paths': 0,
           'instructions': 0, 'problems': [], 'unmodelled': [],
           'samples': []}
    for cls in classes:
        g = sim.gens[cls]
        scs = G.scenarios(sim, cls)
        ginfo = {'scenarios': len(scs), 'admissible': 0, 'paths': 0}
        res['generators'][cls] = ginfo
        if not scs:
            res['unmodelled'].append((cls, 'no scenario builder'))
            continue
        is_expr = sim.is_subclass(cls, 'Expr')
        rel = {}
        for sc in scs:
            res['scenarios'] += 1
            sim.compilation.routines = dict(sc.routines)
            sim.pass_blocks = getattr(sc, 'pass_blocks', None)
            acls, anode = sc.admit if sc.admit else (cls, sc.node)
            ok, by = sim.run_pass_handlers(acls, anode, sc.routine)
            if ok and sc.admit:
                ok, by = sim.run_pass_handlers(cls, sc.node, sc.routine)
            sim.pass_blocks = None
            if getattr(sc, 'must_admit', False) and not ok:
                _problem(res, 'valid-node-rejected', g, cls, sc,
                         f'{by} rejects a statement that is valid where it '
                         f'stands ({sc.label})', None)
            if getattr(sc, 'must_reject', False):
                if ok:
                    _problem(res, 'invalid-node-accepted', g, cls, sc,
                             f'no pass rejects a statement the language '
                             f'rules forbid ({sc.label})', None)
                continue
            if not ok or getattr(sc, 'admission_only', False):
                continue
            # children are checked by their own handlers
            ok = _children_admissible(sim, sc)
            if not ok:
                continue
            res['admissible'] += 1
            ginfo['admissible'] += 1
            per_flag = {}
            for debug in (False, True):
                outs = sim.run_generator(cls, sc.node, debug=debug,
                                         cfg=sc.cfg, routine=sc.routine,
                                         blocks=sc.blocks)
                per_flag[debug] = outs
                for choices, out in outs:
                    res['paths'] += 1
                    ginfo['paths'] += 1
                    _check_path(sim, res, g, cls, sc, debug, choices, out,
                                is_expr)
            _flag_equivalence(sim, res, g, cls, sc, per_flag)
            if cls == 'BinaryOp':
                for c, o in per_flag[False]:
                    if o[0] == 'ok':
                        ft = _operand_final_types(o[1])
                        if ft is not None:
                            opn, tys = sc.label.split(':', 1)
                            rel.setdefault(('operand-types', tys), {})[
                                opn] = (ft, sc)
            if cls == 'RestoreStmt':
                rel.setdefault(('restore',), {})[sc.label] = (
                    sorted(repr(_canon_seq(o[1]))
                           for c, o in per_flag[False] if o[0] == 'ok'), sc)
            if cls == 'InputStmt':
                rel.setdefault(sc.label.split(' prompt=')[0], []).append(
                    (sc, sorted(repr(_mask_literals(o[1]))
                                for c, o in per_flag[False]
                                if o[0] == 'ok')))
            if time.time() - t0 > budget_s:
                res['unmodelled'].append((cls, 'time budget exhausted'))
                break
        for key, group in sorted(rel.items(), key=repr):
            if key == ('restore',):
                # RESTORE <line 0> is a RESTORE with a target: it must
                # compile like RESTORE <line 10>, not like plain RESTORE
                a = group.get('lineno0')
                b = group.get('lineno10')
                p0 = group.get('plain')
                if a and b and p0 and a[0] != b[0] and a[0] == p0[0]:
                    _problem(res, 'restore-target-zero', g, cls, a[1],
                             'RESTORE 0 compiles to the code of a RESTORE '
                             'without target (line number 0 is treated as '
                             '"no target"): it rewinds to the first DATA '
                             'of the program instead of the DATA at line 0',
                             None)
                continue
            if isinstance(key, tuple) and key[0] == 'operand-types':
                # a comparison brings its operands to the same common type
                # as arithmetic on them does
                ref = group.get('ADD')
                if ref is None:
                    continue
                for opn, (ft, sc0) in sorted(group.items()):
                    if opn.startswith('CMP_') and ft != ref[0]:
                        _problem(res, 'comparison-common-type', g, cls, sc0,
                                 f'for operand types {key[1]} the comparison '
                                 f'{opn} is performed on {ft}, arithmetic '
                                 f'(+) on {ref[0]}: the comparison converts '
                                 f'an operand to a type that cannot hold it '
                                 f'(e.g. a SINGLE to LONG) or the two '
                                 f'disagree about the common type', None)
                continue
            seqs = {tuple(x[1]) for x in group}
            if len(seqs) > 1:
                _problem(res, 'prompt-dependent-code', g, cls, group[0][0],
                         'the instructions emitted for INPUT differ between '
                         'two statements that differ only in the text of the '
                         'prompt string (beyond the string literal itself): '
                         'flags such as the question mark must come from the '
                         'syntax (; or ,), not from the prompt text', None)
    return res


def analyse(repo, budget_s=600, jobs=None):
    """Runs all scenarios once per process (generator classes are spread
    over worker processes); returns the merged result dict."""
    import os
    from concurrent.futures import ProcessPoolExecutor
    key = repo.digest()
    if key in _CACHE:
        return _CACHE[key]
    # on-disk cache shared by the checks that use the interpreter, keyed by
    # the digest of the analysed sources AND of the analyser itself
    import hashlib
    import json
    from pathlib import Path
    here = Path(__file__).resolve().parent
    h = hashlib.sha256(key.encode())
    for p in sorted(here.glob('*.py')):
        h.update(p.read_bytes())
    cdir = here.parent / '.cache'
    cfile = cdir / f'gen-{h.hexdigest()[:24]}.json'
    if cfile.exists() and not os.environ.get('QB_NO_CACHE'):
        try:
            res = json.loads(cfile.read_text())
            res['from_cache'] = True
            _CACHE[key] = res
            return res
        except Exception:
            pass
    t0 = time.time()
    gens, _ = R.generators(repo)
    classes = sorted(gens)
    jobs = jobs or int(os.environ.get('QB_JOBS', '0') or 0) or \
        min(16, os.cpu_count() or 4)
    # heavy classes first, round-robin
    heavy = ['ForBlock', 'BuiltinFuncCall', 'BinaryOp', 'ScreenStmt',
             'BsaveStmt', 'ColorStmt', 'LocateStmt', 'CaseStmt',
             'AssignmentStmt', 'PrintStmt', 'Lvalue', 'FuncCall',
             'CallStmt', 'DimStmt', 'SelectBlock', 'IfBlock']
    ordered = [c for c in heavy if c in classes] + \
        [c for c in classes if c not in heavy]
    chunks = [ordered[i::jobs] for i in range(jobs)]
    chunks = [c for c in chunks if c]
    res = {'generators': {}, 'scenarios': 0, 'admissible': 0, 'paths': 0,
           'instructions': 0, 'problems': [], 'unmodelled': [],
           'samples': []}
    if jobs == 1 or len(chunks) == 1:
        parts = [_analyse_classes(str(repo.root), ordered, budget_s)]
    else:
        with ProcessPoolExecutor(max_workers=len(chunks)) as ex:
            parts = list(ex.map(_analyse_classes,
                                [str(repo.root)] * len(chunks), chunks,
                                [budget_s] * len(chunks)))
    for p in parts:
        res['generators'].update(p['generators'])
        for k in ('scenarios', 'admissible', 'paths', 'instructions'):
            res[k] += p[k]
        res['problems'] += p['problems']
        res['unmodelled'] += p['unmodelled']
        res['samples'] += p['samples']
    res['samples'] = res['samples'][:12]
    res['problems'].sort(key=lambda p: (p['generator'], p['kind'],
                                        p['scenario'], str(p['debug'])))
    res['wall_s'] = round(time.time() - t0, 2)
    _CACHE[key] = res
    try:
        cdir.mkdir(exist_ok=True)
        olds = sorted(cdir.glob('gen-*.json'),
                      key=lambda p: p.stat().st_mtime)
        for old in olds[:-60]:
            old.unlink()
        tmp = cfile.with_suffix(f'.{os.getpid()}.tmp')
        tmp.write_text(json.dumps(res, default=str))
        tmp.replace(cfile)
    except Exception:
        pass
    return res


def _children_admissible(sim, sc):
    """Expression children that are themselves nodes with pass handlers
    (Lvalue indices etc.) -- run their handlers too."""
    for v in sc.node.fields.values():
        kids = v if isinstance(v, list) else [v]
        for k in kids:
            if isinstance(k, tuple):
                kids2 = [x for x in k if isinstance(x, ANode)]
            else:
                kids2 = [k] if isinstance(k, ANode) else []
            for n in kids2:
                if n.cls.startswith('$'):
                    continue
                if n.cls == 'Lvalue':
                    # indices must be numeric (process_lvalue_pre)
                    for ix in n.fields.get('array_indices', []):
                        t = ix.fields.get('type')
                        if isinstance(t, AType) and t.name not in (
                                'INTEGER', 'LONG', 'SINGLE', 'DOUBLE'):
                            return False
    return True


def _problem(res, kind, g, cls, sc, detail, debug):
    res['problems'].append({
        'kind': kind, 'generator': g.qualname, 'file': g.file,
        'line': g.line, 'class': cls, 'scenario': sc.label,
        'detail': detail, 'debug': debug})


def _check_path(sim, res, g, cls, sc, debug, choices, out, is_expr):
    if out[0] == 'unmodelled':
        res['unmodelled'].append((cls, sc.label, out[1]))
        return
    if out[0] == 'raise':
        _problem(res, 'generator-raises', g, cls, sc,
                 f'{out[1]}: {out[2]} (line {out[3]})', debug)
        return
    instrs = out[1]
    res['instructions'] += len(instrs)
    if len(res['samples']) < 12 and len(instrs) > 2 and \
            not any(s['generator'] == g.qualname for s in res['samples']):
        res['samples'].append({
            'generator': g.qualname, 'scenario': sc.label, 'debug': debug,
            'emitted': [_show(i) for i in instrs[:14]]})
    rparams = None
    if cls in ('SubBlock', 'FunctionBlock'):
        rparams = list(sc.node.fields['routine'].params)
    problems, exits = G.run_sequence(sim, instrs, sc.entry, rparams)
    for p in problems:
        if p.kind == 'obligation':
            continue       # reported by the obligation/discharge rule
        kind = {'type-trap': 'consumer-type', 'host-exception':
                'handler-host-exception', 'unknown-op': 'unknown-op',
                'underflow': 'stack-underflow', 'arg-type': 'arg-type',
                'inconsistent-stack': 'inconsistent-stack',
                'ambiguous-effect': 'ambiguous-effect',
                'unmodelled': 'unmodelled'}.get(p.kind, p.kind)
        if kind == 'unmodelled':
            res['unmodelled'].append((cls, sc.label, p.detail))
            continue
        _problem(res, kind, g, cls, sc, p.detail, debug)
    if any(p.kind in ('type-trap', 'unknown-op', 'obligation',
                      'underflow', 'unmodelled', 'host-exception')
           for p in problems):
        return
    # net effect (H)
    entry = tuple(sc.entry)
    if sc.expect is not None:
        want_end = tuple(sc.expect)
    elif cls in G.CONDITION_STMTS:
        want_end = entry + ('INTEGER',)
    elif is_expr:
        tn = G.node_type_name(sim, sc.node)
        want_end = entry + ((tn,) if tn else ('?',))
    else:
        want_end = entry
    for e in exits:
        kind, stk = e[0], e[1]
        if kind in ('end', 'jump-out'):
            if '?' in want_end:
                if len(stk) != len(want_end):
                    _problem(res, 'net-effect', g, cls, sc,
                             f'leaves {stk}, expected depth '
                             f'{len(want_end)}', debug)
            elif tuple(stk) != tuple(want_end):
                _problem(res, 'net-effect', g, cls, sc,
                         f'leaves {stk} at {kind}, expected {want_end}',
                         debug)
        elif kind in ('ret', 'ijmp'):
            if cls in ('SubBlock', 'FunctionBlock', 'Program'):
                if tuple(stk) != ():
                    _problem(res, 'net-effect', g, cls, sc,
                             f'{kind} leaves {stk}, expected an empty '
                             f'stack', debug)
            elif entry and tuple(stk) != tuple(entry[:-1]):
                _problem(res, 'net-effect', g, cls, sc,
                         f'{kind} leaves {stk}, expected {entry[:-1]}',
                         debug)
    if cls == 'PrintStmt':
        _print_items(sim, res, g, cls, sc, debug, instrs)
    if getattr(sc, 'expect_target', None):
        jumps = [i[1] for i in G.strip_pseudo(instrs) if i[0] == 'jmp']
        if jumps != [sc.expect_target]:
            _problem(res, 'exit-target', g, cls, sc,
                     f'inside nested loops the statement jumps to {jumps}; '
                     f'it must leave the innermost enclosing loop of its '
                     f'kind ({sc.expect_target})', debug)
    # marker discipline
    mp, manual = G.marker_check(instrs)
    for p in mp:
        _problem(res, 'marker-discipline', g, cls, sc, p.detail, debug)
    if not debug and manual:
        _problem(res, 'marker-without-flag', g, cls, sc,
                 f'{len(manual)} debug markers emitted with the flag off',
                 debug)
    if debug and manual and sim.is_subclass(cls, 'Block'):
        # (block generators only: a statement generator runs inside the
        # bracket gen_code_for_node puts around it)
        # between the first start marker and the last end marker every real
        # instruction lies inside some statement bracket: an instruction in
        # a gap between two brackets belongs to no statement record
        seq = list(instrs)
        idx = [k for k, i in enumerate(seq)
               if i[0] in ('_dbg_info_start', '_dbg_info_end')]
        if idx:
            depth = 0
            for k in range(idx[0], idx[-1] + 1):
                i = seq[k]
                if i[0] == '_dbg_info_start':
                    depth += 1
                elif i[0] == '_dbg_info_end':
                    depth -= 1
                elif depth == 0 and not str(i[0]).startswith('_') and \
                        i[0] != '$gen':
                    _problem(res, 'marker-gap', g, cls, sc,
                             f'the instruction {str(i[0])} is emitted '
                             f'between two statement brackets of the block '
                             f'(after an end marker, before the next start '
                             f'marker): it is attributed to no statement, '
                             f'so an error in it cannot be resumed and a '
                             f'step stops nowhere', debug)
                    break
    if debug and cls in ('IfBlock', 'SelectBlock'):
        want = []
        if cls == 'IfBlock':
            want = list(sc.node.fields.get('elseif_stmts') or [])
            if sc.node.fields.get('else_stmt') is not None:
                want.append(sc.node.fields['else_stmt'])
        else:
            want = [c for c, b in sc.node.fields.get('case_blocks', [])]
        own = [m for m in manual if m.cls in ('ElseIfStmt', 'ElseStmt',
                                              'CaseStmt', 'CaseElseStmt')]
        if {x.uid for x in own} != {x.uid for x in want}:
            _problem(res, 'marker-attribution', g, cls, sc,
                     f'clause statements bracketed by the manual markers '
                     f'({sorted({x.cls for x in own})}, {len(set(own))} '
                     f'distinct) differ from the clause statements of the '
                     f'block ({sorted({x.cls for x in want})}, '
                     f'{len(want)}): some clause gets no debug record or a '
                     f'foreign one', debug)


def _print_entries(instrs):
    """The (tag, value?) entries a PRINT emission hands to the device, in
    order; the counted-arguments push before the io instruction is not an
    entry."""
    real = [i for i in G.strip_pseudo(instrs)]
    io = [k for k, i in enumerate(real) if i[0] == 'io']
    if not io:
        return None
    body = real[:io[-1]]
    if body and body[-1][0] == 'push%':
        body = body[:-1]          # nargs
    out = []
    k = 0
    while k < len(body):
        i = body[k]
        if i[0] == 'push%' and k + 1 < len(body) and \
                body[k + 1][0] == '$gen':
            out.append(('v', i[1], body[k + 1][1]))
            k += 2
        elif i[0] == 'push%':
            out.append(('s', i[1], None))
            k += 1
        else:
            k += 1                # conversions etc.
    return out


def _print_items(sim, res, g, cls, sc, debug, instrs):
    """One entry per source item, in source order.  Semicolons print
    nothing, so they may be elided; values and commas may not."""
    ents = _print_entries(instrs)
    if ents is None:
        return
    items = list(sc.node.fields.get('items') or [])
    fmt = sc.node.fields.get('format_string')
    want = []
    for it in items:
        if it.cls == 'PrintSep':
            want.append(('s', it.fields.get('sep')))
        else:
            want.append(('v', it.uid))
    got = []
    for kind, tag, node in ents:
        if kind == 'v':
            if fmt is not None and node is fmt:
                continue          # the USING format string
            got.append(('v', getattr(node, 'uid', None)))
        else:
            got.append(('s', tag))
    # map separator tags to separator texts by first occurrence
    if [k for k, _ in want] == [k for k, _ in got]:
        m = {}
        for (k, w), (_, t) in zip(want, got):
            if k == 's':
                if m.setdefault(t, w) != w or \
                        sum(1 for x in m.values() if x == w) > 1:
                    _problem(res, 'print-items', g, cls, sc,
                             f'separator tags are not in one-to-one '
                             f'correspondence with the separators of the '
                             f'statement ({want} -> {got})', debug)
                    return
            elif w != t:
                _problem(res, 'print-items', g, cls, sc,
                         f'values are emitted out of source order '
                         f'({want} -> {got})', debug)
                return
        return
    # lengths differ: tolerate elided semicolons only
    semi = getattr(sim, '_semi_tag', None)
    if semi is None:
        sep = ANode(sim, 'PrintSep', sep=';')
        outs = sim.run_generator('PrintStmt', ANode(
            sim, 'PrintStmt', items=[sep], format_string=None),
            debug=False, cfg={}, routine=None, blocks=None)
        semi = 'unknown'
        for ch, o in outs:
            if o[0] == 'ok':
                e = _print_entries(o[1])
                if e and len(e) == 1 and e[0][0] == 's':
                    semi = e[0][1]
        sim._semi_tag = semi
    w2 = [x for x in want if x != ('s', ';')]
    g2 = [x for x in got if not (x[0] == 's' and x[1] == semi)]
    if [k for k, _ in w2] != [k for k, _ in g2] or \
            (bool(want) and bool(got) and
             (want[-1][0] == 's') != (got[-1][0] == 's')) or \
            (bool(want) != bool(got) and (want or got) and
             not all(x == ('s', ';') for x in want)):
        sw = ' '.join('e' if k == 'v' else str(x) for k, x in want)
        sg = ' '.join('e' if k == 'v' else f'tag{x}' for k, x in got)
        _problem(res, 'print-items', g, cls, sc,
                 f'a value or a comma of the statement is dropped, added or '
                 f'moved on the way to the device (only semicolons may be '
                 f'elided); e.g. items [{sw}] are handed over as [{sg}]',
                 debug)


def _show(ins):
    out = []
    for x in ins:
        if callable(x) and not isinstance(x, (str, int)):
            out.append('<deferred>')
        else:
            out.append(str(x))
    return ' '.join(out)


def _flag_equivalence(sim, res, g, cls, sc, per_flag):
    off = [o for c, o in per_flag[False] if o[0] == 'ok']
    on = [o for c, o in per_flag[True] if o[0] == 'ok']
    a = sorted(repr(_canon_seq(o[1])) for o in off)
    b = sorted(repr(_canon_seq(o[1])) for o in on)
    if a != b:
        _problem(res, 'flag-changes-code', g, cls, sc,
                 'the real instructions emitted with debug info differ from '
                 'those emitted without it '
                 f'(first difference: {_first_diff(a, b)})', None)


def _operand_final_types(instrs):
    """Types the two operands of a binary operation have when the
    operation executes: [$gen L, conv?, $gen R, conv?, op...]."""
    real = list(G.strip_pseudo(instrs))
    gens = [k for k, i in enumerate(real) if i[0] == '$gen']
    if len(gens) != 2:
        return None
    out = []
    for n, k in enumerate(gens):
        end = gens[n + 1] if n + 1 < len(gens) else len(real)
        t = None
        node = real[k][1]
        try:
            t = node.fields['type'].name
        except Exception:
            return None
        for i in real[k + 1:end]:
            op = str(i[0])
            if op.startswith('conv') and len(op) == 6:
                t = {'%': 'INTEGER', '&': 'LONG', '!': 'SINGLE',
                     '#': 'DOUBLE', '$': 'STRING'}.get(op[5], t)
            else:
                break
        out.append(t)
    return tuple(out)


def _mask_literals(instrs):
    out = []
    for ins in G.strip_pseudo(instrs):
        if ins and ins[0] == 'push$':
            out.append(('push$', '<literal>'))
        else:
            out.append(tuple(str(x) for x in ins))
    return out


def _canon_seq(instrs):
    out = []
    for ins in G.strip_pseudo(instrs):
        out.append(tuple(str(x) for x in ins))
    return out


def _first_diff(a, b):
    for x, y in zip(a, b):
        if x != y:
            import difflib
            for tag, i1, i2, j1, j2 in difflib.SequenceMatcher(
                    None, x, y).get_opcodes():
                if tag != 'equal':
                    return f'...{x[max(0, i1 - 30):i2 + 30]} / ' \
                           f'...{y[max(0, j1 - 30):j2 + 30]}'
    return f'{len(a)} vs {len(b)} paths'


# ---------------------------------------------------------------------------
# reporting into a check context

KIND_TEXT = {
    'consumer-type': 'an emitted instruction or device operation pops a '
                     'cell type the generator did not provide (machine '
                     'TYPE_MISMATCH / device BAD_ARG_TYPE for an accepted '
                     'program)',
    'unknown-op': 'the generator emits an op that is not an instruction',
    'stack-underflow': 'the emitted sequence pops more than it pushed',
    'net-effect': 'the generator does not re-establish the stack '
                  'hypothesis (Expr: +1 of the node type; Stmt: 0)',
    'inconsistent-stack': 'two paths reach a label with different stacks',
    'arg-type': 'a by-value argument cell does not have the parameter type',
    'ambiguous-effect': 'a handler leaves differently shaped stacks',
    'handler-host-exception': 'the handler raises a host exception for '
                              'well-typed operands',
    'generator-raises': 'the code generator raises for an admissible node',
    'marker-discipline': 'debug markers are not properly nested in emission '
                         'order',
    'marker-without-flag': 'debug markers are emitted with the flag off',
    'marker-attribution': 'a clause statement of a block is bracketed zero '
                          'or several times by the manual markers',
    'flag-changes-code': 'the debug flag changes the real instructions',
}


def report(ctx, pid, kinds, rule_suffix, rule_text):
    res = analyse(ctx.repo)
    rule = f'{pid}.{rule_suffix}'
    ctx.rule(rule, rule_text)
    ctx.floor('generators with scenarios',
              sum(1 for v in res['generators'].values()
                  if v['scenarios']), 55)
    ctx.floor('admissible scenarios', res['admissible'], 1500)
    for cls, gi in sorted(res['generators'].items()):
        ctx.instance(rule, f'generator:{cls}',
                     nontrivial=gi['admissible'] > 0,
                     sample={'scenarios': gi['scenarios'],
                             'admissible': gi['admissible'],
                             'paths': gi['paths']})
    grouped = {}
    for p in res['problems']:
        if p['kind'] not in kinds:
            continue
        # group by generator + kind + normalised detail head
        head = _detail_head(p['detail'], p['kind'])
        # scenarios of one generator whose label starts with a statement
        # form (`do_until DOUBLE body=0`) are different constructs: keep
        # them apart, so that a known finding for one form does not hide
        # a new one for another
        lab = str(p['scenario']).split()
        if len(lab) >= 2 and lab[0].isidentifier() and '_' in lab[0] and \
                p['kind'] in ('consumer-type', 'net-effect'):
            head = f'{head}[{lab[0]}]'
        key = (p['generator'], p['kind'], head)
        grouped.setdefault(key, []).append(p)
    for (gname, kind, head), ps in sorted(grouped.items()):
        p0 = ps[0]
        labels = sorted({p['scenario'] for p in ps})
        ctx.finding(rule + ':' + kind,
                    f'{p0["file"]}:{gname}:{head}',
                    f'{gname}: {KIND_TEXT.get(kind, kind)}: {p0["detail"]} '
                    f'[{len(labels)} scenario(s), e.g. {labels[:3]}]',
                    p0['file'], p0['line'],
                    facts={'scenarios': labels[:20]})
    ctx.extra.setdefault('emission_interpreter', {
        'scenarios': res['scenarios'], 'admissible': res['admissible'],
        'paths': res['paths'], 'instructions_checked': res['instructions'],
        'unmodelled': [list(u) for u in res['unmodelled'][:40]],
        'n_unmodelled': len(res['unmodelled']),
        'wall_s': res['wall_s'], 'samples': res['samples']})
    if res['unmodelled']:
        ctx.observe(f'emission interpreter: {len(res["unmodelled"])} '
                    f'unmodelled path(s)/site(s); their obligations are '
                    f'undecided (listed in the evidence)')


def _detail_head(detail, kind=None):
    """Stable grouping key of a problem: the instruction / device operation
    or the exception class -- no types, labels, uids or line numbers."""
    import re
    d = str(detail)
    if kind in ('consumer-type', 'handler-host-exception',
                'stack-underflow', 'ambiguous-effect', 'unknown-op'):
        return d.split(':')[0].strip()[:40]
    if kind in ('net-effect', 'marker-discipline', 'marker-attribution',
                'marker-without-flag', 'flag-changes-code',
                'inconsistent-stack', 'arg-type', 'print-items',
                'prompt-dependent-code', 'exit-target',
                'comparison-common-type', 'restore-target-zero',
                'marker-gap',
                'valid-node-rejected', 'invalid-node-accepted'):
        return kind
    if kind == 'generator-raises':
        return d.split(':')[0].strip()[:40]
    d = re.sub(r'#\d+', '#', d)
    d = re.sub(r'_\w+_\d+', '_L', d)
    return d[:70]
