"""Abstract execution of QVM instruction handlers and device operations on
a stack of abstract cells (types known, values mostly unknown).

The handler bodies are interpreted from the AST of qvm/cpu.py and
qvm/machine.py with `absint`; `self`, the stack, cells, cell types, trap codes
and the peripherals implementation are modelled objects.
"""
import ast

from . import registries as R
from .absint import (AbsObj, Unk, UNK, is_unk, Interp, Env, Closure, Oracle,
                     explore, PathEnd, Raised, Unmodelled, Sentinel)
from .astutil import dotted, const, unparse
from .model import AnalysisError

NUMERIC = ('INTEGER', 'LONG', 'SINGLE', 'DOUBLE')


class TypeV(AbsObj):
    """A CellType member."""
    identity_by_eq = True

    def __init__(self, name, info):
        self.name = name
        self.info = info          # CellTypeInfo

    def getattr_(self, attr, interp):
        if attr == 'name':
            return self.name
        if attr == 'value':
            return self.info.values.get(self.name, Unk('enum value'))
        if attr == 'is_numeric':
            return self.name in self.info.numeric
        if attr == 'is_integral':
            return self.name in self.info.integral
        if attr == 'py_type':
            return PyTypeV(self.info.py_types.get(self.name))
        return Unk(f'CellType.{attr}')

    def eq_(self, other):
        if isinstance(other, TypeV):
            return self.name == other.name
        if is_unk(other):
            return Unk('type-eq')
        return False

    def str_(self):
        return f'CellType.{self.name}'

    def __repr__(self):
        return self.name

    def __hash__(self):
        return hash(self.name)

    def __eq__(self, other):
        return isinstance(other, TypeV) and other.name == self.name


class PyTypeV(AbsObj):
    def __init__(self, name):
        self.name = name

    def call_(self, args, kwargs, interp):
        if args and not is_unk(args[0]) and self.name in ('int', 'float',
                                                          'str'):
            try:
                return {'int': int, 'float': float, 'str': str}[self.name](
                    args[0])
            except Exception:
                return Unk('py_type')
        return Unk(f'{self.name}()')

    def eq_(self, other):
        if isinstance(other, PyTypeV):
            return self.name == other.name
        if other in (int, float, str):
            return self.name == other.__name__
        return False


class CellTypeInfo:
    """Facts about qvm.cell.CellType read from its source."""

    def __init__(self, repo):
        ci = repo.cls('qvm.cell', 'CellType')
        self.values = R.enum(repo, 'qvm.cell', 'CellType')
        self.numeric = self._members(ci, 'is_numeric')
        self.integral = self._members(ci, 'is_integral')
        self.py_types = {}
        f = ci.methods.get('py_type')
        if f is not None:
            for n in ast.walk(f.node):
                if isinstance(n, ast.Dict):
                    for k, v in zip(n.keys, n.values):
                        self.py_types[(dotted(k) or '').split('.')[-1]] = \
                            dotted(v)
        if not self.numeric or not self.integral:
            raise AnalysisError('anchor vanished: CellType.is_numeric / '
                                'is_integral member lists')

    @staticmethod
    def _members(ci, prop):
        f = ci.methods.get(prop)
        out = set()
        if f is None:
            return out
        for n in ast.walk(f.node):
            if isinstance(n, (ast.List, ast.Tuple)):
                for e in n.elts:
                    d = dotted(e) or ''
                    if d.startswith('CellType.'):
                        out.add(d.split('.')[1])
        return out


class EnumNS(AbsObj):
    def __init__(self, make):
        self.make = make

    def getattr_(self, attr, interp):
        return self.make(attr)


class TrapV(AbsObj):
    identity_by_eq = True

    def __init__(self, name):
        self.name = name

    def eq_(self, other):
        return isinstance(other, TrapV) and other.name == self.name

    def __repr__(self):
        return f'TrapCode.{self.name}'


class Cell(AbsObj):
    def __init__(self, type_, value=UNK):
        self.type = type_        # TypeV or Unk
        self.value = value

    def getattr_(self, attr, interp):
        if attr == 'type':
            return self.type
        if attr == 'value':
            return self.value
        return Unk(f'cell.{attr}')

    def setattr_(self, attr, v, interp):
        if attr == 'value':
            self.value = v

    def __repr__(self):
        return f'<{self.type}>'


class RefV(AbsObj):
    def __init__(self, note='ref'):
        self.note = note

    def getattr_(self, attr, interp):
        if attr == 'segment':
            return SegV()
        if attr == 'index':
            return Unk('ref.index')
        if attr == 'derefed':
            return FnV(lambda a, k: Cell(Unk('deref type')))
        return Unk(f'ref.{attr}')

    def setattr_(self, attr, v, interp):
        pass


class SegV(AbsObj):
    """A memory segment: cells read from it are unknown (may be None)."""

    def getattr_(self, attr, interp):
        if attr == 'get_cell':
            return FnV(lambda a, k: MaybeCell())
        if attr in ('set_cell', 'append_local', 'set_temp_reference',
                    'destroy'):
            return FnV(lambda a, k: None)
        if attr == 'get_cell_ref':
            return FnV(lambda a, k: RefV())
        if attr == 'prev_frame':
            return SegV()
        return Unk(f'segment.{attr}')

    def setattr_(self, attr, v, interp):
        pass


class MaybeCell(AbsObj):
    """Result of get_cell: a cell of unknown type, or None (compared with
    `is None` -> fork)."""

    maybe_none = True

    def __init__(self):
        self._none = None

    def getattr_(self, attr, interp):
        if attr == 'type':
            return Unk('stored cell type')
        if attr == 'value':
            return Unk('stored cell value')
        return Unk(f'cell.{attr}')

    def eq_(self, other):
        if other is None:
            return Unk('is-none')
        return Unk('eq')

    def truth_(self):
        return Unk('maybe-cell')


class FnV(AbsObj):
    is_callable = True

    def __init__(self, fn):
        self.fn = fn

    def call_(self, args, kwargs, interp):
        return self.fn(args, kwargs)


class NullObj(AbsObj):
    """logger, math, ... : every call returns Unk/None without effect."""

    def __init__(self, ret=None):
        self.ret = ret

    def getattr_(self, attr, interp):
        return NullObj(self.ret)

    def call_(self, args, kwargs, interp):
        return Unk('ext') if self.ret is UNK else self.ret


class StackV(AbsObj):
    def __init__(self, cpu):
        self.cpu = cpu

    def getattr_(self, attr, interp):
        if attr == 'pop':
            return FnV(lambda a, k: self.cpu.raw_pop())
        if attr == 'append':
            return FnV(lambda a, k: self.cpu.cells.append(a[0]))
        return Unk(f'stack.{attr}')


class CpuV(AbsObj):
    """`self` of QvmCpu handlers (and `self.cpu` of devices)."""

    def __init__(self, sim, cells):
        self.sim = sim
        self.cells = list(cells)
        self.popped = []
        self.pushed = []
        self.writes = []
        self.attrs = {}

    def raw_pop(self):
        if not self.cells:
            raise Raised('IndexError', 'pop from empty list')
        c = self.cells.pop()
        self.popped.append(c)
        return c

    def getattr_(self, attr, interp):
        sim = self.sim
        if attr == 'stack':
            return StackV(self)
        if attr in ('cur_frame', 'globals_segment'):
            return SegV()
        if attr in self.attrs:
            return self.attrs[attr]
        m = sim.cpu_method(attr)
        if m is not None:
            return Closure(m.node, sim.module_env('qvm.cpu'), name=attr,
                           bound=self)
        if attr in ('pc', 'prev_pc', 'trapped_addr'):
            return Unk(attr)
        if attr == 'module':
            return ModuleV()
        if attr in ('error_handler_active', 'halted'):
            return Unk(attr)
        if attr == 'last_trap':
            return Unk('last_trap')
        if attr == 'last_trap_kwargs':
            return {}
        if attr == 'trap_target':
            return Unk('trap_target')
        if attr == 'device_by_id':
            return Unk('device_by_id')
        return Unk(f'cpu.{attr}')

    def setattr_(self, attr, v, interp):
        self.writes.append(attr)
        self.attrs[attr] = v


class ModuleV(AbsObj):
    def getattr_(self, attr, interp):
        if attr == 'debug_info':
            return Unk('debug_info')
        return Unk(f'module.{attr}')


class ImplV(AbsObj):
    """The peripherals implementation: every operation is an IO event."""

    def __init__(self, sim):
        self.sim = sim

    def getattr_(self, attr, interp):
        def call(a, k):
            self.sim.io_events.append((attr, len(a)))
            if hasattr(self.sim, 'io_args'):
                self.sim.io_args.append((attr, list(a)))
            if attr == 'terminal_input':
                return LineV(interp)
            return Unk(f'impl.{attr}')
        return FnV(call)


class LineV(AbsObj):
    """A line typed by the user: split(',') yields 1..3 unknown fields
    (the count is a forked choice)."""

    def __init__(self, interp):
        self.interp = interp

    def getattr_(self, attr, interp):
        if attr == 'split':
            def split(a, k):
                n = 1 + interp.oracle.choose(3)
                return [Unk('text') for _ in range(n)]
            return FnV(split)
        return Unk(f'line.{attr}')


class DeviceV(AbsObj):
    def __init__(self, sim, cls_info, cpu):
        self.sim = sim
        self.ci = cls_info
        self.cpu = cpu
        self.attrs = {}

    def getattr_(self, attr, interp):
        if attr == 'cpu':
            return self.cpu
        if attr == 'impl':
            return ImplV(self.sim)
        if attr in self.attrs:
            return self.attrs[attr]
        m = self.sim.repo.find_method(self.ci, attr)
        if m is not None:
            return Closure(m.node, self.sim.module_env('qvm.machine'),
                           name=attr, bound=self)
        if attr == 'name':
            return const(self.ci.class_attrs.get('name'))
        if attr in ('id', 'cur_op'):
            return Unk(attr)
        return Unk(f'device.{attr}')

    def setattr_(self, attr, v, interp):
        self.attrs[attr] = v


class Outcome:
    def __init__(self, kind, cells=None, detail=None, popped=(), pushed=(),
                 io=()):
        self.kind = kind          # ok | trap | raise | unmodelled
        self.cells = cells
        self.detail = detail
        self.popped = list(popped)
        self.pushed = list(pushed)
        self.io = list(io)

    def __repr__(self):
        return f'<{self.kind} {self.detail} -> {self.cells}>'


class VmSim:
    def __init__(self, repo):
        self.repo = repo
        self.info = CellTypeInfo(repo)
        self.handlers, _, _ = R.cpu_handlers(repo)
        self.mangling = R.op_mangling(repo)
        self.instrs = R.instructions(repo)
        self.devices = R.devices(repo)
        self.devcls = R.device_classes(repo)
        self.cpu_cls = repo.cls('qvm.cpu', 'QvmCpu')
        self.io_events = []
        self._envs = {}
        self.types = {n: TypeV(n, self.info) for n in self.info.values}

    def T(self, name):
        return self.types[name]

    def cell(self, tname, value=UNK):
        return Cell(self.T(tname), value)

    def cpu_method(self, name):
        if name in self.handlers:
            return self.handlers[name]
        return self.repo.find_method(self.cpu_cls, name)

    # ---- module-level names ---------------------------------------------
    def module_env(self, modname):
        if modname in self._envs:
            return self._envs[modname]
        env = Env(None, globals_=modname)
        self._envs[modname] = env
        return env

    def global_name(self, modname, name, interp):
        if name == 'CellType':
            return EnumNS(lambda a: self.types.get(a) or Unk(f'CellType.{a}'))
        if name == 'TrapCode':
            return EnumNS(lambda a: TrapV(a))
        if name == 'CellValue':
            return FnV(lambda a, k: Cell(a[0] if a else Unk('t'),
                                         a[1] if len(a) > 1 else UNK))
        if name == 'Reference':
            return FnV(lambda a, k: RefV())
        if name in ('logger', 'logging'):
            return NullObj(None)
        if name in ('math', 'grammar', 'struct', 'os', 'itertools',
                    'ctypes'):
            return NullObj(UNK)
        if name in ('get_device_name_by_id',
                    'get_device_op_name_by_id', 'get_device_info_by_id',
                    'PrintUsingFormatter', 'Array', 'CallFrame',
                    'MemorySegment', 'datetime', 'Random'):
            return NullObj(UNK)
        if name == 'HaltReason':
            return EnumNS(lambda a: Unk(f'HaltReason.{a}'))
        if name == 'Device':
            return DeviceClassV()
        if name == 'Empty':
            return EnumNS(lambda a: Sentinel())
        if name == 'expr':
            return ExprModV()
        if name in ('ParseException', 'DeviceError', 'Trapped'):
            return name
        m = self.repo.modules.get(modname)
        if m is not None:
            f = m.functions.get(name)
            if f is not None and f.cls is None and f.parent is None:
                return Closure(f.node, self.module_env(modname), name=name)
            imp = m.imports.get(name)
            if imp and imp[0] == 'attr' and imp[1] in self.repo.modules:
                # a function imported from another repository module
                m2 = self.repo.modules[imp[1]]
                f = m2.functions.get(imp[2])
                if f is not None and f.cls is None and f.parent is None:
                    return Closure(f.node, self.module_env(imp[1]),
                                   name=imp[2])
        raise KeyError(name)

    def on_unknown_call(self, f, args, kwargs, node, interp):
        return Unk('call')

    # ---- running --------------------------------------------------------
    def _run(self, make_call, cells, max_paths=600):
        outcomes = []

        def run(oracle):
            cpu = CpuV(self, cells)
            self.io_events = []
            interp = Interp(self, oracle)
            interp.MAX_FOREVER = 1
            try:
                make_call(interp, cpu)
                return Outcome('ok', cpu.cells, None, cpu.popped,
                               cpu.pushed, self.io_events)
            except PathEnd as e:
                return Outcome('trap' if e.kind == 'trap' else e.kind,
                               cpu.cells, e.detail, cpu.popped, cpu.pushed,
                               self.io_events)
            except Raised as r:
                if r.cls_name == 'Trapped':
                    return Outcome('trap', cpu.cells, 'Trapped(raise)',
                                   cpu.popped, cpu.pushed, self.io_events)
                return Outcome('raise', cpu.cells,
                               (r.cls_name, str(r.value)[:80],
                                getattr(r.node, 'lineno', None)),
                               cpu.popped, cpu.pushed, self.io_events)
            except Unmodelled as u:
                return Outcome('unmodelled', cpu.cells, str(u), cpu.popped,
                               cpu.pushed, self.io_events)
            except (RecursionError, TypeError, AttributeError, KeyError,
                    IndexError, ValueError) as ex:
                return Outcome('unmodelled', cpu.cells,
                               f'interpreter: {ex!r}', cpu.popped,
                               cpu.pushed, self.io_events)
        try:
            res = explore(run, max_paths)
        except Unmodelled as u:
            return [Outcome('unmodelled', None, str(u))]
        return [r for _, r in res]

    def run_instruction(self, op, operands, cells):
        """Outcomes of executing instruction `op` on the abstract stack."""
        hname = R.mangle(op, self.mangling)
        h = self.handlers.get(hname)
        if h is None:
            return [Outcome('raise', list(cells),
                            ('AssertionError', f'no handler {hname}', None))]

        def call(interp, cpu):
            env = Env(self.module_env('qvm.cpu'))
            for k, v in (h.bindings or {}).items():
                env.set(k, self._bind(v))
            outer = getattr(h, 'outer', None)
            if outer is not None:
                # closure prologue of the factory (default_value, conv_func)
                for st in outer.body:
                    if isinstance(st, ast.FunctionDef):
                        continue
                    if isinstance(st, ast.Return):
                        continue
                    if isinstance(st, ast.Assign) and \
                            '__name__' in unparse(st.targets[0]):
                        continue
                    interp.exec_stmt(st, env)
            clo = Closure(h.node, env, name=hname)
            clo.call_([cpu] + list(operands), {}, interp)
        return self._run(call, cells)

    def _bind(self, v):
        from .registries import EnumVal
        if isinstance(v, EnumVal):
            return self.types.get(v.name_) or Unk(str(v))
        return v

    def run_device(self, dev, op, cells):
        ci = self.devcls.get(dev)
        if ci is None:
            return [Outcome('raise', list(cells),
                            ('KeyError', f'no device {dev}', None))]
        m = self.repo.find_method(ci, f'_exec_{op}')
        if m is None:
            return [Outcome('trap', list(cells), 'DEVICE_ERROR unknown op')]

        def call(interp, cpu):
            d = DeviceV(self, ci, cpu)
            init = ci.methods.get('__init__')
            if init is not None:
                # device-specific state (data_part = 0, last_rnd = None...)
                for st in init.node.body:
                    if isinstance(st, ast.Assign) and \
                            (dotted(st.targets[0]) or '').startswith(
                                'self.'):
                        d.attrs[dotted(st.targets[0]).split('.')[1]] = \
                            Unk('device state')
            d.attrs['cur_op'] = op
            clo = Closure(m.node, self.module_env('qvm.machine'),
                          name=m.qualname)
            clo.call_([d], {}, interp)
        return self._run(call, cells)


class DeviceClassV(AbsObj):
    def getattr_(self, attr, interp):
        if attr == 'Error':
            return EnumNS(lambda a: Unk(f'Device.Error.{a}'))
        return Unk(f'Device.{attr}')


class ExprModV(AbsObj):
    def getattr_(self, attr, interp):
        if attr == 'Type':
            return EnumNS(lambda a: ExprTypeV(a))
        return Unk(f'expr.{attr}')


class ExprTypeV(AbsObj):
    def __init__(self, name):
        self.name = name

    def getattr_(self, attr, interp):
        if attr == 'can_hold':
            return FnV(lambda a, k: Unk('can_hold'))
        return Unk(f'Type.{attr}')


# ---------------------------------------------------------------------------
# CpuV primitives: pop / push / trap are interpreted from the real source of
# QvmCpu.pop / push / trap, except for the parts that touch modelled state.
# To keep the model honest the three methods are summarised here and the
# summary is checked against their source by check_primitives().

def install_primitives(sim):
    """Replace pop/push/trap lookups by summaries."""
    orig = CpuV.getattr_

    def getattr_(self, attr, interp):
        if attr == 'pop':
            def pop(a, k):
                expected = a[0] if a else k.get('expected_type')
                if not self.cells:
                    raise PathEnd('trap', 'STACK_EMPTY')
                c = self.cells.pop()
                self.popped.append((c, expected))
                if expected is None:
                    return c
                if isinstance(c.type, TypeV) and isinstance(expected, TypeV):
                    if c.type.name != expected.name:
                        raise PathEnd('trap', f'TYPE_MISMATCH expected '
                                      f'{expected.name} got {c.type.name}')
                return c.value
            return FnV(pop)
        if attr == 'push':
            def push(a, k):
                t = a[0]
                v = a[1] if len(a) > 1 else UNK
                c = Cell(t, v)
                self.cells.append(c)
                self.pushed.append(c)
            return FnV(push)
        if attr == 'trap':
            def trap(a, k):
                if len(a) != 1:
                    raise Raised('TypeError',
                                 f'trap() takes 2 positional arguments but '
                                 f'{len(a) + 1} were given')
                code = a[0].name if isinstance(a[0], TrapV) else str(a[0])
                raise PathEnd('trap', code)
            return FnV(trap)
        return orig(self, attr, interp)
    CpuV.getattr_ = getattr_


def check_primitives(repo):
    """The summaries above restate QvmCpu.pop/push/trap; refuse to run if
    their shape changed."""
    from . import pat
    pop = repo.func('qvm.cpu', 'QvmCpu.pop')
    ok = pat.has('_V = self.stack.pop()', pop.node) and \
        pat.has('if _V.type != expected_type:\n'
                '    self.trap(TrapCode.TYPE_MISMATCH, ...)', pop.node) and \
        pat.has('try:\n    ...\nexcept IndexError:\n'
                '    self.trap(TrapCode.STACK_EMPTY)', pop.node)
    push = repo.func('qvm.cpu', 'QvmCpu.push')
    ok2 = pat.has('_B = CellValue(value_type, value)\n'
                  'self.stack.append(_B)', push.node) or \
        pat.has('self.stack.append(CellValue(value_type, value))',
                push.node)
    trap = repo.func('qvm.cpu', 'QvmCpu.trap')
    ok3 = pat.has('raise Trapped(trap_code=code, trap_kwargs=kwargs)',
                  trap.node)
    if not (ok and ok2 and ok3):
        raise AnalysisError('QvmCpu.pop/push/trap changed shape; the VM '
                            'simulator summarises them and must be '
                            'revisited')
