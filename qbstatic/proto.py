"""Light-weight linear protocol extraction: the sequence of values a code
generator pushes before an `io` instruction and the sequence a device
operation pops, with loops kept as nested items."""
import ast

from .astutil import dotted, const, unparse, fstring_pattern, canon

TYPE_OF_CHAR = {'%': 'INTEGER', '&': 'LONG', '!': 'SINGLE', '#': 'DOUBLE',
                '$': 'STRING'}


def emit_sequence(body, stop_at_io=True, fn=None):
    """Items: ('push', CellType name, operand text)
              ('expr', text of node expr, conv target or None)
              ('loop', iter text, [items])
              ('branch', test text, [items], [items])
              ('io', device, op)
              ('write', target text)  -- gen_lvalue_write
    """
    out = []
    pending_conv = {}

    def txt(e):
        return canon(e, fn) if fn is not None else unparse(e)

    def visit_stmt(st, out):
        if isinstance(st, ast.For):
            inner = []
            for s in st.body:
                visit_stmt(s, inner)
            if inner:
                out.append(('loop', txt(st.iter), inner))
            return
        if isinstance(st, ast.If):
            a, b = [], []
            for s in st.body:
                visit_stmt(s, a)
            for s in st.orelse:
                visit_stmt(s, b)
            if a or b:
                out.append(('branch', unparse(st.test), a, b))
            return
        for n in ast.walk(st):
            if not isinstance(n, ast.Call):
                continue
            d = dotted(n.func) or ''
            if d == 'code.add':
                for a in n.args:
                    if isinstance(a, ast.Tuple) and a.elts:
                        pat, holes = fstring_pattern(a.elts[0])
                        if pat is None:
                            out.append(('op?', unparse(a)))
                        elif pat == 'io':
                            out.append(('io', const(a.elts[1]),
                                        const(a.elts[2])))
                        elif pat.startswith('push') and len(pat) == 5 and \
                                pat[4] in TYPE_OF_CHAR:
                            out.append(('push', TYPE_OF_CHAR[pat[4]],
                                        txt(a.elts[1])
                                        if len(a.elts) > 1 else ''))
                        elif pat.startswith('pushm1') or \
                                pat.startswith('push'):
                            out.append(('push', TYPE_OF_CHAR.get(pat[-1],
                                                                 '?'),
                                        pat))
                        else:
                            out.append(('op', pat))
            elif d.endswith('gen_code_for_node'):
                out.append(('expr', txt(n.args[0]), None))
            elif d == 'gen_code_for_conv':
                # applies to the preceding expr
                tgt = unparse(n.args[0]).split('.')[-1]
                for i in range(len(out) - 1, -1, -1):
                    if out[i][0] == 'expr' and \
                            out[i][1] == txt(n.args[1]):
                        out[i] = ('expr', out[i][1], tgt)
                        break
            elif d == 'gen_lvalue_write':
                out.append(('write', txt(n.args[0])))
    for st in body:
        visit_stmt(st, out)
    return out


def pop_sequence(body, pop_names=('self.cpu.pop', 'self._get_arg_from_stack',
                                  'self.pop'), fn=None):
    """Items: ('pop', CellType name or None, assigned name)
              ('loop', iter text, [items])"""
    out = []

    def txt(e):
        return canon(e, fn) if fn is not None else unparse(e)

    def visit_stmt(st, out):
        if isinstance(st, (ast.FunctionDef,)):
            return
        if isinstance(st, (ast.For, ast.While)):
            inner = []
            for s in st.body:
                visit_stmt(s, inner)
            if inner:
                it = txt(st.iter) if isinstance(st, ast.For) \
                    else txt(st.test)
                out.append(('loop', it, inner))
            return
        if isinstance(st, ast.If):
            for s in st.body + st.orelse:
                visit_stmt(s, out)
            return
        for n in ast.walk(st):
            if isinstance(n, ast.Call) and dotted(n.func) in pop_names:
                t = None
                if n.args:
                    t = (dotted(n.args[0]) or '').split('.')[-1]
                out.append(('pop', t, ''))
    for st in body:
        visit_stmt(st, out)
    return out


def int_dispatch_var(fn_node):
    """Name most often compared with `== <int>` in if tests."""
    from collections import Counter
    c = Counter()
    for n in ast.walk(fn_node):
        if isinstance(n, ast.If) and isinstance(n.test, ast.Compare) and \
                isinstance(n.test.left, ast.Name) and \
                len(n.test.ops) == 1 and \
                isinstance(n.test.ops[0], ast.Eq) and \
                isinstance(const(n.test.comparators[0]), int) and \
                not isinstance(const(n.test.comparators[0]), bool):
            c[n.test.left.id] += 1
    return c.most_common(1)[0][0] if c else None


def _arm_ids(test, var):
    """Integer ids an `if` test selects for the dispatch variable:
    `var == k` or `var in (k1, k2, ...)`."""
    if isinstance(test, ast.Compare) and dotted(test.left) == var and \
            len(test.ops) == 1:
        cmp_ = test.comparators[0]
        if isinstance(test.ops[0], ast.Eq) and isinstance(const(cmp_), int):
            return [const(cmp_)]
        if isinstance(test.ops[0], ast.In) and \
                isinstance(cmp_, (ast.Tuple, ast.List, ast.Set)) and \
                cmp_.elts and all(isinstance(const(e), int)
                                  for e in cmp_.elts):
            return [const(e) for e in cmp_.elts]
    return []


def _cell_types(expr, k, var, body, depth=0):
    """CellType names `expr` can denote in the arm for id k (names are
    followed to their assignments in the arm; a conditional expression on
    the dispatch variable is decided for k)."""
    if isinstance(expr, ast.Attribute):
        d = dotted(expr)
        if d and d.startswith('CellType.'):
            return [d.split('.')[1]]
        return []
    if isinstance(expr, ast.IfExp):
        ids = _arm_ids(expr.test, var)
        if ids:
            return _cell_types(expr.body if k in ids else expr.orelse, k,
                               var, body, depth)
        return _cell_types(expr.body, k, var, body, depth) + \
            _cell_types(expr.orelse, k, var, body, depth)
    if isinstance(expr, ast.Name) and depth < 3:
        out = []
        for s in body:
            for a in ast.walk(s):
                if isinstance(a, ast.Assign) and any(
                        isinstance(t, ast.Name) and t.id == expr.id
                        for t in a.targets):
                    out += _cell_types(a.value, k, var, body, depth + 1)
        return out
    if isinstance(expr, (ast.Tuple, ast.List)):
        out = []
        for e in expr.elts:
            out += _cell_types(e, k, var, body, depth)
        return out
    return []


def type_id_arms(fn_node, var=None):
    """{int id: [CellType names pushed in that arm]} for `if var == k:` /
    `if var in (k1, k2):` ladders (var defaults to the integer dispatch
    variable)."""
    out = {}
    var = int_dispatch_var(fn_node) if var is None else var
    for n in ast.walk(fn_node):
        if not isinstance(n, ast.If):
            continue
        for k in _arm_ids(n.test, var):
            pushed = []
            for s in n.body:
                for c in ast.walk(s):
                    if isinstance(c, ast.Call) and (
                            (dotted(c.func) or '').endswith('.push') or
                            (dotted(c.func) or '').endswith('.append')):
                        # cpu.push(CellType.X, v) or a deferred
                        # results.append((CellType.X, v))
                        for a in c.args:
                            pushed += _cell_types(a, k, var, n.body)
            out[k] = pushed
    return out


def type_id_range_checks(fn_node, var=None):
    """{int id: [Type names whose can_hold() range test the arm applies]}."""
    out = {}
    var = int_dispatch_var(fn_node) if var is None else var
    for n in ast.walk(fn_node):
        if not isinstance(n, ast.If):
            continue
        for k in _arm_ids(n.test, var):
            used = []
            for s in n.body:
                for c in ast.walk(s):
                    if isinstance(c, ast.Call) and \
                            isinstance(c.func, ast.Attribute) and \
                            c.func.attr == 'can_hold':
                        d = dotted(c.func.value) or ''
                        if '.' in d and d.split('.')[-2] == 'Type':
                            used.append(d.split('.')[-1])
            out[k] = used
    return out
