"""The repository's hand-maintained registries, resolved from the registering
constructs (calls, decorators, class keywords, enum bodies, setattr loops)."""
import ast
import itertools
from dataclasses import dataclass, field

from .model import AnalysisError, FuncInfo, enum_members
from .astutil import dotted, const, decorators, unparse


# ---------------------------------------------------------------------------
# instruction table  (qvm/instrs.py def_instr calls)

@dataclass
class InstrDef:
    op: str
    code: int
    operands: list       # operand class names
    line: int


def instructions(repo):
    m = repo.module('qvm.instrs')
    out = {}
    for st in m.tree.body:
        if isinstance(st, ast.Expr) and isinstance(st.value, ast.Call) and \
                dotted(st.value.func) == 'def_instr':
            c = st.value
            if len(c.args) < 2:
                continue
            op = const(c.args[0])
            code = const(c.args[1])
            operands = []
            if len(c.args) > 2 and isinstance(c.args[2], (ast.List,
                                                          ast.Tuple)):
                operands = [dotted(e) for e in c.args[2].elts]
            out[op] = InstrDef(op, code, operands, st.lineno)
    return out


def operand_classes(repo):
    """Operand subclasses of qvm.instrs: name -> {size, enc_fmt, dec_fmt}."""
    m = repo.module('qvm.instrs')
    base = m.cls('Operand')
    out = {}
    for ci in m.classes.values():
        if ci is base or base not in repo.mro(ci):
            continue
        info = {'size': const(ci.class_attrs.get('size')),
                'py_type': dotted(ci.class_attrs.get('py_type'))
                if ci.class_attrs.get('py_type') is not None else None,
                'enc': [], 'dec': [], 'line': ci.line}
        for mname, key in (('_encode', 'enc'), ('_decode', 'dec')):
            f = ci.methods.get(mname)
            if f is None:
                continue
            for n in ast.walk(f.node):
                if isinstance(n, ast.Call) and dotted(n.func) in (
                        'struct.pack', 'struct.unpack'):
                    info[key].append(const(n.args[0]))
            if not info[key]:
                # UInt8 style: bytes([value]) / data[0]
                info[key].append('>B')
        out[ci.name] = info
    return out


# ---------------------------------------------------------------------------
# devices

def devices(repo):
    m = repo.module('qvm.cpu')
    v = m.assigns.get('QVM_DEVICES')
    if not isinstance(v, ast.Dict):
        raise AnalysisError('anchor vanished: QVM_DEVICES dict literal')
    out = {}
    for k, dv in zip(v.keys, v.values):
        name = const(k)
        info = {'id': None, 'ops': {}}
        if isinstance(dv, ast.Dict):
            for kk, vv in zip(dv.keys, dv.values):
                if const(kk) == 'id':
                    info['id'] = const(vv)
                elif const(kk) == 'ops' and isinstance(vv, ast.Dict):
                    for ok, ov in zip(vv.keys, vv.values):
                        info['ops'][const(ok)] = const(ov)
        out[name] = info
    return out


def device_classes(repo):
    """device name -> ClassInfo (subclasses of qvm.machine.Device with a
    `name = '...'` class attribute)."""
    m = repo.module('qvm.machine')
    base = m.cls('Device')
    out = {}
    for ci in m.classes.values():
        if ci is not base and base in repo.mro(ci):
            nm = const(ci.class_attrs.get('name'))
            if nm:
                out[nm] = ci
    return out


# ---------------------------------------------------------------------------
# enums

def enum(repo, modname, clsname):
    return enum_members(repo.cls(modname, clsname))


# ---------------------------------------------------------------------------
# node hierarchy

def split_camel(name):
    parts, cur = [], ''
    for c in name:
        if c.isupper() and cur:
            parts.append(cur)
            cur = ''
        cur += c
    if cur:
        parts.append(cur)
    return parts


_EXPECTED_NAME_FUNCS = {
    # function -> normalised body we re-implement; if the body changes the
    # analysis refuses to guess (ANALYSIS-ERROR).
    ('qbee.utils', 'split_camel'):
        "parts = []\ncur = ''\nfor c in name:\n    if c.isupper() and cur:\n"
        "        parts.append(cur)\n        cur = ''\n    cur += c\n"
        "if cur:\n    parts.append(cur)\nreturn parts",
    ('qbee.stmt', 'Stmt.node_name'):
        "if cls.__name__.endswith('Stmt'):\n    name = cls.__name__[:-4]\n"
        "    name_parts = split_camel(name)\n    name = ' '.join(name_parts)\n"
        "    return name.upper()\nraise NameError('Default Stmt.node_name() "
        "implementation only works if class name ends with \"Stmt\"')",
    ('qbee.stmt', 'Block.node_name'):
        "if cls.__name__.endswith('Block'):\n    name = cls.__name__[:-5]\n"
        "    name_parts = split_camel(name)\n    name = ' '.join(name_parts)\n"
        "    name += '_block'\n    return name.upper()\nraise NameError("
        "'Default Block.name() implementation only works if class name ends "
        "with \"Block\"')",
    ('qbee.expr', 'Expr.node_name'):
        "name = cls.__name__\nparts = split_camel(name)\n"
        "name = ' '.join(parts)\nreturn name.upper()",
}


def _alpha(body, params=()):
    """Alpha-normalised text of a statement list: every stored local name
    is renamed v0, v1, ... in order of first occurrence."""
    mod = ast.parse('\n'.join(ast.unparse(s) for s in body))
    stored = []
    for n in ast.walk(mod):
        if isinstance(n, ast.Name) and isinstance(n.ctx, ast.Store) and \
                n.id not in stored and n.id not in params:
            stored.append(n.id)
    order = []
    for n in ast.walk(mod):
        if isinstance(n, ast.Name) and n.id in stored and \
                n.id not in order:
            order.append(n.id)
    ren = {n: f'v{i}' for i, n in enumerate(order)}
    for n in ast.walk(mod):
        if isinstance(n, ast.Name) and n.id in ren:
            n.id = ren[n.id]
    return ast.unparse(mod)


def _body_text(fn):
    body = fn.body
    if body and isinstance(body[0], ast.Expr) and \
            isinstance(body[0].value, ast.Constant) and \
            isinstance(body[0].value.value, str):
        body = body[1:]
    return _alpha(body, {a.arg for a in fn.args.args})


def check_name_derivation(repo):
    for (mod, qn), expected in _EXPECTED_NAME_FUNCS.items():
        f = repo.func(mod, qn)
        got = _body_text(f.node)
        from .model import normalise_tree
        expected = _alpha(normalise_tree(ast.parse(expected),
                                         whole=True).body,
                          {a.arg for a in f.node.args.args})
        if got != expected:
            raise AnalysisError(
                f'{mod}.{qn} changed; the model re-implements its naming '
                f'rule and refuses to guess. got:\n{got}')


def node_classes(repo):
    """All subclasses of qbee.node.Node: ClassInfo list."""
    base = repo.cls('qbee.node', 'Node')
    return [c for c in repo.all_classes()
            if c is not base and base in repo.mro(c)]


def node_name(repo, ci):
    """Statically resolved node_name() of a node class, or None (abstract)."""
    for c in repo.mro(ci):
        f = c.methods.get('node_name')
        if f is None:
            continue
        body = [s for s in f.node.body
                if not (isinstance(s, ast.Expr) and
                        isinstance(s.value, ast.Constant))]
        if len(body) == 1 and isinstance(body[0], ast.Return) and \
                isinstance(body[0].value, ast.Constant):
            return body[0].value.value
        key = (c.module.name, f'{c.name}.node_name')
        if key == ('qbee.stmt', 'Stmt.node_name'):
            if ci.name.endswith('Stmt'):
                return ' '.join(split_camel(ci.name[:-4])).upper()
            return None
        if key == ('qbee.stmt', 'Block.node_name'):
            if ci.name.endswith('Block'):
                return (' '.join(split_camel(ci.name[:-5])) +
                        '_block').upper()
            return None
        if key == ('qbee.expr', 'Expr.node_name'):
            return ' '.join(split_camel(ci.name)).upper()
        if key == ('qbee.node', 'Node.node_name'):
            return None
        raise AnalysisError(
            f'cannot resolve node_name of {ci.name}: override in '
            f'{c.name} is not a constant')
    return None


def handler_name(nname):
    return nname.lower().replace(' ', '_')


def child_fields(repo, ci):
    """Static child_fields list, or None when it is a dynamic property."""
    for c in repo.mro(ci):
        if 'child_fields' in c.class_attrs:
            v = c.class_attrs['child_fields']
            if isinstance(v, (ast.List, ast.Tuple)):
                return [const(e) for e in v.elts]
            return None
        if 'child_fields' in c.methods:
            return None
    return None


# ---------------------------------------------------------------------------
# blocks

def block_classes(repo):
    """Block subclasses: ClassInfo -> (start class name, end class name)."""
    m = repo.module('qbee.stmt')
    out = {}
    for ci in m.classes.values():
        if 'start' in ci.keywords and 'end' in ci.keywords:
            out[ci.name] = (dotted(ci.keywords['start']),
                            dotted(ci.keywords['end']), ci)
    return out


# ---------------------------------------------------------------------------
# code generators

def generators(repo):
    """node class name (as written, e.g. 'stmt.IfBlock') -> FuncInfo."""
    m = repo.module('qbee.qvm_codegen')
    out = {}
    dup = []
    for f in m.functions.values():
        if f.cls is not None or f.parent is not None:
            continue
        for name, call in decorators(f.node):
            if name and name.endswith('.generator_for') and call and \
                    call.args:
                cname = dotted(call.args[0])
                short = cname.split('.')[-1]
                if short in out:
                    dup.append(short)
                out[short] = f
    return out, dup


# ---------------------------------------------------------------------------
# parse actions

def parse_actions(repo):
    """[(rule name, FuncInfo)] from @parse_action(rule) decorators."""
    m = repo.module('qbee.grammar')
    out = []
    for f in m.functions.values():
        if f.cls is not None or f.parent is not None:
            continue
        for name, call in decorators(f.node):
            if name == 'parse_action' and call and call.args:
                out.append((dotted(call.args[0]), f))
    return out


# ---------------------------------------------------------------------------
# pass handlers

def pass_handlers(repo):
    """[(pass class name, node handler name, 'pre'|'post', FuncInfo)]."""
    m = repo.module('qbee.compiler')
    base = m.cls('CompilePass')
    out = []
    for ci in m.classes.values():
        if ci is base or base not in repo.mro(ci):
            continue
        for name, f in ci.methods.items():
            if name.startswith('process_') and (
                    name.endswith('_pre') or name.endswith('_post')):
                if name == 'process_tree':
                    continue
                which = 'pre' if name.endswith('_pre') else 'post'
                nn = name[len('process_'):-(len(which) + 1)]
                out.append((ci.name, nn, which, f))
    return out


# ---------------------------------------------------------------------------
# CPU: mangling and handler families

def op_mangling(repo):
    """The .replace chain in QvmCpu.tick: [(from, to)]."""
    f = repo.func('qvm.cpu', 'QvmCpu.tick')
    out = []
    for n in ast.walk(f.node):
        if isinstance(n, ast.Assign) and isinstance(n.value, ast.Call) and \
                isinstance(n.value.func, ast.Attribute) and \
                n.value.func.attr == 'replace' and \
                len(n.value.args) == 2:
            a, b = const(n.value.args[0]), const(n.value.args[1])
            if isinstance(a, str) and isinstance(b, str):
                out.append((n.lineno, a, b))
    out.sort()
    if not out:
        raise AnalysisError('anchor vanished: op-name mangling in tick')
    return [(a, b) for _, a, b in out]


def mangle(op, mangling):
    for a, b in mangling:
        op = op.replace(a, b)
    return '_exec_' + op


class EnumVal:
    def __init__(self, cls, name):
        self.cls = cls
        self.name_ = name

    def __eq__(self, other):
        return isinstance(other, EnumVal) and \
            (self.cls, self.name_) == (other.cls, other.name_)

    def __hash__(self):
        return hash((self.cls, self.name_))

    def __repr__(self):
        return f'{self.cls}.{self.name_}'


class _Continue(Exception):
    pass


class MiniEval:
    """Evaluates the tiny subset of Python used by the setattr loops at the
    bottom of qvm/cpu.py (literal lists, enum members, f-strings, str/abs,
    itertools.product, conditional expressions)."""

    def __init__(self, repo, module):
        self.repo = repo
        self.module = module
        self.generated = []    # (attr name, FuncInfo w/ bindings)

    def ev(self, e, env):
        if isinstance(e, ast.Constant):
            return e.value
        if isinstance(e, ast.Name):
            if e.id in env:
                return env[e.id]
            raise AnalysisError(f'unroll: unknown name {e.id}')
        if isinstance(e, (ast.List, ast.Tuple)):
            return [self.ev(x, env) for x in e.elts]
        if isinstance(e, ast.Attribute):
            d = dotted(e)
            if d and d.count('.') == 1:
                base, attr = d.split('.')
                if base not in env:
                    r = self.repo.resolve_name(self.module, base)
                    if r and r[0] == 'class' and \
                            'Enum' in self.repo.base_names(r[1]):
                        return EnumVal(base, attr)
            v = self.ev(e.value, env)
            if isinstance(v, EnumVal):
                if e.attr == 'name':
                    return v.name_
                return ('attr', v, e.attr)
            raise AnalysisError(f'unroll: attribute {unparse(e)}')
        if isinstance(e, ast.BinOp) and isinstance(e.op, ast.Add):
            return self.ev(e.left, env) + self.ev(e.right, env)
        if isinstance(e, ast.UnaryOp) and isinstance(e.op, ast.USub):
            return -self.ev(e.operand, env)
        if isinstance(e, ast.JoinedStr):
            s = ''
            for v in e.values:
                if isinstance(v, ast.Constant):
                    s += str(v.value)
                else:
                    s += str(self.ev(v.value, env))
            return s
        if isinstance(e, ast.IfExp):
            return self.ev(e.body if self.ev(e.test, env) else e.orelse,
                           env)
        if isinstance(e, ast.Compare) and len(e.ops) == 1:
            a = self.ev(e.left, env)
            b = self.ev(e.comparators[0], env)
            op = e.ops[0]
            if isinstance(op, ast.Eq):
                return a == b
            if isinstance(op, ast.NotEq):
                return a != b
            if isinstance(op, ast.GtE):
                return a >= b
            if isinstance(op, ast.Gt):
                return a > b
            if isinstance(op, ast.LtE):
                return a <= b
            if isinstance(op, ast.Lt):
                return a < b
        if isinstance(e, ast.Call):
            fn = dotted(e.func)
            if fn == 'str':
                return str(self.ev(e.args[0], env))
            if fn == 'abs':
                return abs(self.ev(e.args[0], env))
            if fn == 'itertools.product':
                return list(itertools.product(
                    *[self.ev(a, env) for a in e.args]))
            if isinstance(e.func, ast.Attribute) and \
                    e.func.attr in ('lower', 'upper') and not e.args:
                v = self.ev(e.func.value, env)
                return getattr(v, e.func.attr)()
        raise AnalysisError(f'unroll: cannot evaluate {unparse(e)}')

    def run(self, body, env):
        for st in body:
            if isinstance(st, ast.Assign) and len(st.targets) == 1:
                t = st.targets[0]
                if isinstance(t, ast.Name):
                    env[t.id] = self.ev(st.value, env)
                    continue
            if isinstance(st, ast.FunctionDef):
                env[st.name] = ('def', st)
                continue
            if isinstance(st, ast.For):
                for v in self.ev(st.iter, env):
                    if isinstance(st.target, ast.Name):
                        env[st.target.id] = v
                    elif isinstance(st.target, ast.Tuple):
                        for t, x in zip(st.target.elts, v):
                            env[t.id] = x
                    try:
                        self.run(st.body, env)
                    except _Continue:
                        continue
                continue
            if isinstance(st, ast.If):
                if self.ev(st.test, env):
                    self.run(st.body, env)
                else:
                    self.run(st.orelse, env)
                continue
            if isinstance(st, ast.Continue):
                raise _Continue()
            if isinstance(st, ast.Expr) and isinstance(st.value, ast.Call) \
                    and dotted(st.value.func) == 'setattr':
                c = st.value
                target = dotted(c.args[0])
                attr = self.ev(c.args[1], env)
                factory = c.args[2]
                if not (isinstance(factory, ast.Call) and
                        isinstance(factory.func, ast.Name)):
                    raise AnalysisError('unroll: unexpected setattr value')
                d = env.get(factory.func.id)
                if not d or d[0] != 'def':
                    raise AnalysisError('unroll: factory not a local def')
                outer = d[1]
                params = [a.arg for a in outer.args.args]
                bind = {}
                for p, a in zip(params, factory.args):
                    bind[p] = self.ev(a, env)
                inner = None
                for s in outer.body:
                    if isinstance(s, ast.FunctionDef):
                        inner = s
                if inner is None:
                    raise AnalysisError('unroll: factory has no inner def')
                self.generated.append((target, attr, outer, inner, bind))
                continue
            raise AnalysisError(
                f'unroll: unsupported statement at line {st.lineno}')


def cpu_handlers(repo):
    """All _exec_* handlers of QvmCpu: name -> FuncInfo (families unrolled,
    with .bindings and .outer for closure prologue statements)."""
    m = repo.module('qvm.cpu')
    ci = m.cls('QvmCpu')
    out = {}
    for name, f in ci.methods.items():
        if name.startswith('_exec_'):
            out[name] = f
    n_direct = len(out)
    # module-level statements after the class that feed the setattr loops
    started = False
    tail = []
    for st in m.tree.body:
        if st is ci.node:
            started = True
            continue
        if started and isinstance(st, (ast.Assign, ast.For)):
            tail.append(st)
    me = MiniEval(repo, m)
    me.run(tail, {})
    n_gen = 0
    for target, attr, outer, inner, bind in me.generated:
        if target != 'QvmCpu':
            continue
        fi = FuncInfo(m, f'QvmCpu.{attr}', inner, cls=ci)
        fi.bindings = bind
        fi.outer = outer
        out[attr] = fi
        n_gen += 1
    return out, n_direct, n_gen
