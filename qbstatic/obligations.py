"""Type obligations induced by the code generators and their discharge by
the semantic passes (shared by C03 clause 4 and C05 clause 3).

An obligation arises where a generator requests a conversion of a child
expression to a numeric type (gen_code_for_conv / explicit conv f-string),
passes a child straight to an instruction or device operation that pops a
fixed type, or tests it with jz/not.  It is discharged when a pass handler
for the same node class tests `<child>.type` and raises CompileError."""
import ast

from . import registries as R
from .astutil import dotted, const, unparse, walk_shallow, fstring_pattern
from .model import AnalysisError

NUMERIC_TYPES = {'INTEGER', 'LONG', 'SINGLE', 'DOUBLE'}

# checks recognised in pass handlers
TYPE_TEST_ATTRS = ('is_numeric', 'is_coercible_to', 'is_builtin',
                   'is_array', 'is_integral')


def _aliases(fn_node):
    """local name -> source expr text for simple aliases and loop targets:
    `for cond, body in node.if_blocks` -> cond: node.if_blocks[*][0]"""
    out = {}
    for n in walk_shallow(fn_node):
        if isinstance(n, ast.For):
            it = unparse(n.iter)
            if it.startswith('enumerate('):
                it = it[len('enumerate('):-1]
                if isinstance(n.target, ast.Tuple) and \
                        len(n.target.elts) == 2 and \
                        isinstance(n.target.elts[1], ast.Name):
                    out[n.target.elts[1].id] = f'{it}[*]'
                continue
            if isinstance(n.target, ast.Name):
                out[n.target.id] = f'{it}[*]'
            elif isinstance(n.target, ast.Tuple):
                for i, e in enumerate(n.target.elts):
                    if isinstance(e, ast.Name):
                        out[e.id] = f'{it}[*][{i}]'
        elif isinstance(n, ast.Assign) and len(n.targets) == 1 and \
                isinstance(n.targets[0], ast.Name) and \
                isinstance(n.value, (ast.Attribute, ast.Subscript)):
            out[n.targets[0].id] = unparse(n.value)
    return out


def _expand(text, aliases, depth=0):
    if depth > 4:
        return text
    head = text.split('.')[0].split('[')[0]
    if head in aliases and head != 'node':
        return _expand(aliases[head] + text[len(head):], aliases, depth + 1)
    return text


def generator_obligations(repo):
    """[(generator FuncInfo, node class name, child expr text (expanded),
         requirement, lineno, how)]"""
    gens, _ = R.generators(repo)
    out = []
    for cname, g in sorted(gens.items()):
        al = _aliases(g.node)
        gen_exprs = []     # (lineno, expr text) of gen_code_for_node calls
        for n in walk_shallow(g.node):
            if not isinstance(n, ast.Call):
                continue
            d = dotted(n.func) or ''
            if d == 'gen_code_for_conv' and len(n.args) >= 2:
                tgt = unparse(n.args[0]).split('.')[-1]
                child = _expand(unparse(n.args[1]), al)
                req = 'numeric' if tgt in NUMERIC_TYPES else f'conv:{tgt}'
                if tgt not in NUMERIC_TYPES:
                    # conversion to a computed type (var_type, value_type,
                    # return_type): operand must be coercible to it
                    req = f'coercible:{unparse(n.args[0])}'
                out.append((g, cname, child, req, n.lineno,
                            f'gen_code_for_conv({unparse(n.args[0])}, ...)'))
            elif d.endswith('gen_code_for_node') and n.args:
                gen_exprs.append((n.lineno, _expand(unparse(n.args[0]), al)))
        # explicit conv f-strings: conv{X.type.type_char}%
        for n in walk_shallow(g.node):
            if isinstance(n, ast.Tuple) and n.elts and \
                    isinstance(n.elts[0], ast.JoinedStr):
                pat, holes = fstring_pattern(n.elts[0])
                if pat and pat.startswith('conv'):
                    for h in holes:
                        t = unparse(h)
                        if t.endswith('.type.type_char'):
                            child = _expand(t[:-len('.type.type_char')], al)
                            out.append((g, cname, child, 'numeric',
                                        n.lineno, f'explicit {pat}'))
                        elif t in al or True:
                            src = _expand(t, al)
                            if src.endswith('.type.type_char'):
                                child = src[:-len('.type.type_char')]
                                out.append((g, cname, child, 'numeric',
                                            n.lineno, f'explicit {pat}'))
    return out


def pass_checks(repo):
    """handler node name -> [(FuncInfo, test text, raised code)] for every
    `if <test>: raise CompileError(...)` in pass handlers (tests mentioning
    `.type`)."""
    out = {}
    for pcls, nn, which, f in R.pass_handlers(repo):
        for n in ast.walk(f.node):
            if isinstance(n, ast.If) and any(
                    isinstance(s, ast.Raise) for s in n.body):
                t = unparse(n.test)
                if '.type' in t or 'base_type' in t:
                    out.setdefault(nn, []).append((f, t, n.lineno))
    return out


# node classes whose obligations are checked by the handler of another node
# (the owner walks its children): class -> handler node names to search too
OWNER_HANDLERS = {
    'SimpleCaseClause': ['select_block'],
    'RangeCaseClause': ['select_block'],
    'CompareCaseClause': ['select_block'],
    # created only by Pass2.process_assignment_pre after its coercibility
    # test of the assignment it replaces
    'ReturnValueSetStmt': ['assignment'],
}
FIELD_RENAME = {
    # ReturnValueSetStmt(node.rvalue): value <- rvalue of the assignment
    ('ReturnValueSetStmt', 'value'): 'rvalue',
}


def builtin_arg_spec(repo):
    """name -> list of specs, each (nargs spec, [arg type texts])."""
    f = repo.func('qbee.compiler', 'Pass2.process_builtin_func_call_pre')
    tab = None
    for n in ast.walk(f.node):
        if isinstance(n, ast.Dict) and n.keys and all(
                isinstance(const(k), str) for k in n.keys) and \
                len(n.keys) > 10:
            tab = n
    if tab is None:
        raise AnalysisError('anchor vanished: arg_spec table')
    out = {}
    for k, v in zip(tab.keys, tab.values):
        specs = v.elts if isinstance(v, ast.List) else [v]
        out[const(k)] = [[unparse(e) for e in s.elts[1:]]
                         for s in specs if isinstance(s, ast.Tuple)]
    return out


def _builtin_arm_name(call_node):
    p = call_node
    while p is not None:
        if isinstance(p, ast.If) and isinstance(p.test, ast.Compare) and \
                dotted(p.test.left) == 'node.name':
            # is call_node in body (not in orelse)?
            if any(call_node is x for s in p.body for x in ast.walk(s)):
                return const(p.test.comparators[0])
        p = getattr(p, '_parent', None)
    return None


def discharge(repo, obligations):
    """Returns [(obligation, discharged_by or None)]."""
    checks = pass_checks(repo)
    spec = builtin_arg_spec(repo)
    name_of = {}
    for ci in R.node_classes(repo):
        nn = R.node_name(repo, ci)
        if nn:
            name_of[ci.name] = R.handler_name(nn)
    # helper-level discharges: obligations that arise in shared helpers are
    # checked in specific pass code
    results = []
    for ob in obligations:
        g, cname, child, req, line, how = ob
        hname = name_of.get(cname)
        found = None
        cands = list(checks.get(hname, []))
        for extra in OWNER_HANDLERS.get(cname, []):
            cands += checks.get(extra, [])
        field = child
        if cname == 'BuiltinFuncCall' and child.startswith('node.args['):
            # discharged by the arg_spec table of the arm's function name
            idx = int(child[len('node.args['):-1])
            call = [n for n in ast.walk(g.node) if isinstance(n, ast.Call)
                    and getattr(n, 'lineno', 0) == line]
            arm = _builtin_arm_name(call[0]) if call else None
            ok = False
            if arm in spec:
                for sp in spec[arm]:
                    if idx < len(sp):
                        t = sp[idx]
                        if t == "'numeric'" or any(
                                t.endswith('Type.' + x) or ('Type.' + x) in t
                                for x in NUMERIC_TYPES):
                            ok = True
            if ok:
                found = (repo.func('qbee.compiler',
                                   'Pass2.process_builtin_func_call_pre'),
                         f'arg_spec[{arm!r}][{idx}]', 0)
            results.append((ob, found))
            continue
        for (c_, f_), newf in FIELD_RENAME.items():
            if cname == c_ and field == f'node.{f_}':
                field = f'node.{newf}'
        # normalise `node.x` -> match on the field path after `node.`
        key = field[len('node.'):] if field.startswith('node.') else field
        key_base = key.split('[')[0]
        for f, t, ln in cands:
            tt = t.replace('node.', '')
            if key in tt or (key_base and key_base + '.type' in tt) or \
                    _loop_match(f, key_base, t):
                found = (f, t, ln)
                break
        results.append((ob, found))
    return results


def _loop_match(f, key_base, test):
    """`for idx in node.array_indices: if not idx.type.is_numeric` matches
    field array_indices."""
    al = _aliases(f.node)
    for name, src in al.items():
        if src.replace('node.', '').split('[')[0] == key_base and \
                (name + '.type') in test:
            return True
    return False
