"""Repository model: parsed modules, classes, functions, registries.

Nothing from the repository is imported; everything is read from the AST of
the files found under <root>/qbee and <root>/qvm on this run.
"""
import ast
import hashlib
import os
from dataclasses import dataclass, field
from pathlib import Path


class AnalysisError(Exception):
    """The analysis itself cannot proceed (anchor vanished, floor not met).

    Reported as ANALYSIS-ERROR / exit 2, never as a pass and never as a
    violation."""


def repo_root():
    return Path(os.environ.get('QBEE_REPO', '/repo'))


PACKAGES = ('qbee', 'qvm')


def _attr_chain(e):
    while isinstance(e, ast.Attribute):
        e = e.value
    return isinstance(e, ast.Name)


def _bound_names(fn):
    out = {a.arg for a in fn.args.args + fn.args.kwonlyargs +
           fn.args.posonlyargs}
    if fn.args.vararg:
        out.add(fn.args.vararg.arg)
    if fn.args.kwarg:
        out.add(fn.args.kwarg.arg)
    return out


def _const_rank(e):
    """How constant-like an operand of == is: 2 literal, 1 an enum-like
    attribute chain (TrapCode.X, Op.JZ, expr.Type.INTEGER: a chain with a
    capitalised component) or a tuple/list of such, 0 anything else."""
    if isinstance(e, ast.Constant):
        return 2
    if isinstance(e, ast.UnaryOp) and isinstance(e.operand, ast.Constant):
        return 2
    if isinstance(e, ast.Attribute):
        parts = []
        x = e
        while isinstance(x, ast.Attribute):
            parts.append(x.attr)
            x = x.value
        if isinstance(x, ast.Name):
            parts.append(x.id)
            if any(p[:1].isupper() for p in parts) and \
                    parts[-1] not in ('self', 'cls'):
                return 1
    return 0


def normalise_compares(tree):
    """Normalisation: `CONST == x` / `CONST != x` are rewritten to
    `x == CONST` / `x != CONST` (the operands of a single ==/!= are
    swapped when the left one is more constant-like than the right one), so
    that no rule depends on the orientation of an equality test.  Applied
    identically to every analysed tree and to every rule pattern."""
    for n in ast.walk(tree):
        if isinstance(n, ast.Compare) and len(n.ops) == 1 and \
                isinstance(n.ops[0], (ast.Eq, ast.NotEq)) and \
                _const_rank(n.left) > _const_rank(n.comparators[0]):
            n.left, n.comparators[0] = n.comparators[0], n.left
    return tree


def inline_single_use_temps(tree, whole=False):
    """Normalisation: `t = <call>` immediately followed by a statement
    that is the only user of `t` (one Load, `t` stored nowhere else in the
    function, the use not inside a nested function/loop/comprehension of
    that statement) is folded back into the use.  Evaluation order is
    unchanged when everything evaluated before the use in that statement is
    a plain name, attribute or constant; only those sites are folded."""
    def pure(e):
        return all(isinstance(x, (ast.Name, ast.Attribute, ast.Constant,
                                  ast.Load, ast.Store))
                   for x in ast.walk(e))

    fns = [n for n in ast.walk(tree)
           if isinstance(n, (ast.FunctionDef, ast.AsyncFunctionDef))]
    if whole:
        fns = [tree]
    for fn in fns:
        stores, loads = {}, {}
        for x in ast.walk(fn):
            if isinstance(x, ast.Name):
                d = stores if isinstance(x.ctx, (ast.Store, ast.Del)) \
                    else loads
                d[x.id] = d.get(x.id, 0) + 1
        params = _bound_names(fn) if not whole else set()
        for holder in list(ast.walk(fn)):
            for fld in ('body', 'orelse', 'finalbody'):
                body = getattr(holder, fld, None)
                if not (isinstance(body, list) and body and
                        isinstance(body[0], ast.stmt)):
                    continue
                i = 0
                while i + 1 < len(body):
                    st, nxt = body[i], body[i + 1]
                    ok = isinstance(st, ast.Assign) and \
                        len(st.targets) == 1 and \
                        isinstance(st.targets[0], ast.Name) and \
                        isinstance(st.value, ast.Call)
                    if ok:
                        t = st.targets[0].id
                        ok = stores.get(t) == 1 and loads.get(t) == 1 and \
                            t not in params
                    if ok and isinstance(nxt, (ast.Expr, ast.Assign,
                                               ast.Return)) and \
                            isinstance(getattr(nxt, 'value', None),
                                       ast.Call):
                        call = nxt.value
                        pos = None
                        if pure(call.func):
                            for k, a in enumerate(call.args):
                                if isinstance(a, ast.Name) and a.id == t:
                                    pos = k
                                    break
                                if not pure(a):
                                    break
                        if pos is not None:
                            call.args[pos] = st.value
                            del body[i]
                            continue
                    i += 1
    return tree


def normalise_if_not(tree):
    """Normalisation: a two-armed `if not c: A else: B` (no elif chain)
    becomes `if c: B else: A`, and `x if not c else y` becomes
    `y if c else x`, so that no rule depends on which arm is written
    first."""
    for n in ast.walk(tree):
        if isinstance(n, ast.If) and n.orelse and \
                isinstance(n.test, ast.UnaryOp) and \
                isinstance(n.test.op, ast.Not) and \
                not (len(n.orelse) == 1 and isinstance(n.orelse[0], ast.If)):
            n.test = n.test.operand
            n.body, n.orelse = n.orelse, n.body
        elif isinstance(n, ast.IfExp) and isinstance(n.test, ast.UnaryOp) \
                and isinstance(n.test.op, ast.Not):
            n.test = n.test.operand
            n.body, n.orelse = n.orelse, n.body
    return tree


def normalise_augassign(tree):
    """Normalisation: `x = x + e` / `x = x - e` / `x = x * e` (same plain
    name or attribute chain on both sides, e not a list display) becomes
    `x += e` etc., so that no rule depends on which of the two spellings a
    counter update uses."""
    class T(ast.NodeTransformer):
        def visit_Assign(self, node):
            self.generic_visit(node)
            v = node.value
            if len(node.targets) == 1 and isinstance(v, ast.BinOp) and \
                    isinstance(v.op, (ast.Add, ast.Sub, ast.Mult)) and \
                    isinstance(node.targets[0], (ast.Name, ast.Attribute)) \
                    and isinstance(v.left, (ast.Name, ast.Attribute)) and \
                    _strip(node.targets[0]) == _strip(v.left) and not any(
                        isinstance(x, (ast.List, ast.ListComp, ast.Dict,
                                       ast.Set))
                        for x in ast.walk(v.right)):
                return ast.copy_location(ast.AugAssign(
                    target=node.targets[0], op=v.op, value=v.right), node)
            return node

    def _strip(e):
        import re
        return re.sub(r'(Load|Store|Del)\(\)', '', ast.dump(e))
    T().visit(tree)
    ast.fix_missing_locations(tree)
    return tree


def normalise_tree(tree, whole=False, temps=True):
    """All normalisations, in the one order used everywhere (repository
    modules, rule patterns, frozen expectation texts).  Rule patterns are
    written in normal form as far as temporaries are concerned (temps=False:
    whether a temporary can be folded depends on the whole function, which a
    pattern does not show)."""
    if not whole:
        inline_aliases(tree)
    if temps:
        inline_single_use_temps(tree, whole=whole)
    normalise_compares(tree)
    normalise_if_not(tree)
    normalise_augassign(tree)
    return tree


def inline_aliases(tree):
    """Normalisation: inside every function, a local that is assigned
    exactly once from a pure name/attribute chain (`Operator =
    expr.Operator`, `frame = self.cpu.cur_frame`) is replaced by that chain
    at its uses.  Makes the rules independent of such alias names; applied
    identically to every tree that is analysed."""
    for fn in [n for n in ast.walk(tree)
               if isinstance(n, (ast.FunctionDef, ast.AsyncFunctionDef))]:
        stores = {}
        params = _bound_names(fn)

        def scan(node):
            for ch in ast.iter_child_nodes(node):
                if isinstance(ch, (ast.FunctionDef, ast.AsyncFunctionDef,
                                   ast.Lambda, ast.ClassDef)):
                    continue
                if isinstance(ch, ast.Name) and isinstance(
                        ch.ctx, (ast.Store, ast.Del)):
                    stores.setdefault(ch.id, []).append(ch)
                scan(ch)
        scan(fn)
        aliases = {}
        for st in ast.walk(fn):
            if isinstance(st, ast.Assign) and len(st.targets) == 1 and \
                    isinstance(st.targets[0], ast.Name) and \
                    isinstance(st.value, ast.Attribute) and \
                    _attr_chain(st.value):
                name = st.targets[0].id
                if name in params or len(stores.get(name, [])) != 1:
                    continue
                root = st.value
                while isinstance(root, ast.Attribute):
                    root = root.value
                if root.id == name:
                    continue
                # the root must not be a multiply-assigned local (loop
                # variables etc. are fine to mention textually)
                aliases[name] = st.value
        if not aliases:
            continue

        class T(ast.NodeTransformer):
            def visit_Name(self, node):
                if isinstance(node.ctx, ast.Load) and node.id in aliases:
                    new = ast.parse(ast.unparse(aliases[node.id]),
                                    mode='eval').body
                    for x in ast.walk(new):
                        ast.copy_location(x, node)
                    return new
                return node

            def _scoped(self, node):
                bound = _bound_names(node) if not isinstance(
                    node, ast.ClassDef) else set()
                for x in ast.walk(node):
                    if isinstance(x, ast.Name) and isinstance(
                            x.ctx, ast.Store):
                        bound.add(x.id)
                saved = dict(aliases)
                for b in bound:
                    aliases.pop(b, None)
                self.generic_visit(node)
                aliases.clear()
                aliases.update(saved)
                return node

            def visit_FunctionDef(self, node):
                if node is fn:
                    self.generic_visit(node)
                    return node
                return self._scoped(node)

            def visit_Lambda(self, node):
                return self._scoped(node)
        T().visit(fn)


@dataclass
class FuncInfo:
    module: 'Module'
    qualname: str           # 'QvmCpu.tick' or 'gen_if_block' or 'f.<locals>.g'
    node: ast.AST           # FunctionDef / Lambda
    cls: 'ClassInfo' = None
    parent: 'FuncInfo' = None
    bindings: dict = field(default_factory=dict)   # for unrolled families

    @property
    def name(self):
        return self.qualname.rsplit('.', 1)[-1]

    @property
    def file(self):
        return self.module.relpath

    @property
    def line(self):
        return getattr(self.node, 'lineno', 0)

    @property
    def key(self):
        return f'{self.module.relpath}:{self.qualname}'

    def __repr__(self):
        return f'<Func {self.key}>'

    def __hash__(self):
        return hash((self.module.name, self.qualname))

    def __eq__(self, other):
        return (isinstance(other, FuncInfo) and
                self.module.name == other.module.name and
                self.qualname == other.qualname)


@dataclass
class ClassInfo:
    module: 'Module'
    name: str
    node: ast.ClassDef
    base_exprs: list
    methods: dict = field(default_factory=dict)     # name -> FuncInfo
    class_attrs: dict = field(default_factory=dict)  # name -> ast value
    keywords: dict = field(default_factory=dict)    # class X(B, k=v)

    @property
    def file(self):
        return self.module.relpath

    @property
    def line(self):
        return self.node.lineno

    def __repr__(self):
        return f'<Class {self.module.name}.{self.name}>'

    def __hash__(self):
        return hash((self.module.name, self.name))

    def __eq__(self, other):
        return (isinstance(other, ClassInfo) and
                self.module.name == other.module.name and
                self.name == other.name)


class Module:
    def __init__(self, name, path, relpath, source):
        self.name = name
        self.path = path
        self.relpath = relpath
        self.source = source
        self.digest = hashlib.sha256(source.encode()).hexdigest()
        try:
            self.tree = ast.parse(source, filename=str(path))
        except SyntaxError as e:
            raise AnalysisError(f'cannot parse {relpath}: {e}')
        normalise_tree(self.tree)
        for node in ast.walk(self.tree):
            for child in ast.iter_child_nodes(node):
                child._parent = node
        self.tree._parent = None
        self.classes = {}
        self.functions = {}      # top-level and nested, by qualname
        self.imports = {}        # local name -> ('module', modname) |
                                 #               ('attr', modname, attr)
        self.assigns = {}        # top-level name -> value ast (last)
        self.forward_defs = {}   # pyparsing Forward: name <<= expr
        self._index()

    def _index(self):
        pkg = self.name.rsplit('.', 1)[0] if '.' in self.name else ''
        for st in self.tree.body:
            if isinstance(st, ast.Import):
                for a in st.names:
                    self.imports[a.asname or a.name.split('.')[0]] = \
                        ('module', a.name)
            elif isinstance(st, ast.ImportFrom):
                mod = st.module or ''
                if st.level:
                    base = self.name.split('.')
                    base = base[:len(base) - st.level]
                    mod = '.'.join(base + ([mod] if mod else []))
                for a in st.names:
                    self.imports[a.asname or a.name] = ('attr', mod, a.name)
            elif isinstance(st, ast.Assign):
                for t in st.targets:
                    if isinstance(t, ast.Name):
                        self.assigns[t.id] = st.value
            elif isinstance(st, ast.AnnAssign):
                if isinstance(st.target, ast.Name) and st.value is not None:
                    self.assigns[st.target.id] = st.value
            elif isinstance(st, ast.AugAssign) and \
                    isinstance(st.op, ast.LShift) and \
                    isinstance(st.target, ast.Name):
                self.forward_defs[st.target.id] = st.value
        self._index_body(self.tree.body, prefix='', cls=None, parent=None)

    def _index_body(self, body, prefix, cls, parent):
        for st in body:
            if isinstance(st, (ast.FunctionDef, ast.AsyncFunctionDef)):
                qn = prefix + st.name
                fi = FuncInfo(self, qn, st, cls=cls, parent=parent)
                # later definitions with the same name shadow earlier ones
                # (the repo has two parse_bload_stmt); keep both reachable
                if qn in self.functions:
                    k = 2
                    while f'{qn}#{k}' in self.functions:
                        k += 1
                    self.functions[f'{qn}#{k}'] = fi
                    fi.qualname = f'{qn}#{k}'
                else:
                    self.functions[qn] = fi
                if cls is not None and parent is None:
                    cls.methods[st.name] = fi
                self._index_nested(st, qn + '.', cls, fi)
            elif isinstance(st, ast.ClassDef):
                ci = ClassInfo(self, st.name, st, list(st.bases),
                               keywords={k.arg: k.value
                                         for k in st.keywords})
                self.classes[prefix + st.name] = ci
                for s in st.body:
                    if isinstance(s, ast.Assign):
                        for t in s.targets:
                            if isinstance(t, ast.Name):
                                ci.class_attrs[t.id] = s.value
                    elif isinstance(s, ast.AnnAssign) and \
                            isinstance(s.target, ast.Name):
                        ci.class_attrs[s.target.id] = s.value
                self._index_body(st.body, prefix + st.name + '.', ci, None)
            elif isinstance(st, (ast.If, ast.For, ast.While, ast.Try,
                                 ast.With)):
                # functions defined under module-level control flow
                inner = []
                for fld in ('body', 'orelse', 'finalbody'):
                    inner += getattr(st, fld, [])
                for h in getattr(st, 'handlers', []):
                    inner += h.body
                self._index_body(inner, prefix, cls, parent)

    def _index_nested(self, fn, prefix, cls, parent):
        for st in ast.walk(fn):
            if st is fn:
                continue
            if isinstance(st, (ast.FunctionDef, ast.AsyncFunctionDef)):
                # only direct nesting level names; qualify by chain
                chain = []
                p = st._parent
                while p is not fn:
                    if isinstance(p, (ast.FunctionDef,
                                      ast.AsyncFunctionDef)):
                        chain.append(p.name)
                    p = p._parent
                qn = (prefix + '.'.join(list(reversed(chain)) + [st.name]))
                fi = FuncInfo(self, qn, st, cls=cls, parent=parent)
                if qn not in self.functions:
                    self.functions[qn] = fi

    def rule_def(self, name):
        """Definition of a grammar rule: the `<<=` body of a Forward, else
        the assigned expression."""
        if name in self.forward_defs:
            return self.forward_defs[name]
        return self.assigns.get(name)

    def func(self, qualname):
        f = self.functions.get(qualname)
        if f is None:
            raise AnalysisError(
                f'anchor vanished: function {qualname} not found in '
                f'{self.relpath}')
        return f

    def cls(self, name):
        c = self.classes.get(name)
        if c is None:
            raise AnalysisError(
                f'anchor vanished: class {name} not found in {self.relpath}')
        return c

    def segment(self, node):
        return ast.get_source_segment(self.source, node) or ''


class Repo:
    def __init__(self, root=None):
        self.root = Path(root) if root else repo_root()
        self.modules = {}
        for pkg in PACKAGES:
            d = self.root / pkg
            if not d.is_dir():
                raise AnalysisError(f'package directory missing: {d}')
            for p in sorted(d.rglob('*.py')):
                rel = p.relative_to(self.root)
                name = '.'.join(rel.with_suffix('').parts)
                if name.endswith('.__init__'):
                    name = name[:-9]
                try:
                    src = p.read_text(encoding='utf-8')
                except Exception as e:
                    raise AnalysisError(f'cannot read {rel}: {e}')
                self.modules[name] = Module(name, p, str(rel), src)
        self._subclass_cache = {}

    # ---- lookup -------------------------------------------------------
    def module(self, name):
        m = self.modules.get(name)
        if m is None:
            raise AnalysisError(f'anchor vanished: module {name}')
        return m

    def func(self, modname, qualname):
        return self.module(modname).func(qualname)

    def cls(self, modname, name):
        return self.module(modname).cls(name)

    def digest(self):
        h = hashlib.sha256()
        for n in sorted(self.modules):
            h.update(n.encode())
            h.update(self.modules[n].digest.encode())
        return h.hexdigest()

    def all_functions(self):
        for m in self.modules.values():
            yield from m.functions.values()

    def all_classes(self):
        for m in self.modules.values():
            yield from m.classes.values()

    # ---- name resolution ---------------------------------------------
    def resolve_name(self, module, name, _depth=0):
        """Resolve a module-level name to ('class', ClassInfo) /
        ('func', FuncInfo) / ('module', Module) / ('value', ast, Module)
        / None."""
        if _depth > 8:
            return None
        if name in module.classes:
            return ('class', module.classes[name])
        if name in module.functions and \
                module.functions[name].cls is None and \
                module.functions[name].parent is None:
            return ('func', module.functions[name])
        if name in module.imports:
            imp = module.imports[name]
            if imp[0] == 'module':
                m = self.modules.get(imp[1])
                return ('module', m) if m else None
            _, modname, attr = imp
            full = f'{modname}.{attr}' if modname else attr
            if full in self.modules:
                return ('module', self.modules[full])
            m = self.modules.get(modname)
            if m is None:
                return None
            return self.resolve_name(m, attr, _depth + 1)
        if name in module.assigns:
            v = module.assigns[name]
            if isinstance(v, ast.Name):
                r = self.resolve_name(module, v.id, _depth + 1)
                if r:
                    return r
            elif isinstance(v, ast.Attribute):
                r = self.resolve_expr(module, v, _depth + 1)
                if r:
                    return r
            return ('value', v, module)
        return None

    def resolve_expr(self, module, expr, _depth=0):
        """Resolve Name / dotted Attribute at module scope."""
        if isinstance(expr, ast.Name):
            return self.resolve_name(module, expr.id, _depth)
        if isinstance(expr, ast.Attribute):
            base = self.resolve_expr(module, expr.value, _depth)
            if base is None:
                return None
            if base[0] == 'module':
                return self.resolve_name(base[1], expr.attr, _depth + 1)
            if base[0] == 'class':
                ci = base[1]
                m = self.find_method(ci, expr.attr)
                if m:
                    return ('func', m)
                if expr.attr in ci.class_attrs:
                    return ('classattr', ci, expr.attr)
                return ('classattr', ci, expr.attr)
        return None

    def bases(self, ci):
        out = []
        for b in ci.base_exprs:
            r = self.resolve_expr(ci.module, b)
            if r and r[0] == 'class':
                out.append(r[1])
        return out

    def mro(self, ci):
        seen, order = set(), []

        def walk(c):
            if c in seen:
                return
            seen.add(c)
            order.append(c)
            for b in self.bases(c):
                walk(b)
        walk(ci)
        return order

    def find_method(self, ci, name):
        for c in self.mro(ci):
            if name in c.methods:
                return c.methods[name]
        return None

    def is_subclass(self, ci, base):
        return base in self.mro(ci)

    def subclasses(self, base):
        return [c for c in self.all_classes()
                if c is not base and self.is_subclass(c, base)]

    def base_names(self, ci):
        """Names of all (transitive) bases, including unresolved ones."""
        out = set()
        for c in self.mro(ci):
            for b in c.base_exprs:
                if isinstance(b, ast.Name):
                    out.add(b.id)
                elif isinstance(b, ast.Attribute):
                    out.add(b.attr)
        return out


def enum_members(ci):
    """Members of an Enum class body: name -> constant value (or 'auto#k')."""
    out = {}
    k = 0
    for st in ci.node.body:
        if isinstance(st, ast.Assign) and len(st.targets) == 1 and \
                isinstance(st.targets[0], ast.Name):
            v = st.value
            k += 1
            if isinstance(v, ast.Constant):
                out[st.targets[0].id] = v.value
            elif isinstance(v, ast.Call) and \
                    getattr(v.func, 'id', None) == 'auto':
                out[st.targets[0].id] = f'auto#{k}'
            else:
                out[st.targets[0].id] = ast.dump(v)
    return out
