"""qbstatic -- repository-specific static analysis for elektito/qbee.

Every check parses the *current* sources under $QBEE_REPO (default /repo) and
never imports or executes repository code.
"""
