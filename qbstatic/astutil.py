import ast


def dotted(expr):
    """'self.cpu.trap' for Attribute/Name chains, else None."""
    parts = []
    while isinstance(expr, ast.Attribute):
        parts.append(expr.attr)
        expr = expr.value
    if isinstance(expr, ast.Name):
        parts.append(expr.id)
        return '.'.join(reversed(parts))
    return None


def unparse(node):
    try:
        return ast.unparse(node)
    except Exception:
        return ast.dump(node)


def walk_shallow(node, include_self=True):
    """Walk a function body without entering nested defs/lambdas/classes."""
    stack = [node]
    first = True
    while stack:
        n = stack.pop()
        nested = not first and isinstance(
            n, (ast.FunctionDef, ast.AsyncFunctionDef, ast.Lambda,
                ast.ClassDef))
        if include_self or not first:
            yield n
        first = False
        if nested:
            continue
        stack.extend(reversed(list(ast.iter_child_nodes(n))))


def calls(node, shallow=False):
    it = walk_shallow(node) if shallow else ast.walk(node)
    for n in it:
        if isinstance(n, ast.Call):
            yield n


def const(expr, default=None):
    if isinstance(expr, ast.Constant):
        return expr.value
    if isinstance(expr, ast.UnaryOp) and isinstance(expr.op, ast.USub) and \
            isinstance(expr.operand, ast.Constant):
        return -expr.operand.value
    return default


def kwarg(call, name):
    for k in call.keywords:
        if k.arg == name:
            return k.value
    return None


def dict_literal(expr):
    """[(key_ast, value_ast)] of a dict display, else None."""
    if isinstance(expr, ast.Dict):
        return list(zip(expr.keys, expr.values))
    return None


def find_dicts(node):
    for n in ast.walk(node):
        if isinstance(n, ast.Dict):
            yield n


def names_in(node):
    return {n.id for n in ast.walk(node) if isinstance(n, ast.Name)}


def enclosing_function(node):
    p = getattr(node, '_parent', None)
    while p is not None and not isinstance(
            p, (ast.FunctionDef, ast.AsyncFunctionDef, ast.Lambda)):
        p = getattr(p, '_parent', None)
    return p


def enclosing_stmt(node):
    p = node
    while p is not None and not isinstance(p, ast.stmt):
        p = getattr(p, '_parent', None)
    return p


def ancestors(node):
    p = getattr(node, '_parent', None)
    while p is not None:
        yield p
        p = getattr(p, '_parent', None)


def decorators(fn):
    """[(dotted func name, call node or None)] for a FunctionDef."""
    out = []
    for d in fn.decorator_list:
        if isinstance(d, ast.Call):
            out.append((dotted(d.func), d))
        else:
            out.append((dotted(d), None))
    return out


def fstring_pattern(expr, holes=None):
    """For a JoinedStr return (pattern, [hole exprs]) where each formatted
    value is rendered as '{}'; for a Constant str return (value, [])."""
    if isinstance(expr, ast.Constant) and isinstance(expr.value, str):
        return expr.value, []
    if isinstance(expr, ast.JoinedStr):
        pat = ''
        hs = []
        for v in expr.values:
            if isinstance(v, ast.Constant):
                pat += str(v.value)
            elif isinstance(v, ast.FormattedValue):
                pat += '{}'
                hs.append(v.value)
        return pat, hs
    return None, None


def local_defs(fn_node):
    """{local name: [(kind, ast)]} kind in assign|for|with|aug|other."""
    out = {}
    for n in walk_shallow(fn_node):
        if isinstance(n, ast.Assign):
            for t in n.targets:
                if isinstance(t, ast.Name):
                    out.setdefault(t.id, []).append(('assign', n.value))
                elif isinstance(t, (ast.Tuple, ast.List)):
                    for i, e in enumerate(t.elts):
                        if isinstance(e, ast.Name):
                            out.setdefault(e.id, []).append(
                                ('unpack', (n.value, i)))
        elif isinstance(n, ast.AugAssign) and isinstance(n.target, ast.Name):
            out.setdefault(n.target.id, []).append(('aug', n.value))
        elif isinstance(n, (ast.For, ast.comprehension)):
            t = n.target
            if isinstance(t, ast.Name):
                out.setdefault(t.id, []).append(('for', n.iter))
            elif isinstance(t, (ast.Tuple, ast.List)):
                for i, e in enumerate(t.elts):
                    if isinstance(e, ast.Name):
                        out.setdefault(e.id, []).append(('for', (n.iter, i)))
    return out


def canon(expr, fn_node, depth=3, _defs=None):
    """Text of expr with every function-local name replaced by the text of
    its (unique) definition in <<...>>, loop variables by <<for:iter>>, and
    multiply-defined locals by <<var>>.  Independent of local names."""
    defs = _defs if _defs is not None else local_defs(fn_node)
    params = set()
    if hasattr(fn_node, 'args'):
        params = {a.arg for a in fn_node.args.args}

    class T(ast.NodeTransformer):
        def visit_Name(self, node):
            if node.id in params or node.id not in defs or \
                    not isinstance(node.ctx, ast.Load):
                return node
            ds = defs[node.id]
            if len(ds) == 1 and depth > 0:
                kind, v = ds[0]
                if kind == 'assign':
                    return ast.Name(
                        id='<<' + canon(v, fn_node, depth - 1, defs) + '>>',
                        ctx=ast.Load())
                if kind == 'for':
                    it = v[0] if isinstance(v, tuple) else v
                    sfx = f'[{v[1]}]' if isinstance(v, tuple) else ''
                    return ast.Name(
                        id='<<for:' + canon(it, fn_node, depth - 1, defs)
                        + sfx + '>>', ctx=ast.Load())
                if kind == 'unpack':
                    return ast.Name(
                        id='<<' + canon(v[0], fn_node, depth - 1, defs) +
                        f'[{v[1]}]>>', ctx=ast.Load())
            return ast.Name(id='<<var>>', ctx=ast.Load())
    new = T().visit(ast.parse(unparse(expr), mode='eval').body
                    if isinstance(expr, ast.expr) else expr)
    return unparse(new)
