"""Array element addressing, decided in a polynomial domain.

The three sites that turn (indices, bounds, element size) into a cell address
-- QvmCpu._exec_arridx, QvmEval.read_array (debugger) and the two size
functions that reserve the storage (memlayout.get_type_size for static arrays,
Array.__init__ for dynamic ones) -- are interpreted by the abstract
interpreter with *polynomials over symbols* as values: B (address of the
array header), E (element size), L_k / U_k (bounds of dimension k), i_a (the
a-th index popped), K_d (iteration number of a loop over range(L_d, U_d+1)).
Nothing is executed and no numbers are tried: + - * on polynomials is exact,
a comparison that the polynomials do not decide forks, a loop whose trip
count is symbolic is summarised through its induction variables.

Decided, for ranks 1..3 (4 at the thorough tier):
  * the address arridx pushes is affine in every index, its strides form a
    mixed-radix chain (s_1 = E, s_{m+1} = s_m * N_m for some order of the
    dimensions, N = U - L + 1) -- which is exactly "distinct index tuples
    inside the bounds map to disjoint element slots" -- each index is
    paired with the bounds it was range-checked against, and the element
    (L_1..L_n) sits in the first cell after the header;
  * the storage reserved is at least header + E * prod(N) (coefficient-wise
    non-negativity after substituting E = 1 + e, U = L + m);
  * the debugger's reader visits, for iteration numbers K, exactly the address
    arridx computes for indices L + K (sibling agreement).
"""
import ast
import itertools

from .absint import (AbsObj, Unk, is_unk, Interp, Closure, Env, PathEnd,
                     Raised, Unmodelled, explore, BUILTINS, _Brk, _Cont)
from .model import AnalysisError


# --------------------------------------------------------------------------
# polynomials with integer coefficients
# --------------------------------------------------------------------------

class Poly(AbsObj):
    pytype_ = int
    TRACE = []          # undecided comparisons met on the current path

    def __init__(self, terms=None):
        self.t = {m: c for m, c in (terms or {}).items() if c != 0}

    # construction
    @staticmethod
    def const(c):
        return Poly({(): int(c)})

    @staticmethod
    def var(name):
        return Poly({((name, 1),): 1})

    @staticmethod
    def lift(x):
        if isinstance(x, Poly):
            return x
        if isinstance(x, bool):
            return None
        if isinstance(x, int):
            return Poly.const(x)
        return None

    # arithmetic
    def __add__(self, o):
        t = dict(self.t)
        for m, c in o.t.items():
            t[m] = t.get(m, 0) + c
        return Poly(t)

    def __neg__(self):
        return Poly({m: -c for m, c in self.t.items()})

    def __sub__(self, o):
        return self + (-o)

    def __mul__(self, o):
        t = {}
        for m1, c1 in self.t.items():
            for m2, c2 in o.t.items():
                d = dict(m1)
                for v, e in m2:
                    d[v] = d.get(v, 0) + e
                m = tuple(sorted(d.items()))
                t[m] = t.get(m, 0) + c1 * c2
        return Poly(t)

    def is_zero(self):
        return not self.t

    def as_const(self):
        if not self.t:
            return 0
        if set(self.t) == {()}:
            return self.t[()]
        return None

    def vars(self):
        return {v for m in self.t for v, _ in m}

    def subst(self, mapping):
        """mapping: var -> Poly"""
        out = Poly()
        for m, c in self.t.items():
            term = Poly.const(c)
            for v, e in m:
                base = mapping.get(v, None)
                if base is None:
                    base = Poly.var(v)
                for _ in range(e):
                    term = term * base
            out = out + term
        return out

    def coeff_of(self, var):
        """(coefficient polynomial of var^1, rest without var); None if the
        polynomial is not affine in var."""
        co, rest = {}, {}
        for m, c in self.t.items():
            d = dict(m)
            e = d.pop(var, 0)
            if e == 0:
                rest[m] = c
            elif e == 1:
                co[tuple(sorted(d.items()))] = c
            else:
                return None
        return Poly(co), Poly(rest)

    def __eq__(self, o):
        o = Poly.lift(o)
        return o is not None and self.t == o.t

    def __hash__(self):
        return hash(tuple(sorted(self.t.items())))

    def __repr__(self):
        if not self.t:
            return '0'
        parts = []
        for m, c in sorted(self.t.items(), key=lambda x: (len(x[0]), x[0])):
            ms = '*'.join(v if e == 1 else f'{v}^{e}' for v, e in m)
            if not ms:
                parts.append(f'{c:+d}')
            elif c == 1:
                parts.append('+' + ms)
            elif c == -1:
                parts.append('-' + ms)
            else:
                parts.append(f'{c:+d}*{ms}')
        s = ' '.join(parts)
        return s[1:] if s.startswith('+') else s

    # AbsObj protocol
    def binop_(self, op, other, reflected):
        o = Poly.lift(other)
        if o is None:
            return NotImplemented
        a, b = (o, self) if reflected else (self, o)
        if isinstance(op, ast.Add):
            return a + b
        if isinstance(op, ast.Sub):
            return a - b
        if isinstance(op, ast.Mult):
            return a * b
        raise Unmodelled(f'{type(op).__name__} on a symbolic quantity')

    def eq_(self, other):
        o = Poly.lift(other)
        if o is None:
            return False
        d = (self - o).as_const()
        if d is None:
            Poly.TRACE.append(('==', self, o))
            return Unk('poly-eq')
        return d == 0

    def cmp_(self, op, other, reflected):
        o = Poly.lift(other)
        if o is None:
            return Unk('cmp')
        a, b = (o, self) if reflected else (self, o)
        d = (a - b).as_const()
        name = {ast.Lt: '<', ast.LtE: '<=', ast.Gt: '>',
                ast.GtE: '>='}.get(type(op))
        if name is None:
            return Unk('cmp')
        if d is None:
            Poly.TRACE.append((name, a, b))
            return Unk('poly-cmp')
        return {'<': d < 0, '<=': d <= 0, '>': d > 0, '>=': d >= 0}[name]

    def truth_(self):
        c = self.as_const()
        return Unk('poly-truth') if c is None else bool(c)

    def getattr_(self, a, interp):
        if a == 'value':            # CellValue-like: idx.value
            return self
        raise Unmodelled(f'attribute {a} of a symbolic number')


def nonneg(p, ndims):
    """Sufficient test for p >= 0 whenever E >= 1 and U_k >= L_k."""
    m = {'E': Poly.const(1) + Poly.var('e')}
    for k in range(ndims):
        m[f'U{k}'] = Poly.var(f'L{k}') + Poly.var(f'm{k}')
    q = p.subst(m)
    return all(c >= 0 for c in q.t.values()) and \
        not any(v.startswith('L') for v in q.vars())


# --------------------------------------------------------------------------
# symbolic ranges: loops summarised through their induction variables
# --------------------------------------------------------------------------

class SymRange(AbsObj):
    COUNTER = itertools.count()
    REG = {}            # K symbol -> (lo, hi)

    def __init__(self, lo, hi):
        self.lo, self.hi = lo, hi

    def iter_(self, interp):
        raise Unmodelled('iteration over a symbolic range outside a for')

    def summarise_loop_(self, interp, st, env):
        body = st.body
        stored, aug = {}, {}

        def scan(n):
            for ch in ast.iter_child_nodes(n):
                if isinstance(ch, (ast.FunctionDef, ast.Lambda,
                                   ast.ClassDef)):
                    continue
                if isinstance(ch, ast.Name) and isinstance(ch.ctx,
                                                           ast.Store):
                    stored[ch.id] = stored.get(ch.id, 0) + 1
                scan(ch)
        for s in body:
            scan(ast.Module(body=[s], type_ignores=[]))
            if isinstance(s, ast.AugAssign) and \
                    isinstance(s.op, ast.Add) and \
                    isinstance(s.target, ast.Name):
                aug[s.target.id] = s
        if isinstance(st.target, ast.Name):
            stored.pop(st.target.id, None)
        ind = {}
        for name, s in aug.items():
            if stored.get(name) != 1:
                continue
            used = {n.id for n in ast.walk(s.value)
                    if isinstance(n, ast.Name)}
            if used & set(stored):
                continue
            inc = Poly.lift(interp.eval(s.value, env))
            old = Poly.lift(env.lookup(name))
            if inc is None or old is None:
                raise Unmodelled('non-numeric induction variable')
            ind[name] = (old, inc)
        for name in stored:
            if name in ind:
                continue
            try:
                env.lookup(name)
            except KeyError:
                continue
            raise Unmodelled(f'loop-carried variable {name} in a loop over '
                             f'a symbolic range')
        k = Poly.var(f'K{next(SymRange.COUNTER)}')
        SymRange.REG[next(iter(k.vars()))] = (self.lo, self.hi)
        for name, (old, inc) in ind.items():
            env.set(name, old + k * inc)
        interp.assign(st.target, self.lo + k, env)
        try:
            interp.exec_block(body, env)
        except (_Brk, _Cont):
            raise Unmodelled('break/continue in a loop over a symbolic '
                             'range')
        trip = self.hi - self.lo
        for name, (old, inc) in ind.items():
            env.set(name, old + trip * inc)
        interp.exec_block(st.orelse, env)


def _sym_range(*a):
    ps = [Poly.lift(x) for x in a]
    if any(p is None for p in ps):
        return BUILTINS['range'](*a)
    if all(p.as_const() is not None for p in ps):
        return list(range(*[p.as_const() for p in ps]))
    if len(ps) == 1:
        return SymRange(Poly.const(0), ps[0])
    if len(ps) == 2:
        return SymRange(ps[0], ps[1])
    raise Unmodelled('range with a symbolic step')


# --------------------------------------------------------------------------
# stubs
# --------------------------------------------------------------------------

class Fn(AbsObj):
    is_callable = True

    def __init__(self, fn):
        self.fn = fn

    def call_(self, args, kwargs, interp):
        return self.fn(*args, **kwargs)


class NS(AbsObj):
    """Enum-like namespace: attribute -> its own name."""

    def __init__(self, prefix):
        self.prefix = prefix

    def getattr_(self, a, interp):
        return f'{self.prefix}.{a}'


class CellStub(AbsObj):
    def __init__(self, value):
        self.value = value

    def getattr_(self, a, interp):
        if a == 'value':
            return self.value
        raise Unmodelled(f'cell.{a}')

    def eq_(self, other):
        return other is self

    def truth_(self):
        return True


class Header:
    """The array header as its writers lay it out (C04 header rule): cell
    1 = number of dimensions, 2 = element size, 3+2k / 4+2k = bounds of
    dimension k."""

    def __init__(self, ndims):
        self.ndims = ndims

    def field(self, off):
        if off == 1:
            return self.ndims
        if off == 2:
            return Poly.var('E')
        k, r = divmod(off - 3, 2)
        if off >= 3 and k < self.ndims:
            return Poly.var(f'{"LU"[r]}{k}')
        return None


class Segment(AbsObj):
    def __init__(self, header, base):
        self.header = header
        self.base = base
        self.data_reads = []

    def _get_cell(self, idx):
        p = Poly.lift(idx)
        if p is None:
            raise Unmodelled('get_cell of a non-numeric index')
        off = (p - self.base).as_const()
        if off is not None:
            v = self.header.field(off)
            if v is not None:
                return CellStub(v)
        self.data_reads.append(p)
        return CellStub(Unk('element'))

    def getattr_(self, a, interp):
        if a == 'get_cell':
            return Fn(self._get_cell)
        if a == 'get_cell_ref':
            return Fn(lambda idx: RefStub(self, Poly.lift(idx)))
        raise Unmodelled(f'segment.{a}')


class RefStub(AbsObj):
    def __init__(self, segment, index):
        self.segment, self.index = segment, index

    def getattr_(self, a, interp):
        if a == 'segment':
            return self.segment
        if a == 'index':
            return self.index
        raise Unmodelled(f'reference.{a}')


class Hooks:
    def __init__(self, repo, extra=None):
        self.repo = repo
        self.extra = extra or {}
        self._envs = {}

    def module_env(self, modname):
        if modname not in self._envs:
            self._envs[modname] = Env(None, globals_=modname)
        return self._envs[modname]

    def global_name(self, modname, name, interp):
        if name in self.extra:
            return self.extra[name]
        if name == 'range':
            return Fn(_sym_range)
        if name in ('CellType', 'TrapCode'):
            return NS(name)
        if name == 'CellValue':
            return Fn(lambda t, v: CellStub(v))
        if name in ('logger', 'logging'):
            class Null(AbsObj):
                def getattr_(self, a, interp):
                    return Fn(lambda *a, **k: None)
            return Null()
        m = self.repo.modules.get(modname)
        if m is not None:
            f = m.functions.get(name)
            if f is not None and f.cls is None and f.parent is None:
                return Closure(f.node, self.module_env(modname), name=name)
        raise KeyError(name)

    def on_unknown_call(self, f, args, kwargs, node, interp):
        raise Unmodelled('call of an unknown value')


def _paths(run, limit=4000):
    out = []
    for choices, r in explore(run, limit):
        out.append(r)
    return out


# --------------------------------------------------------------------------
# the three analyses
# --------------------------------------------------------------------------

def arridx_address(repo, n):
    """Interprets QvmCpu._exec_arridx for n indices.  Returns
    (address polynomial, pairing {index symbol: (lbound, ubound) polys})."""
    cls = repo.cls('qvm.cpu', 'QvmCpu')
    fn = repo.find_method(cls, '_exec_arridx')
    if fn is None:
        raise AnalysisError('QvmCpu._exec_arridx not found')
    hooks = Hooks(repo)
    results = []

    def run(oracle):
        del Poly.TRACE[:]
        interp = Interp(hooks, oracle)
        seg = Segment(Header(n), Poly.var('B'))
        ref = RefStub(seg, Poly.var('B'))
        pops = itertools.count()
        pushed = []

        class Cpu(AbsObj):
            def getattr_(self, a, interp):
                if a == 'pop':
                    def pop(t=None):
                        if t == 'CellType.REFERENCE':
                            return ref
                        if t == 'CellType.LONG':
                            return Poly.var(f'i{next(pops)}')
                        raise Unmodelled(f'pop({t})')
                    return Fn(pop)
                if a == 'push':
                    return Fn(lambda t, v: pushed.append((t, v)))
                if a == 'trap':
                    def trap(*a, **k):
                        raise PathEnd('trap', a[0] if a else None)
                    return Fn(trap)
                raise Unmodelled(f'cpu.{a}')
        clo = Closure(fn.node, hooks.module_env('qvm.cpu'),
                      name='_exec_arridx')
        try:
            clo.call_([Cpu(), n], {}, interp)
        except PathEnd as e:
            return ('trap', e.detail)
        except Raised as r:
            return ('raise', r.cls_name, str(r.value))
        return ('ok', pushed, list(Poly.TRACE))
    try:
        res = _paths(run)
    except Unmodelled as u:
        return {'unmodelled': str(u)}
    ok = [r for r in res if r[0] == 'ok']
    raises = [r for r in res if r[0] == 'raise']
    if raises:
        return {'raises': raises}
    if len(ok) != 1 or len(ok[0][1]) != 1:
        return {'unmodelled': f'{len(ok)} non-trapping paths'}
    (t, v), trace = ok[0][1][0], ok[0][2]
    if not isinstance(v, RefStub) or v.index is None:
        return {'unmodelled': 'arridx does not push a cell reference'}
    pairing = {}
    for op, a, b in trace:
        # the surviving path took the false branch of `i < lb or i > ub`
        for x, y, kind in ((a, b, op), (b, a, {'<': '>', '>': '<',
                                                 '<=': '>=', '>=': '<='}
                                       .get(op, op))):
            vs = x.vars()
            if len(vs) == 1 and next(iter(vs)).startswith('i') and \
                    x == Poly.var(next(iter(vs))):
                sym = next(iter(vs))
                slot = pairing.setdefault(sym, {})
                if kind in ('<', '<='):
                    slot['lb'] = y
                elif kind in ('>', '>='):
                    slot['ub'] = y
    return {'address': v.index, 'type': t, 'pairing': pairing,
            'traps': sorted({str(r[1]) for r in res if r[0] == 'trap'})}


def check_chain(addr, pairing, n):
    """Returns a list of problems (strings); empty when the address is a
    mixed-radix form over the paired bounds."""
    problems = []
    rest = addr
    strides = {}
    for a in range(n):
        sym = f'i{a}'
        r = rest.coeff_of(sym)
        if r is None:
            return [f'the address is not affine in index {sym}: {addr}']
        co, rest = r
        if any(v.startswith('i') for v in co.vars()):
            return [f'indices are multiplied together in the address: '
                    f'{addr}']
        strides[sym] = co
    for sym in strides:
        p = pairing.get(sym, {})
        if 'lb' not in p or 'ub' not in p:
            problems.append(f'index {sym} is not range-checked against a '
                            f'lower and an upper bound before use')
    if problems:
        return problems
    sizes = {sym: pairing[sym]['ub'] - pairing[sym]['lb'] + Poly.const(1)
             for sym in strides}
    cur = Poly.var('E')
    left = dict(strides)
    order = []
    while left:
        nxt = [s for s, co in left.items() if co == cur]
        if not nxt:
            problems.append(
                'strides do not form a mixed-radix chain: expected a '
                f'dimension with stride {cur} after {order or "none"}, '
                f'remaining strides ' +
                ', '.join(f'{s}: {co}' for s, co in sorted(left.items())))
            return problems
        s = nxt[0]
        order.append(s)
        cur = cur * sizes[s]
        del left[s]
    first = addr.subst({s: pairing[s]['lb'] for s in strides})
    expect = Poly.var('B') + Poly.const(3 + 2 * n)
    if first != expect:
        problems.append(f'the element at the lower bounds is at {first}, '
                        f'the first cell after the header is {expect}')
    return problems


def reserved_static(repo, n):
    """memlayout.get_type_size on a static array type of rank n."""
    m = repo.module('qvm.memlayout')
    f = m.functions.get('get_type_size')
    if f is None:
        raise AnalysisError('memlayout.get_type_size not found')
    hooks = Hooks(repo)

    class Dim(AbsObj):
        def __init__(self, k):
            self.k = k

        def getattr_(self, a, interp):
            if a == 'static_lbound':
                return Poly.var(f'L{self.k}')
            if a == 'static_ubound':
                return Poly.var(f'U{self.k}')
            raise Unmodelled(f'dim.{a}')

    class Base(AbsObj):
        pass

    class ArrT(AbsObj):
        def getattr_(self, a, interp):
            if a in ('is_array', 'is_static_array'):
                return True
            if a == 'array_base_type':
                return base
            if a == 'array_dims':
                return [Dim(k) for k in range(n)]
            raise Unmodelled(f'type.{a}')
    base = Base()
    real = Closure(f.node, hooks.module_env('qvm.memlayout'),
                   name='get_type_size')

    def gts(context, t):
        if t is base:
            return Poly.var('E')
        return real.call_([context, t], {}, interp_box[0])
    hooks.extra['get_type_size'] = Fn(gts)
    interp_box = [None]

    def run(oracle):
        interp = Interp(hooks, oracle)
        interp_box[0] = interp
        try:
            return ('ok', real.call_([Unk('context'), ArrT()], {}, interp))
        except Raised as r:
            return ('raise', r.cls_name, str(r.value))
    try:
        res = _paths(run)
    except Unmodelled as u:
        return {'unmodelled': str(u)}
    if len(res) != 1 or res[0][0] != 'ok' or Poly.lift(res[0][1]) is None:
        return {'unmodelled': f'get_type_size: {res[:2]}'}
    return {'size': Poly.lift(res[0][1])}


def reserved_dynamic(repo, n):
    """Array.__init__(element_size, bounds): the size passed to the segment
    constructor and the header cells written."""
    cls = repo.cls('qvm.cpu', 'Array')
    init = repo.find_method(cls, '__init__') if cls else None
    if init is None:
        raise AnalysisError('qvm.cpu.Array.__init__ not found')
    hooks = Hooks(repo)
    got = {}

    class Self(AbsObj):
        def __init__(self):
            self.attrs = {}

        def getattr_(self, a, interp):
            if a == 'set_cell':
                def sc(i, v):
                    got.setdefault('cells', {})[i] = v
                return Fn(sc)
            if a in self.attrs:
                return self.attrs[a]
            raise Unmodelled(f'self.{a}')

        def setattr_(self, a, v, interp):
            self.attrs[a] = v

    class Super(AbsObj):
        def getattr_(self, a, interp):
            if a == '__init__':
                def i(size):
                    got['size'] = size
                return Fn(i)
            raise Unmodelled(f'super().{a}')
    hooks.extra['super'] = Fn(lambda *a: Super())

    def run(oracle):
        got.clear()
        interp = Interp(hooks, oracle)
        bounds = [(Poly.var(f'L{k}'), Poly.var(f'U{k}')) for k in range(n)]
        clo = Closure(init.node, hooks.module_env('qvm.cpu'),
                      name='Array.__init__')
        try:
            clo.call_([Self(), Poly.var('E'), bounds], {}, interp)
        except Raised as r:
            return ('raise', r.cls_name, str(r.value))
        return ('ok', dict(got))
    try:
        res = _paths(run)
    except Unmodelled as u:
        return {'unmodelled': str(u)}
    if len(res) != 1 or res[0][0] != 'ok' or 'size' not in res[0][1]:
        return {'unmodelled': f'Array.__init__: {res[:2]}'}
    g = res[0][1]
    cells = {}
    for i, v in g.get('cells', {}).items():
        cells[i] = v.value if isinstance(v, CellStub) else v
    return {'size': Poly.lift(g['size']), 'cells': cells}


def reader_addresses(repo, n):
    """QvmEval.read_array: the element addresses it reads, as polynomials in
    the iteration numbers K of its loops."""
    cls = repo.cls('qvm.eval', 'QvmEval')
    fn = repo.find_method(cls, 'read_array') if cls else None
    if fn is None:
        raise AnalysisError('QvmEval.read_array not found')
    hooks = Hooks(repo)
    hooks.extra['QArray'] = Fn(lambda *a, **k: Unk('QArray'))

    class ElemT(AbsObj):
        def getattr_(self, a, interp):
            if a == 'is_user_defined':
                return False
            raise Unmodelled(f'element_type.{a}')

    class Self(AbsObj):
        def getattr_(self, a, interp):
            raise Unmodelled(f'self.{a}')

    def run(oracle):
        SymRange.REG.clear()
        SymRange.COUNTER = itertools.count()
        interp = Interp(hooks, oracle)
        seg = Segment(Header(n), Poly.var('B'))
        clo = Closure(fn.node, hooks.module_env('qvm.eval'),
                      name='read_array')
        try:
            clo.call_([Self(), seg, Poly.var('B'), ElemT()], {}, interp)
        except Raised as r:
            return ('raise', r.cls_name, str(r.value))
        return ('ok', list(seg.data_reads), dict(SymRange.REG))
    try:
        res = _paths(run)
    except Unmodelled as u:
        return {'unmodelled': str(u)}
    ok = [r for r in res if r[0] == 'ok']
    if len(ok) != 1:
        return {'unmodelled': f'read_array: {len(ok)} normal paths of '
                              f'{len(res)}'}
    return {'reads': ok[0][1], 'loops': ok[0][2]}


def accessor_conditions(repo, n):
    """QArray.at(i_0..i_{n-1}) on bounds [(L_k, U_k)]: the constraints
    under which it does not raise, and the nested-list position it reads."""
    cls = repo.cls('qvm.eval', 'QArray')
    fn = repo.find_method(cls, 'at') if cls else None
    if fn is None:
        raise AnalysisError('QArray.at not found')
    hooks = Hooks(repo)
    hooks.extra['EvalError'] = 'EvalError'
    class NotA(AbsObj):
        def instancecheck_(self, x):
            return False
    hooks.extra['QStruct'] = NotA()

    class Data(AbsObj):
        def __init__(self, path):
            self.path = path

        def getitem_(self, key, interp):
            p = Poly.lift(key)
            if p is None:
                raise Unmodelled('non-numeric subscript of array data')
            return Data(self.path + (p,))

        def getattr_(self, a, interp):
            if a == 'value':
                return self
            raise Unmodelled(f'element.{a}')

        def eq_(self, other):
            return other is self

    class Self(AbsObj):
        def getattr_(self, a, interp):
            if a == 'bounds':
                return [(Poly.var(f'L{k}'), Poly.var(f'U{k}'))
                        for k in range(n)]
            if a == 'array_data':
                return Data(())
            if a == 'default_value':
                return 0
            raise Unmodelled(f'QArray.{a}')

    def run(oracle):
        del Poly.TRACE[:]
        interp = Interp(hooks, oracle)
        clo = Closure(fn.node, hooks.module_env('qvm.eval'), name='at')
        try:
            v = clo.call_([Self()] + [Poly.var(f'i{a}') for a in range(n)],
                          {}, interp)
        except Raised as r:
            return ('raise', r.cls_name, list(Poly.TRACE))
        return ('ok', v, list(Poly.TRACE))
    try:
        res = _paths(run)
    except Unmodelled as u:
        return {'unmodelled': str(u)}
    ok = [r for r in res if r[0] == 'ok' and isinstance(r[1], Data)]
    other = sorted({r[1] for r in res if r[0] == 'raise'})
    if len(ok) != 1:
        return {'unmodelled': f'QArray.at: {len(ok)} element-returning '
                              f'paths of {len(res)}'}
    # every undecided comparison on the surviving path was false
    cons = set()
    for op, a, b in ok[0][2]:
        d = {'<': a - b, '<=': a - b - Poly.const(1),
             '>': b - a, '>=': b - a - Poly.const(1)}.get(op)
        if d is not None:
            cons.add(d)       # d >= 0 holds on the accepted path
    return {'accepted_when_nonneg': cons, 'position': ok[0][1].path,
            'raises': other}


def analyse(repo, max_rank=3):
    out = {}
    for n in range(1, max_rank + 1):
        a = arridx_address(repo, n)
        entry = {'arridx': a}
        if 'address' in a:
            entry['chain_problems'] = check_chain(a['address'],
                                                  a['pairing'], n)
        entry['static'] = reserved_static(repo, n)
        entry['dynamic'] = reserved_dynamic(repo, n)
        entry['reader'] = reader_addresses(repo, n)
        entry['accessor'] = accessor_conditions(repo, n)
        out[n] = entry
    return out


def prod_sizes(n):
    p = Poly.var('E')
    for k in range(n):
        p = p * (Poly.var(f'U{k}') - Poly.var(f'L{k}') + Poly.const(1))
    return p


def _line(repo, mod, cls, name):
    try:
        if cls:
            f = repo.find_method(repo.cls(mod, cls), name)
        else:
            f = repo.module(mod).functions.get(name)
        return f.line
    except Exception:
        return None


def check_cpu_side(ctx, pid, max_rank=3):
    """C04: addressing is injective and stays inside the reserved storage."""
    res = analyse(ctx.repo, max_rank)
    l_arr = _line(ctx.repo, 'qvm.cpu', 'QvmCpu', '_exec_arridx')
    l_sz = {'static': _line(ctx.repo, 'qvm.memlayout', None,
                            'get_type_size'),
            'dynamic': _line(ctx.repo, 'qvm.cpu', 'Array', '__init__')}
    r1 = f'{pid}.element-addressing-injective'
    ctx.rule(r1, 'the address _exec_arridx pushes is affine in every index, '
             'each index is range-checked against the bounds its offset is '
             'taken from, the strides form a mixed-radix chain over the '
             'dimension sizes (s = E, E*N_a, E*N_a*N_b, ...) and the element '
             'at the lower bounds is the first cell after the header '
             '(polynomial domain; ranks 1..%d)' % max_rank)
    r2 = f'{pid}.reserved-storage-covers-elements'
    ctx.rule(r2, 'the cells reserved for an array (get_type_size for static '
             'arrays, Array.__init__ for dynamic ones) are at least header + '
             'E * prod(N), and the header has 3 + 2*rank cells')
    for n, e in sorted(res.items()):
        a = e['arridx']
        key = f'qvm/cpu.py:QvmCpu._exec_arridx:rank{n}'
        if 'unmodelled' in a:
            ctx.observe(f'{key}: not modelled ({a["unmodelled"]}); '
                        f'undecided')
            ctx.instance(r1, key, nontrivial=False)
        elif 'raises' in a:
            ctx.instance(r1, key)
            ctx.finding(r1, key, f'_exec_arridx raises a host exception on '
                        f'a rank-{n} access: {a["raises"][:2]}',
                        'qvm/cpu.py', l_arr)
        else:
            ctx.instance(r1, key, sample={'address': repr(a['address'])})
            for p in e['chain_problems']:
                ctx.finding(r1, key, f'rank {n}: {p} (address pushed: '
                            f'{a["address"]})', 'qvm/cpu.py', l_arr,
                            facts={'address': repr(a['address'])})
        need = prod_sizes(n)
        hdr = Poly.const(3 + 2 * n)
        for side, fname, where in (
                ('static', 'qvm/memlayout.py', 'get_type_size'),
                ('dynamic', 'qvm/cpu.py', 'Array.__init__')):
            s = e[side]
            key = f'{fname}:{where}:rank{n}'
            if 'unmodelled' in s:
                ctx.observe(f'{key}: not modelled ({s["unmodelled"]}); '
                            f'undecided')
                ctx.instance(r2, key, nontrivial=False)
                continue
            ctx.instance(r2, key, sample={'size': repr(s['size'])})
            slack = s['size'] - hdr - need
            if not nonneg(slack, n):
                ctx.finding(r2, key, f'rank {n}: {where} reserves '
                            f'{s["size"]} cells, the elements need '
                            f'{hdr + need}: the difference {slack} is not '
                            f'provably non-negative', fname, l_sz[side])
            if side == 'dynamic':
                cells = s.get('cells', {})
                want = {1: n, 2: Poly.var('E')}
                for k in range(n):
                    want[3 + 2 * k] = Poly.var(f'L{k}')
                    want[4 + 2 * k] = Poly.var(f'U{k}')
                bad = {i: (cells.get(i), w) for i, w in want.items()
                       if Poly.lift(cells.get(i)) != Poly.lift(w)}
                if bad:
                    ctx.finding(r2, key + ':header', f'rank {n}: '
                                f'Array.__init__ writes header cells '
                                f'{ {i: str(v[0]) for i, v in bad.items()} }'
                                f' where the readers expect '
                                f'{ {i: str(v[1]) for i, v in bad.items()} }',
                                fname, l_sz[side])
    ctx.floor('array ranks analysed', len(res), 3)
    return res


def check_reader_side(ctx, pid, max_rank=3):
    """C13: the debugger's array reader visits the addresses arridx
    computes."""
    res = analyse(ctx.repo, max_rank)
    l_rd = _line(ctx.repo, 'qvm.eval', 'QvmEval', 'read_array')
    r = f'{pid}.array-reader-agrees-with-arridx'
    ctx.rule(r, 'QvmEval.read_array reads, in the iteration numbered '
             '(K_1..K_n) of its nested loops over range(L_d, U_d + 1), the '
             'cell _exec_arridx addresses for the indices (L_1 + K_1, ..., '
             'L_n + K_n), and each loop runs U_d - L_d + 1 times '
             '(polynomial domain, loops summarised through their induction '
             'variables; ranks 1..%d)' % max_rank)
    for n, e in sorted(res.items()):
        key = f'qvm/eval.py:QvmEval.read_array:rank{n}'
        rd, a = e['reader'], e['arridx']
        if 'unmodelled' in rd or 'address' not in a or \
                e.get('chain_problems'):
            why = rd.get('unmodelled') or a.get('unmodelled') or \
                'arridx side not in mixed-radix form (reported under C04)'
            ctx.observe(f'{key}: undecided ({why})')
            ctx.instance(r, key, nontrivial=False)
            continue
        ctx.instance(r, key, sample={'reads': [repr(x) for x in
                                               rd['reads']][:3]})
        loops = rd['loops']
        # dimension of each loop: its lower bound is L_d
        dim_of = {}
        for ksym, (lo, hi) in loops.items():
            d = [k for k in range(n) if lo == Poly.var(f'L{k}')]
            if len(d) != 1:
                ctx.finding(r, key, f'rank {n}: a loop of read_array starts '
                            f'at {lo}, which is not the lower bound of a '
                            f'dimension', 'qvm/eval.py', l_rd)
                continue
            dim_of[ksym] = d[0]
            trip = hi - lo
            want = Poly.var(f'U{d[0]}') - Poly.var(f'L{d[0]}') + \
                Poly.const(1)
            if trip != want:
                ctx.finding(r, key, f'rank {n}: the loop over dimension '
                            f'{d[0]} runs {trip} times, the dimension has '
                            f'{want} elements', 'qvm/eval.py', l_rd)
        if len(dim_of) != n or len(set(dim_of.values())) != n:
            ctx.finding(r, key, f'rank {n}: read_array has loops over '
                        f'dimensions {sorted(dim_of.values())}, expected '
                        f'one per dimension', 'qvm/eval.py', l_rd)
            continue
        # which popped index belongs to which dimension (by its bounds)
        idx_of_dim = {}
        for sym, p in a['pairing'].items():
            for k in range(n):
                if p.get('lb') == Poly.var(f'L{k}'):
                    idx_of_dim[k] = sym
        sub = {}
        for ksym, d in dim_of.items():
            sub[idx_of_dim[d]] = Poly.var(f'L{d}') + Poly.var(ksym)
        expect = a['address'].subst(sub)
        reads = [x for x in rd['reads']]
        if len(reads) != 1:
            ctx.finding(r, key, f'rank {n}: read_array reads {len(reads)} '
                        f'element addresses per innermost iteration '
                        f'({reads[:3]}), expected one', 'qvm/eval.py', l_rd)
            continue
        if reads[0] != expect:
            ctx.finding(r, key, f'rank {n}: read_array reads cell '
                        f'{reads[0]} where _exec_arridx addresses '
                        f'{expect} (K = iteration numbers of the loops over '
                        f'the dimensions)', 'qvm/eval.py', l_rd,
                        facts={'reader': repr(reads[0]),
                               'arridx': repr(expect)})
    return res


def check_accessor(ctx, pid, max_rank=3):
    """C13: `print a(i, j)` in the debugger accepts exactly the index tuples
    the machine accepts, and reads the element at offset (i - L) in every
    dimension of the nested list read_array built."""
    res = analyse(ctx.repo, max_rank)
    l_at = _line(ctx.repo, 'qvm.eval', 'QArray', 'at')
    r = f'{pid}.array-accessor-agrees-with-arridx'
    ctx.rule(r, 'QArray.at returns an element exactly when every index '
             'satisfies L_k <= i_k <= U_k (the condition under which '
             '_exec_arridx does not trap) and reads position i_k - L_k of '
             'dimension k (polynomial domain: the comparisons left undecided '
             'on the accepting path, normalised to `p >= 0`, are compared as '
             'polynomials; ranks 1..%d)' % max_rank)
    for n, e in sorted(res.items()):
        key = f'qvm/eval.py:QArray.at:rank{n}'
        a = e['accessor']
        if 'unmodelled' in a:
            ctx.observe(f'{key}: undecided ({a["unmodelled"]})')
            ctx.instance(r, key, nontrivial=False)
            continue
        ctx.instance(r, key, sample={'constraints': sorted(
            repr(c) for c in a['accepted_when_nonneg'])})
        # the machine's acceptance condition, from _exec_arridx's own range
        # tests (index symbols renamed by the dimension they were checked
        # against)
        want = set()
        mach = e['arridx'].get('pairing')
        if not mach or len(mach) != n:
            ctx.observe(f'{key}: undecided (arridx side not analysed)')
            continue
        for sym, p in mach.items():
            ks = [k for k in range(n) if p.get('lb') == Poly.var(f'L{k}')]
            if len(ks) != 1 or 'ub' not in p:
                want = None
                break
            i = Poly.var(f'i{ks[0]}')
            want.add(i - p['lb'])
            want.add(p['ub'] - i)
        if want is None:
            ctx.observe(f'{key}: undecided (arridx bounds pairing)')
            continue
        got = a['accepted_when_nonneg']
        if got != want:
            extra = sorted(repr(x) for x in got - want)
            missing = sorted(repr(x) for x in want - got)
            ctx.finding(r, key, f'rank {n}: QArray.at accepts an index '
                        f'tuple when {sorted(repr(x) for x in got)} are all '
                        f'>= 0; the machine accepts it when '
                        f'{sorted(repr(x) for x in want)} are (unexpected: '
                        f'{extra}, missing: {missing})', 'qvm/eval.py', l_at)
        pos = tuple(a['position'])
        wantpos = tuple(Poly.var(f'i{k}') - Poly.var(f'L{k}')
                        for k in range(n))
        if pos != wantpos:
            ctx.finding(r, key + ':position', f'rank {n}: QArray.at reads '
                        f'nested position {list(pos)}, the reader stored '
                        f'element (i_0..) at {list(wantpos)}',
                        'qvm/eval.py', l_at)
    return res


# --------------------------------------------------------------------------
# record layout: sizes and field offsets of nested records
# --------------------------------------------------------------------------

def check_record_layout(ctx, pid):
    """memlayout.get_type_size and get_dotted_index, interpreted on a
    three-level record (a record that contains a record that contains a
    record), must describe one layout: a field starts where the previous
    one ends, a nested field's offset is the sum along its path, and the
    record's size is where its last field ends.  The unit sizes are the
    repository's own (builtin types occupy one cell)."""
    repo = ctx.repo
    rule = f'{pid}.record-size-equals-the-sum-of-its-fields'
    ctx.rule(rule, 'for a record R {a: INTEGER, q: Q, z: LONG} with '
             'Q {x: SINGLE, s: S, y: SINGLE} and S {m, n: INTEGER}: '
             'get_type_size gives S=2, Q=4, R=6 cells, get_dotted_index gives '
             'each field the sum of the sizes of the fields before it along '
             'its path, and size(R) = offset(last field) + size(last field)')
    m = repo.module('qvm.memlayout')
    gts = m.functions.get('get_type_size')
    gdi = m.functions.get('get_dotted_index')
    if gts is None or gdi is None:
        raise AnalysisError('anchor vanished: memlayout size/index '
                            'functions')

    class TypeS(AbsObj):
        def __init__(self, name, user=None):
            self.name_, self.user = name, user

        def getattr_(self, a, interp):
            if a == 'name':
                return self.name_
            if a == 'is_array':
                return False
            if a in ('is_static_array', 'is_nodim_array'):
                return False
            if a == 'user_type_name':
                return self.user
            if a == 'is_user_defined':
                return self.user is not None
            if a == 'is_builtin':
                return self.user is None
            raise Unmodelled(f'type.{a}')

        def eq_(self, other):
            return isinstance(other, TypeS) and other.name_ == self.name_

    class Struct(AbsObj):
        def __init__(self, fields):
            self.fields = fields

        def getattr_(self, a, interp):
            if a == 'fields':
                return self.fields
            raise Unmodelled(f'struct.{a}')

        def instancecheck_(self, x):
            return True
    I, L, F = TypeS('integer'), TypeS('long'), TypeS('single')
    S = Struct({'m': I, 'n': I})
    Q = Struct({'x': F, 's': TypeS('s', 's'), 'y': F})
    Rr = Struct({'a': I, 'q': TypeS('q', 'q'), 'z': L})
    user_types = {'s': S, 'q': Q, 'r': Rr}

    class Ctx(AbsObj):
        def getattr_(self, a, interp):
            if a == 'user_types':
                return user_types
            raise Unmodelled(f'context.{a}')

    class TypeNS(AbsObj):
        def getattr_(self, a, interp):
            if a == 'builtin_types':
                return [TypeS(n) for n in ('integer', 'long', 'single',
                                           'double', 'string')]
            raise Unmodelled(f'Type.{a}')

    class AnyCls(AbsObj):
        def instancecheck_(self, x):
            return True
    hooks = Hooks(repo, extra={'Type': TypeNS(), 'TypeBlock': AnyCls()})

    def call(fn, args):
        def run(oracle):
            interp = Interp(hooks, oracle)
            try:
                return ('ok', Closure(fn.node,
                                      hooks.module_env('qvm.memlayout'),
                                      name=fn.name).call_(args, {}, interp))
            except Raised as r:
                return ('raise', r.cls_name, str(r.value)[:60])
        res = [r for _, r in explore(run, 20)]
        if len(res) != 1 or res[0][0] != 'ok' or \
                not isinstance(res[0][1], int):
            raise Unmodelled(f'{fn.name}: {res[:2]}')
        return res[0][1]
    f_file = m.relpath
    try:
        size = {n: call(gts, [Ctx(), TypeS(n, n)]) for n in ('s', 'q', 'r')}
        off = {p: call(gdi, [TypeS('r', 'r'), list(p), Ctx()])
               for p in (('a',), ('q',), ('z',), ('q', 'x'), ('q', 's'),
                         ('q', 'y'), ('q', 's', 'm'), ('q', 's', 'n'))}
    except Unmodelled as u:
        ctx.observe(f'{f_file}: record layout functions not modelled ({u}); '
                    f'undecided')
        ctx.instance(rule, f'{f_file}:record-layout', nontrivial=False)
        return
    want_size = {'s': 2, 'q': 4, 'r': 6}
    want_off = {('a',): 0, ('q',): 1, ('z',): 5, ('q', 'x'): 1,
                ('q', 's'): 2, ('q', 'y'): 4, ('q', 's', 'm'): 2,
                ('q', 's', 'n'): 3}
    ctx.instance(rule, f'{f_file}:get_type_size', sample={'sizes': size})
    ctx.instance(rule, f'{f_file}:get_dotted_index',
                 sample={'offsets': {'.'.join(k): v for k, v in off.items()}})
    if size != want_size:
        ctx.finding(rule, f'{f_file}:get_type_size',
                    f'get_type_size gives the nested records the sizes '
                    f'{size}; their fields need {want_size} cells: frames '
                    f'and the global area are declared too small and '
                    f'variables after a nested record overlap it',
                    f_file, gts.line)
    if off != want_off:
        bad = {'.'.join(k): (v, want_off[k]) for k, v in off.items()
               if v != want_off[k]}
        ctx.finding(rule, f'{f_file}:get_dotted_index',
                    f'get_dotted_index places fields at {bad} (got, '
                    f'expected): a field does not start where the fields '
                    f'before it end', f_file, gdi.line)
