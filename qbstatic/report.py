"""Findings, known-findings, evidence files, exit codes."""
import json
import os
import sys
import time
from pathlib import Path

from .model import AnalysisError

VERIF = Path(__file__).resolve().parent.parent
KNOWN = VERIF / 'known_findings.json'
EVIDENCE = VERIF / 'evidence'


def load_known():
    if not KNOWN.exists():
        return {'findings': [], 'fixed': []}
    return json.loads(KNOWN.read_text())


class Finding:
    def __init__(self, pid, rule, construct, message, file=None, line=None,
                 facts=None):
        self.pid = pid
        self.rule = rule
        self.construct = construct
        self.message = message
        self.file = file
        self.line = line
        self.facts = facts or {}

    @property
    def key(self):
        return f'{self.rule}:{self.construct}'

    def to_json(self):
        return {
            'property': self.pid, 'key': self.key, 'rule': self.rule,
            'construct': self.construct, 'message': self.message,
            'file': self.file, 'line': self.line, 'facts': self.facts,
        }

    def __str__(self):
        loc = f'{self.file}:{self.line}' if self.file else '?'
        return f'[{self.key}] {loc}: {self.message}'


class Ctx:
    """Per-check bookkeeping: rule instances, findings, observations."""

    def __init__(self, pid, tier, repo):
        self.pid = pid
        self.tier = tier
        self.repo = repo
        self.t0 = time.time()
        self.findings = []
        self.observations = []
        self.instances = 0            # rule instances examined
        self.nontrivial = set()       # distinct constructs w/ obligation
        self.samples = []
        self.rules = {}               # rule -> {'instances': n, 'text': ..}
        self.floors = []
        self.extra = {}
        self.assumptions = []
        self.clauses = []             # human description of decided clauses
        self.not_decided = []

    # -- recording ------------------------------------------------------
    def rule(self, rule, text):
        self.rules.setdefault(rule, {'instances': 0, 'text': text})

    def instance(self, rule, construct, nontrivial=True, sample=None):
        self.instances += 1
        r = self.rules.setdefault(rule, {'instances': 0, 'text': ''})
        r['instances'] += 1
        if nontrivial:
            self.nontrivial.add(f'{rule}:{construct}')
        if sample is not None and len(self.samples) < 40:
            per_rule = sum(1 for s in self.samples if s.get('rule') == rule)
            if per_rule < 4:
                s = {'rule': rule, 'construct': construct}
                if isinstance(sample, dict):
                    s.update(sample)
                else:
                    s['detail'] = sample
                self.samples.append(s)

    def finding(self, rule, construct, message, file=None, line=None,
                facts=None):
        f = Finding(self.pid, rule, construct, message, file, line, facts)
        # de-duplicate by key
        if not any(g.key == f.key for g in self.findings):
            self.findings.append(f)
        return f

    def observe(self, text):
        if text not in self.observations:
            self.observations.append(text)

    def floor(self, what, count, minimum):
        self.floors.append({'what': what, 'count': count,
                            'floor': minimum})
        if count < minimum:
            raise AnalysisError(
                f'floor not met: {what}: found {count}, confirmed by hand '
                f'on the pinned tree: {minimum}')

    # -- finishing ------------------------------------------------------
    def finish(self, explanation, verbose=True):
        known = load_known()
        known_keys = {k['key']: k for k in known.get('findings', [])
                      if k.get('property') == self.pid}
        violations = []
        known_hits = []
        for f in self.findings:
            if f.key in known_keys:
                known_hits.append(f)
            else:
                violations.append(f)
        out = []
        for f in known_hits:
            out.append(f'KNOWN-FINDING: property={self.pid} {f.key} -- '
                       f'{f.message}')
        evpath = os.environ.get('QB_EVIDENCE_DIR')
        evdir = Path(evpath) if evpath else EVIDENCE
        replay_dir = evdir / 'replay' / self.pid
        if violations:
            replay_dir.mkdir(parents=True, exist_ok=True)
        for n, f in enumerate(violations):
            p = replay_dir / f'{n}.json'
            p.write_text(json.dumps(f.to_json(), indent=1, default=str))
            out.append(f'VIOLATION property={self.pid} replay={p}')
            out.append(f'  {f}')
        stale = [k for k in known_keys
                 if not any(f.key == k for f in known_hits)]
        wall = time.time() - self.t0
        ev = {
            'property_id': self.pid,
            'tier': self.tier,
            'seed': int(os.environ.get('VERIF_SEED', '0') or 0),
            'level': 'other',
            'coverage': {
                'explanation': explanation,
                'evaluations': self.instances,
                'distinct_nontrivial': len(self.nontrivial),
                'rule': ('one evaluation = one rule instance (a rule '
                         'applied to one resolved construct of the current '
                         'source); non-trivial = the rule had a real '
                         'obligation to check on that construct; distinct '
                         'by rule:construct key'),
                'samples': self.samples or [{'note': 'no instances'}],
                'rules': self.rules,
                'clauses_decided': self.clauses,
                'not_decided': self.not_decided,
                'floors': self.floors,
                'observations': self.observations,
                'known_findings_rederived': [f.key for f in known_hits],
                'known_findings_not_rederived': stale,
                'violations': [f.to_json() for f in violations],
                'repo_digest': self.repo.digest(),
                'repo_root': str(self.repo.root),
                'exhaustive': True,
                **self.extra,
            },
            'assumptions': self.assumptions,
            'wall_s': round(wall, 3),
            'violations': len(violations),
        }
        evdir.mkdir(parents=True, exist_ok=True)
        (evdir / f'{self.pid}.json').write_text(
            json.dumps(ev, indent=1, default=str))
        if verbose:
            print(f'{self.pid} [{self.tier}] rules={len(self.rules)} '
                  f'instances={self.instances} '
                  f'nontrivial={len(self.nontrivial)} '
                  f'findings={len(self.findings)} '
                  f'(known={len(known_hits)} new={len(violations)}) '
                  f'wall={wall:.2f}s')
            for o in self.observations:
                print(f'  note: {o}')
        for line in out:
            print(line)
        if stale and verbose:
            for k in stale:
                print(f'  note: known finding not re-derived on this tree: '
                      f'{k}')
        sys.stdout.flush()
        return 1 if violations else 0
