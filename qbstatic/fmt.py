"""Binary-format facts: per-opcode operand encodings in the three codecs and
section framing formats."""
import ast

from .astutil import dotted, const, unparse, walk_shallow
from .model import AnalysisError


class _Unknown(Exception):
    pass


def dispatch_subject(body):
    """The expression an if/elif chain dispatches on: the most frequent
    (subscript-stripped) left operand of the comparisons in the tests of
    the top-level if/elif chains of the body."""
    from collections import Counter
    c = Counter()

    def tests(st):
        yield st.test
        for s in st.orelse:
            if isinstance(s, ast.If) and len(st.orelse) == 1:
                yield from tests(s)
    for st in body:
        if not isinstance(st, ast.If):
            continue
        for t in tests(st):
            for n in ast.walk(t):
                if isinstance(n, ast.Compare) and len(n.ops) == 1 and \
                        isinstance(n.ops[0], (ast.Eq, ast.In)):
                    left = n.left
                    while isinstance(left, ast.Subscript):
                        left = left.value
                    if isinstance(left, (ast.Name, ast.Attribute)):
                        c[unparse(left)] += 1
    return c.most_common(1)[0][0] if c else 'op'


def _ev(e, env):
    if isinstance(e, ast.Constant):
        return e.value
    subj = env.get('__subject__')
    if subj is not None and isinstance(e, (ast.Name, ast.Attribute)) and \
            unparse(e) == subj:
        return env['op']
    if isinstance(e, ast.Name):
        if e.id in env:
            return env[e.id]
        raise _Unknown(e.id)
    if isinstance(e, (ast.Tuple, ast.List)):
        return [_ev(x, env) for x in e.elts]
    if isinstance(e, ast.Subscript):
        v = _ev(e.value, env)
        s = e.slice
        if isinstance(s, ast.Slice):
            lo = _ev(s.lower, env) if s.lower else None
            hi = _ev(s.upper, env) if s.upper else None
            return v[lo:hi]
        return v[_ev(s, env)]
    if isinstance(e, ast.UnaryOp) and isinstance(e.op, ast.USub):
        return -_ev(e.operand, env)
    if isinstance(e, ast.UnaryOp) and isinstance(e.op, ast.Not):
        return not _ev(e.operand, env)
    if isinstance(e, ast.BoolOp):
        if isinstance(e.op, ast.And):
            r = True
            for v in e.values:
                r = _ev(v, env)
                if not r:
                    return r
            return r
        r = False
        for v in e.values:
            r = _ev(v, env)
            if r:
                return r
        return r
    if isinstance(e, ast.Compare) and len(e.ops) == 1:
        l = _ev(e.left, env)
        r = _ev(e.comparators[0], env)
        op = e.ops[0]
        if isinstance(op, ast.Eq):
            return l == r
        if isinstance(op, ast.NotEq):
            return l != r
        if isinstance(op, ast.In):
            return l in r
        if isinstance(op, ast.NotIn):
            return l not in r
    if isinstance(e, ast.Call) and isinstance(e.func, ast.Attribute) and \
            e.func.attr in ('startswith', 'endswith', 'islower') :
        v = _ev(e.func.value, env)
        args = [_ev(a, env) for a in e.args]
        return getattr(v, e.func.attr)(*args)
    raise _Unknown(unparse(e))


def _struct_formats(node, kinds=('struct.pack', 'struct.unpack')):
    out = []
    for n in ast.walk(node):
        if isinstance(n, ast.Call) and dotted(n.func) in kinds and n.args:
            f = const(n.args[0])
            if isinstance(f, str):
                out.append((n.lineno, f))
    return out


class ChainWalk:
    """Walks an if/elif dispatch on `op` for one concrete op string and
    records what the taken path does."""

    def __init__(self, op, helpers=None, subject=None):
        self.op = op
        self.subject = subject
        self.env = {'op': op, '__subject__': subject}
        self.formats = []        # struct formats on the path (ordered)
        self.alt_formats = []    # formats under undecidable tests
        self.arm = None          # text of the first true test
        self.else_arm = False
        self.stmts = []          # statements executed on the path
        self.helpers = helpers or {}

    def walk(self, body):
        for st in body:
            self.stmts.append(st)
            if isinstance(st, ast.If):
                try:
                    t = _ev(st.test, self.env)
                except (_Unknown, Exception):
                    # undecidable: collect both sides
                    sub = ChainWalk(self.op, self.helpers, self.subject)
                    sub.env = dict(self.env)
                    sub.walk(st.body)
                    sub2 = ChainWalk(self.op, self.helpers, self.subject)
                    sub2.env = dict(self.env)
                    sub2.walk(st.orelse)
                    self.alt_formats.append((unparse(st.test),
                                             sub.formats, sub2.formats))
                    self.stmts += sub.stmts + sub2.stmts
                    continue
                if t:
                    if self.arm is None and (self.subject or 'op') in \
                            unparse(st.test):
                        self.arm = unparse(st.test)
                    self.walk(st.body)
                else:
                    if st.orelse and not (
                            len(st.orelse) == 1 and
                            isinstance(st.orelse[0], ast.If)):
                        if self.arm is None and (self.subject or 'op') in \
                                unparse(st.test):
                            self.else_arm = True
                    self.walk(st.orelse)
                continue
            if isinstance(st, ast.Assign) and len(st.targets) == 1 and \
                    isinstance(st.targets[0], ast.Name):
                try:
                    self.env[st.targets[0].id] = _ev(st.value, self.env)
                except (_Unknown, Exception):
                    self.env.pop(st.targets[0].id, None)
            # helper call with type char: bconv(value, type_char)
            for n in ast.walk(st):
                if isinstance(n, ast.Call) and isinstance(n.func, ast.Name) \
                        and n.func.id in self.helpers:
                    h = self.helpers[n.func.id]
                    try:
                        args = [_ev(a, self.env) if i else None
                                for i, a in enumerate(n.args)]
                    except (_Unknown, Exception):
                        args = None
                    if args and len(args) > 1:
                        self.formats += h(args[1])
            if not isinstance(st, (ast.If, ast.For, ast.While)):
                self.formats += [f for _, f in _struct_formats(st)]


def bconv_helper(fn_node):
    """For the local `bconv(value, type_char)` of QvmCode.assembled (the
    nested function holding a {type char: lambda: struct.pack} table):
    returns (name, function type_char -> [format])."""
    target = None
    for n in ast.walk(fn_node):
        if isinstance(n, ast.FunctionDef) and n is not fn_node and any(
                isinstance(d, ast.Dict) and d.keys and all(
                    isinstance(const(k), str) and len(const(k)) == 1
                    for k in d.keys) and _struct_formats(d)
                for d in ast.walk(n)):
            target = n
    if target is None:
        return None
    tab = {}
    for n in ast.walk(target):
        if isinstance(n, ast.Dict) and n.keys and all(
                isinstance(const(k), str) for k in n.keys):
            for k, v in zip(n.keys, n.values):
                fs = [f for _, f in _struct_formats(v)]
                if fs:
                    tab[const(k)] = fs
    if not tab:
        return None
    return target.name, (lambda tc: list(tab.get(tc, ['?missing'])))


def strip(fmt):
    return fmt.lstrip('><=!@')


def width(fmt):
    import struct
    return struct.calcsize('>' + strip(fmt))
