"""Scenarios (abstract nodes per generator) and the checks run on the
instruction sequences the generators emit for them."""
import itertools

from . import registries as R
from . import vmsim
from .absint import Unk, UNK, is_unk
from .gensim import (GenSim, ANode, AType, ARoutine, AVar, DataObj,
                     BUILTIN_TYPES, NUM, TYPE_CHAR, CHAR_TYPE)

PSEUDO = ('_dbg_info_start', '_dbg_info_end', '_empty_block')
# statement-class nodes whose generators leave an INTEGER condition value
CONDITION_STMTS = ('CaseStmt', 'CaseElseStmt', 'SimpleCaseClause',
                   'CompareCaseClause', 'RangeCaseClause')
TY = BUILTIN_TYPES


class Scenario:
    def __init__(self, cls, label, node, routine=None, blocks=None,
                 cfg=None, admit=None, expect=None, entry=(),
                 routines=None):
        self.routines = routines or {}
        self.cls = cls
        self.label = label
        self.node = node
        self.routine = routine
        self.blocks = blocks
        self.cfg = cfg or {}
        self.admit = admit          # (cls, node) to run pass handlers on
        self.expect = expect        # expected net effect override
        self.entry = list(entry)    # entry stack (type names)
        self.expect_target = None   # label the single jump must go to
        self.must_admit = False     # the passes must accept the node
        self.must_reject = False    # the passes must reject the node
        self.pass_blocks = None     # Pass1._cur_blocks around the node
        self.admission_only = False  # do not run the generator


def _opt(*vals):
    return list(vals)


def scenarios(sim, cls):
    """Yield Scenario objects for generator class `cls`."""
    E = sim.expr
    S = sim.stmt
    L = sim.lvalue

    def body(n):
        return [S() for _ in range(n)]
    out = []

    def add(label, node, **kw):
        out.append(Scenario(cls, label, node, **kw))

    if cls == 'StringLiteral':
        add('lit', ANode(sim, cls, value='abc'))
    elif cls == 'NumericLiteral':
        for t in NUM:
            add(t, ANode(sim, cls, _type=AType(t), value=1))
    elif cls == 'ParenthesizedExpr':
        for t in TY:
            add(t, ANode(sim, cls, child=E(t)))
    elif cls in ('BinaryOp',):
        ops = sim.enum('qbee.expr', 'Operator')
        for m in ops.members:
            if m in ('NEG', 'PLUS', 'NOT'):
                continue
            for lt, rt in itertools.product(TY, TY):
                add(f'{m}:{lt},{rt}',
                    ANode(sim, cls, op=ops.member(m), left=E(lt),
                          right=E(rt)))
            # no operator takes a whole record: the passes must reject the
            # node (the generators have no conversion for a record)
            for side in ('left', 'right', 'both'):
                for other in ('INTEGER', 'DOUBLE'):
                    def rec():
                        r = L('INTEGER')
                        r.fields['type'] = AType('USER', user='rec')
                        r.fields['base_type'] = AType('USER', user='rec')
                        return r
                    lf = rec() if side in ('left', 'both') else E(other)
                    rg = rec() if side in ('right', 'both') else E(other)
                    sc = Scenario(cls, f'{m}:record on the {side},{other}',
                                  ANode(sim, cls, op=ops.member(m),
                                        left=lf, right=rg))
                    sc.must_reject = True
                    sc.admission_only = True
                    out.append(sc)
    elif cls == 'UnaryOp':
        ops = sim.enum('qbee.expr', 'Operator')
        for m in ('NEG', 'PLUS', 'NOT'):
            for t in TY:
                add(f'{m}:{t}', ANode(sim, cls, op=ops.member(m), arg=E(t)))
    elif cls == 'BuiltinFuncCall':
        names = _builtin_names(sim)
        for name in names:
            for nargs in range(0, 4):
                for types in itertools.product(TY, repeat=nargs):
                    args = []
                    for i, t in enumerate(types):
                        if name in ('lbound', 'ubound') and i == 0:
                            for ref in (False, True):
                                pass
                            args.append(L(t, base_array=True))
                        else:
                            args.append(E(t))
                    add(f'{name}({",".join(types)})',
                        ANode(sim, cls, name=name, args=args))
                    if name in ('lbound', 'ubound') and nargs >= 1:
                        a2 = list(args)
                        a2[0] = L(types[0], base_array=True,
                                  base_is_ref=True, is_global=True)
                        add(f'{name}(ref {",".join(types)})',
                            ANode(sim, cls, name=name, args=a2))
    elif cls == 'FuncCall':
        for ptypes in ([], ['INTEGER'], ['STRING', 'DOUBLE']):
            for rt in TY:
                r = ARoutine('f', 'function',
                             [(f'p{i}', AType(t))
                              for i, t in enumerate(ptypes)],
                             return_type=AType(rt))
                for kinds in itertools.product(('expr', 'lvalue'),
                                               repeat=len(ptypes)):
                    for ats in itertools.product(TY, repeat=len(ptypes)):
                        args = [E(t) if k == 'expr' else L(t)
                                for k, t in zip(kinds, ats)]
                        add(f'f({",".join(a + ":" + k for a, k in zip(ats, kinds))})->{rt}',
                            ANode(sim, cls, name='f', _type=AType(rt),
                                  args=args), routines={'f': r})
    elif cls == 'Lvalue':
        for t in TY:
            for glob in (False, True):
                add(f'{t} plain g={glob}', L(t, is_global=glob))
                add(f'{t} field g={glob}', L(t, dotted=['b'],
                                             is_global=glob),
                    cfg={'dotted_idx': 2})
                add(f'{t} field0', L(t, dotted=['a'], is_global=glob),
                    cfg={'dotted_idx': 0})
                add(f'{t} param g={glob}', L(t, base_is_ref=True,
                                             is_global=glob))
                for it in NUM:
                    add(f'{t} elem[{it}] g={glob}',
                        L(t, indices=[E(it)], base_array=True,
                          is_global=glob))
                add(f'{t} elem2.field', L(t, indices=[E('LONG'),
                                                      E('SINGLE')],
                                          dotted=['c'], base_array=True,
                                          is_global=glob),
                    cfg={'dotted_idx': 40000})
            add(f'{t} const', L(t, is_const=True))
    elif cls == 'ArrayPass':
        for glob in (False, True):
            r = ARoutine('_main', 'toplevel', {}, is_global=glob,
                         var_types={'a': AType('INTEGER', is_array=True)})
            add(f'g={glob}', ANode(sim, cls, identifier='a',
                                   type=AType('INTEGER', is_array=True)),
                routine=r)
    elif cls in ('Label',):
        add('label', ANode(sim, cls, name='x', canonical_name='x'))
    elif cls == 'LineNo':
        add('lineno', ANode(sim, cls, number=10,
                            canonical_name='_lineno_10'))
    elif cls == 'AssignmentStmt':
        for lt, rt in itertools.product(TY, TY):
            for shape in ('plain', 'elem', 'field', 'param'):
                kw = {'plain': {}, 'elem': dict(indices=[E('INTEGER')],
                                                base_array=True),
                      'field': dict(dotted=['b']),
                      'param': dict(base_is_ref=True)}[shape]
                add(f'{lt}={rt} {shape}',
                    ANode(sim, cls, lvalue=L(lt, **kw), rvalue=E(rt)),
                    cfg={'dotted_idx': 2})
    elif cls in ('BeepStmt', 'ClsStmt', 'ConstStmt', 'DeclareStmt',
                 'DefTypeStmt', 'DataStmt', 'TypeBlock', 'EndStmt',
                 'ExitSubStmt', 'CaseElseStmt'):
        add('plain', ANode(sim, cls))
    elif cls == 'BloadStmt':
        for a, b in itertools.product(TY, TY):
            add(f'{a},{b}', ANode(sim, cls, filespec=E(a), offset=E(b)))
    elif cls == 'BsaveStmt':
        for a, b, c in itertools.product(TY, TY, TY):
            add(f'{a},{b},{c}', ANode(sim, cls, filespec=E(a), offset=E(b),
                                      length=E(c)))
    elif cls == 'CallStmt':
        for ptypes in ([], ['INTEGER'], ['STRING', 'DOUBLE']):
            r = ARoutine('s', 'sub', [(f'p{i}', AType(t))
                                      for i, t in enumerate(ptypes)])
            for kinds in itertools.product(('expr', 'lvalue'),
                                           repeat=len(ptypes)):
                for ats in itertools.product(TY, repeat=len(ptypes)):
                    args = [E(t) if k == 'expr' else L(t)
                            for k, t in zip(kinds, ats)]
                    add(f's({",".join(a + ":" + k for a, k in zip(ats, kinds))})',
                        ANode(sim, cls, name='s', args=args),
                        routines={'s': r})
        # whole arrays go by reference: the element types must be equal
        for at, pt in itertools.product(TY, TY):
            r = ARoutine('s', 'sub', [('p0', AType(pt, is_array=True,
                                                    nodim=True))])
            ap = ANode(sim, 'ArrayPass', identifier='a',
                       type=AType(at, is_array=True))
            sc = Scenario(cls, f's({at}() -> {pt}())',
                          ANode(sim, cls, name='s', args=[ap]),
                          routines={'s': r})
            if at == pt:
                sc.must_admit = True
            else:
                sc.must_reject = True
            out.append(sc)
        # records: a single record and an array of the same TYPE are
        # different types
        rec = lambda arr=False: AType('USER', is_array=arr, user='rec',
                                      nodim=arr)
        for ptype_arr, arg_arr in itertools.product((False, True),
                                                    repeat=2):
            r = ARoutine('s', 'sub', [('p0', rec(ptype_arr))])
            if arg_arr:
                arg = ANode(sim, 'ArrayPass', identifier='a',
                            type=AType('USER', is_array=True, user='rec'))
            else:
                arg = L('INTEGER')
                arg.fields['type'] = AType('USER', user='rec')
                arg.fields['base_type'] = AType('USER', user='rec')
            sc = Scenario(cls, f's(rec{"()" if arg_arr else ""} -> '
                               f'rec{"()" if ptype_arr else ""})',
                          ANode(sim, cls, name='s', args=[arg]),
                          routines={'s': r})
            if ptype_arr == arg_arr:
                sc.must_admit = True
            else:
                sc.must_reject = True
            sc.admission_only = True
            out.append(sc)
    elif cls == 'ColorStmt':
        for f, b, bd in itertools.product([None] + list(TY), repeat=3):
            add(f'{f},{b},{bd}', ANode(
                sim, cls, foreground=E(f) if f else None,
                background=E(b) if b else None,
                border=E(bd) if bd else None))
    elif cls == 'DefSegStmt':
        for t in [None] + list(TY):
            add(str(t), ANode(sim, cls, segment=E(t) if t else None))
    elif cls == 'DimStmt':
        for glob in (False, True):
            for const_dims in (True, False):
                for lt, ut in itertools.product(TY, TY):
                    rng = ANode(sim, 'ArrayDimRange', lbound=E(lt),
                                ubound=E(ut))
                    var = AVar('a', AType('INTEGER', is_array=True), glob)
                    decl = ANode(sim, 'VarDeclClause', name='a',
                                 type=AType('INTEGER', is_array=True,
                                            static=const_dims),
                                 array_dims=[rng],
                                 array_dims_are_const=const_dims, var=var)
                    scalar = ANode(sim, 'VarDeclClause', name='x',
                                   type=AType('SINGLE'), array_dims=[],
                                   array_dims_are_const=True,
                                   var=AVar('x', AType('SINGLE'), glob))
                    add(f'g={glob} const={const_dims} {lt} TO {ut}',
                        ANode(sim, cls, var_decls=[scalar, decl],
                              kind='dim'))
    elif cls == 'KillStmt':
        for t in TY:
            add(t, ANode(sim, cls, filespec=E(t)))
    elif cls == 'LoopBlock':
        for kind in ('forever', 'do_while', 'do_until', 'loop_while',
                     'loop_until'):
            for t in ([None] if kind == 'forever' else TY):
                for nb in (0, 2):
                    add(f'{kind} {t} body={nb}',
                        ANode(sim, cls, kind=kind,
                              cond=E(t) if t else None, body=body(nb)))
    elif cls in ('ExitDoStmt', 'ExitForStmt'):
        kind = 'do' if cls == 'ExitDoStmt' else 'for'
        bc = sim.aclass('BlockContext')
        blk = [DataObj(sim, bc.ci, ['select', '_x'], {}),
               DataObj(sim, bc.ci, [kind, '_exit_1'], {}),
               DataObj(sim, bc.ci, ['select', '_y'], {})]
        add('inside', ANode(sim, cls), blocks=blk)
        # nested loops of the same kind (and one of the other kind in
        # between): EXIT leaves the innermost loop of its kind
        other = 'for' if kind == 'do' else 'do'
        blk2 = [DataObj(sim, bc.ci, [kind, '_exit_outer'], {}),
                DataObj(sim, bc.ci, [other, '_exit_other'], {}),
                DataObj(sim, bc.ci, [kind, '_exit_inner'], {}),
                DataObj(sim, bc.ci, ['select', '_y'], {}),
                DataObj(sim, bc.ci, [other, '_exit_other2'], {})]
        sc2 = Scenario(cls, 'nested', ANode(sim, cls), blocks=blk2)
        sc2.expect_target = '_exit_inner'
        sc2.must_admit = True
        sc2.pass_blocks = [b for b in blk2
                           if b.f.get('kind') in ('do', 'for')]
        out.append(sc2)
        # no enclosing loop of its kind: the passes must reject it
        blk3 = [DataObj(sim, bc.ci, [other, '_exit_other'], {}),
                DataObj(sim, bc.ci, ['select', '_y'], {})]
        sc3 = Scenario(cls, 'outside', ANode(sim, cls), blocks=blk3)
        sc3.must_reject = True
        sc3.pass_blocks = [blk3[0]]
        out.append(sc3)
    elif cls == 'ForBlock':
        for vt in NUM:
            for glob in (False, True):
                for st in [None] + list(TY):
                    for ft, tt in itertools.product(TY, TY):
                        if st not in (None, 'INTEGER', 'STRING') and \
                                (ft, tt) != ('INTEGER', 'INTEGER'):
                            continue
                        r = ARoutine('_main', 'toplevel', {})
                        add(f'{vt} g={glob} step={st} {ft}..{tt}',
                            ANode(sim, cls, var=L(vt, is_global=glob,
                                                  name='i'),
                                  from_expr=E(ft), to_expr=E(tt),
                                  step_expr=E(st) if st else None,
                                  body=body(1)), routine=r)
    elif cls == 'GosubStmt':
        add('label', ANode(sim, cls, target='a', canonical_target='a'))
    elif cls == 'ReturnStmt':
        add('plain', ANode(sim, cls, target=None, canonical_target=None),
            entry=['LONG'])
        add('label', ANode(sim, cls, target='a', canonical_target='a'),
            entry=['LONG'], expect=())
    elif cls == 'GotoStmt':
        add('label', ANode(sim, cls, target='a', canonical_target='a'))
    elif cls == 'IfBlock':
        for ne in (0, 1, 2):
            for has_else in (False, True):
                for t, t2 in itertools.product(TY, TY if ne else
                                               ('INTEGER',)):
                    for nb in (0, 1):
                        conds = [E(t)] + [E(t2) for _ in range(ne)]
                        elseifs = [ANode(sim, 'ElseIfStmt', cond=c,
                                         then_stmts=[]) for c in conds[1:]]
                        else_stmt = ANode(sim, 'ElseStmt') if has_else \
                            else None
                        add(f'elseif={ne} else={has_else} {t}/{t2} '
                            f'body={nb}',
                            ANode(sim, cls,
                                  if_blocks=[(c, body(nb)) for c in conds],
                                  else_body=body(nb) if has_else else [],
                                  elseif_stmts=elseifs,
                                  else_stmt=else_stmt))
    elif cls == 'IfStmt':
        for t in TY:
            for nb in (0, 1):
                for ec in (None, 0, 1):
                    else_clause = None if ec is None else ANode(
                        sim, 'ElseClause', stmts=body(ec))
                    add(f'{t} then={nb} else={ec}',
                        ANode(sim, cls, cond=E(t), then_stmts=body(nb),
                              else_clause=else_clause))
    elif cls == 'InputStmt':
        for same in (False, True):
            for q in (False, True):
                for vts in (['INTEGER'], ['STRING', 'DOUBLE'],
                            ['LONG', 'SINGLE', 'STRING']):
                    # the prompt text varies too: the code must not depend
                    # on it except through the literal itself
                    for ptxt in ('p', ''):
                        add(f'same={same} q={q} {vts} prompt={ptxt!r}',
                            ANode(sim, cls, same_line=same,
                                  prompt_question=q,
                                  prompt=ANode(sim, 'StringLiteral',
                                               value=ptxt),
                                  var_list=[L(t, name=f'v{i}')
                                            for i, t in enumerate(vts)]))
    elif cls == 'LocateStmt':
        for r, c, cu in itertools.product([None] + list(TY), repeat=3):
            add(f'{r},{c},{cu}', ANode(
                sim, cls, row=E(r) if r else None,
                col=E(c) if c else None, cursor=E(cu) if cu else None,
                start=None, stop=None))
    elif cls == 'OnErrorStmt':
        add('resume next', ANode(sim, cls, resume_next=True,
                                 goto_label=None,
                                 canonical_goto_label=None))
        add('goto 0', ANode(sim, cls, resume_next=False, goto_label=0,
                            canonical_goto_label='_lineno_0'))
        add('goto h', ANode(sim, cls, resume_next=False, goto_label='h',
                            canonical_goto_label='h'))
    elif cls == 'PlayStmt':
        for t in TY:
            add(t, ANode(sim, cls, command_string=E(t)))
    elif cls == 'PokeStmt':
        for a, b in itertools.product(TY, TY):
            add(f'{a},{b}', ANode(sim, cls, address=E(a), value=E(b)))
    elif cls == 'PrintStmt':
        sep = lambda s: ANode(sim, 'PrintSep', sep=s)
        shapes = [[], ['e'], ['e', ';'], ['e', ',', 'e'], [';'],
                  [',', ','], ['e', ';', 'e', ';'], ['e', ';', ',', 'e'],
                  ['e', ',', ','], [';', ';'], [',', ';', 'e'], ['lit0'], ['e', ';', 'lit0'],
                  ['e', ',', 'lit0'], ['lit0', ';', 'e']]
        for fmt in [None] + list(TY):
            for shape in shapes:
                for t in TY:
                    items = [E(t) if x == 'e' else
                             ANode(sim, 'StringLiteral', value='')
                             if x == 'lit0' else sep(x) for x in shape]
                    add(f'using={fmt} {shape} {t}',
                        ANode(sim, cls, items=items,
                              format_string=E(fmt) if fmt else None))
                    if 'e' not in shape:
                        break
    elif cls == 'RandomizeStmt':
        for t in TY:
            add(t, ANode(sim, cls, seed=E(t)))
    elif cls == 'ReadStmt':
        for vts in (['INTEGER'], ['STRING', 'DOUBLE'], ['LONG', 'SINGLE']):
            add(str(vts), ANode(sim, cls, var_list=[
                L(t, name=f'v{i}') for i, t in enumerate(vts)]))
        add('elem', ANode(sim, cls, var_list=[
            L('INTEGER', indices=[sim.expr('INTEGER')], base_array=True)]))
    elif cls == 'RestoreStmt':
        add('plain', ANode(sim, cls, target=None, canonical_target=None))
        add('label', ANode(sim, cls, target='a', canonical_target='a'))
        # line number 0 is a target like any other (0 is falsy in Python)
        add('lineno0', ANode(sim, cls, target=0,
                             canonical_target='_lineno_0'))
        add('lineno10', ANode(sim, cls, target=10,
                              canonical_target='_lineno_10'))
    elif cls == 'ResumeStmt':
        add('resume', ANode(sim, cls, next=False))
        add('resume next', ANode(sim, cls, next=True))
    elif cls == 'ScreenStmt':
        for m, cs, ap, vp in itertools.product(TY, [None] + list(TY),
                                               [None, 'INTEGER', 'STRING'],
                                               [None, 'INTEGER', 'STRING']):
            add(f'{m},{cs},{ap},{vp}', ANode(
                sim, cls, mode=E(m), color_switch=E(cs) if cs else None,
                apage=E(ap) if ap else None, vpage=E(vp) if vp else None))
    elif cls == 'SoundStmt':
        for a, b in itertools.product(TY, TY):
            add(f'{a},{b}', ANode(sim, cls, frequency=E(a), duration=E(b)))
    elif cls == 'WidthStmt':
        for a, b in itertools.product([None] + list(TY), repeat=2):
            add(f'{a},{b}', ANode(sim, cls, columns=E(a) if a else None,
                                  lines=E(b) if b else None))
    elif cls == 'ExitFunctionStmt':
        for t in TY:
            r = ARoutine('f', 'function', [], return_type=AType(t))
            add(t, ANode(sim, cls), routine=r, entry=['LONG'])
    elif cls == 'ReturnValueSetStmt':
        for rt, vt in itertools.product(TY, TY):
            r = ARoutine('f', 'function', [], return_type=AType(rt))
            add(f'{rt}<-{vt}', ANode(sim, cls, value=E(vt)), routine=r)
    elif cls in ('SubBlock', 'FunctionBlock'):
        for np in (0, 2):
            for nb in (0, 2):
                for rt in (TY if cls == 'FunctionBlock' else [None]):
                    r = ARoutine('r', 'sub' if cls == 'SubBlock'
                                 else 'function',
                                 [(f'p{i}', AType('INTEGER'))
                                  for i in range(np)],
                                 return_type=AType(rt) if rt else None)
                    add(f'params={np} body={nb} ret={rt}',
                        ANode(sim, cls, name='r', routine=r,
                              block=body(nb), params=[]),
                        entry=['REFERENCE'] * np + ['LONG'])
    elif cls == 'Program':
        for nb in (0, 2):
            r = ARoutine('_main', 'toplevel', [])
            kids = body(nb) + [ANode(sim, 'SubBlock', name='q')]
            add(f'body={nb}', ANode(sim, cls, nodes=kids, children=kids),
                routine=r, routines={'_main': r})
    elif cls == 'ViewPrintStmt':
        add('none', ANode(sim, cls, top_expr=None, bottom_expr=None))
        for a, b in itertools.product(TY, TY):
            add(f'{a},{b}', ANode(sim, cls, top_expr=E(a),
                                  bottom_expr=E(b)))
    elif cls == 'WhileBlock':
        for t in TY:
            for nb in (0, 2):
                add(f'{t} body={nb}', ANode(sim, cls, cond=E(t),
                                            body=body(nb)))
    elif cls == 'SelectBlock':
        for vt in TY:
            for ncase in (0, 1, 2):
                for has_else in (False, True):
                    for nb in (0, 1):
                        r = ARoutine('_main', 'toplevel', {})
                        cases = []
                        for i in range(ncase):
                            cl = ANode(sim, 'SimpleCaseClause',
                                       value=E(vt))
                            cases.append((ANode(sim, 'CaseStmt',
                                                cases=[cl]), body(nb)))
                        if has_else:
                            cases.append((ANode(sim, 'CaseElseStmt'),
                                          body(nb)))
                        add(f'{vt} cases={ncase} else={has_else} body={nb}',
                            ANode(sim, cls, value=E(vt),
                                  case_blocks=cases), routine=r)
    elif cls in ('SimpleCaseClause', 'CompareCaseClause',
                 'RangeCaseClause', 'CaseStmt'):
        ops = sim.enum('qbee.expr', 'Operator')
        sbc = sim.aclass('SelectBlockContext')
        for vt, ct, tt in itertools.product(
                TY, TY, TY if cls == 'RangeCaseClause' else (None,)):
            sel = ANode(sim, 'SelectBlock', value=E(vt), case_blocks=[])
            blk = [DataObj(sim, sbc.ci, ['select', '_end', '_sel',
                                         AType(vt)], {})]
            clauses = []
            if cls in ('SimpleCaseClause', 'CaseStmt'):
                clauses.append(ANode(sim, 'SimpleCaseClause', value=E(ct)))
            if cls in ('CompareCaseClause', 'CaseStmt'):
                for m in ('CMP_EQ', 'CMP_NE', 'CMP_LT', 'CMP_GT', 'CMP_LE',
                          'CMP_GE'):
                    clauses.append(ANode(sim, 'CompareCaseClause',
                                         op=ops.member(m), value=E(ct)))
            if cls in ('RangeCaseClause', 'CaseStmt'):
                # the two ends are typed independently (one clause per
                # SELECT so that an ill-typed end rejects only itself)
                clauses.append(ANode(sim, 'RangeCaseClause',
                                     from_value=E(ct),
                                     to_value=E(tt or ct)))
            case = ANode(sim, 'CaseStmt', cases=clauses)
            case.parent = sel
            for c in clauses:
                c.parent = case
            sel.fields['case_blocks'] = [(case, [])]
            if cls == 'CaseStmt':
                add(f'{vt} case {ct} x{len(clauses)}', case, blocks=blk,
                    admit=('SelectBlock', sel))
                one = ANode(sim, 'CaseStmt', cases=clauses[:1])
                one.parent = sel
            else:
                for c in clauses:
                    lab = c.fields.get('op')
                    tl = f' TO {tt}' if tt else ''
                    add(f'{vt} clause {ct}{tl} {lab.name if lab else ""}', c,
                        blocks=blk, admit=('SelectBlock', sel))
    return out


def _builtin_names(sim):
    g = sim.gens.get('BuiltinFuncCall')
    names = []
    import ast
    from .astutil import dotted, const
    for n in ast.walk(g.node):
        if isinstance(n, ast.If) and isinstance(n.test, ast.Compare) and \
                dotted(n.test.left) == 'node.name':
            names.append(const(n.test.comparators[0]))
    return names


# ---------------------------------------------------------------------------
# checking an emitted sequence

class SeqProblem:
    def __init__(self, kind, where, detail):
        self.kind = kind
        self.where = where
        self.detail = detail

    def __repr__(self):
        return f'{self.kind}@{self.where}: {self.detail}'


def normalise(instr):
    op = instr[0]
    args = list(instr[1:])
    if isinstance(op, str):
        op = op.lower()
    return op, args


def node_type_name(sim, node):
    t = node.fields.get('type') if 'type' in node.fields else None
    if t is None:
        from .absint import Interp
        try:
            t = node.getattr_('type', Interp(sim))
        except Exception:
            t = None
    if isinstance(t, AType) and not t.is_array and t.name in BUILTIN_TYPES:
        return t.name
    return None


def run_sequence(sim, instrs, entry, routine_params=None):
    """Abstractly execute a straight emitted sequence with labels/jumps.
    Returns (problems, exits) where exits = [(kind, stack type names)]."""
    vm = sim.vm
    problems = []
    labels = {}
    for i, ins in enumerate(instrs):
        op, args = normalise(ins)
        if op == '_label':
            labels[args[0]] = i

    def cell(tn, value=UNK):
        if tn == 'REFERENCE':
            return vmsim.Cell(vm.T('REFERENCE'), vmsim.RefV())
        return vmsim.Cell(vm.T(tn), value)

    def sig(stack):
        return tuple(str(c.type) for c in stack)
    start = [cell(t) for t in entry]
    work = [(0, start)]
    seen = {}
    exits = []
    steps = 0
    while work:
        pc, stack = work.pop()
        while True:
            steps += 1
            if steps > 20000:
                problems.append(SeqProblem('unmodelled', pc, 'step budget'))
                return problems, exits
            if pc >= len(instrs):
                exits.append(('end', sig(stack)))
                break
            key = pc
            if key in seen:
                if seen[key] != sig(stack):
                    problems.append(SeqProblem(
                        'inconsistent-stack', pc,
                        f'{instrs[pc][0]} reached with stacks {seen[key]} '
                        f'and {sig(stack)}'))
                break
            seen[key] = sig(stack)
            op, args = normalise(instrs[pc])
            if not isinstance(op, str):
                problems.append(SeqProblem('bad-op', pc, repr(op)))
                break
            if op in PSEUDO or op == '_label':
                pc += 1
                continue
            if op == '$gen':
                n = args[0]
                if n.cls in CONDITION_STMTS:
                    stack = stack + [cell('INTEGER')]
                elif sim.is_subclass(n.cls, 'Expr'):
                    tn = node_type_name(sim, n)
                    if tn is None:
                        t = n.fields.get('type')
                        if isinstance(t, AType) and t.is_array:
                            stack = stack + [cell('REFERENCE')]
                        else:
                            stack = stack + [vmsim.Cell(Unk('child type'))]
                    else:
                        stack = stack + [cell(tn)]
                pc += 1
                continue
            if op == 'jmp':
                tgt = labels.get(args[0])
                if tgt is None:
                    exits.append(('jump-out', sig(stack), args[0]))
                    break
                pc = tgt
                continue
            if op in ('halt',):
                exits.append(('halt', sig(stack)))
                break
            if op.startswith('push') and op[-1] in CHAR_TYPE and \
                    not op.startswith('pushref'):
                tn = CHAR_TYPE[op[-1]]
                val = UNK
                body_ = op[4:-1]
                if body_ == '':
                    val = args[0] if args else UNK
                    if callable(val) or isinstance(val, vmsim.AbsObj):
                        val = UNK
                    if tn == 'STRING':
                        val = UNK
                elif body_ in ('0', '1', '2', 'm1', 'm2'):
                    val = {'0': 0, '1': 1, '2': 2, 'm1': -1,
                           'm2': -2}[body_]
                else:
                    problems.append(SeqProblem('unknown-op', pc, op))
                    break
                if op not in vm.instrs and body_ == '':
                    problems.append(SeqProblem('unknown-op', pc, op))
                    break
                stack = stack + [cell(tn, val)]
                pc += 1
                continue
            if op == 'call':
                tgt = args[0]
                if isinstance(tgt, str) and (tgt.startswith('_sub_') or
                                             tgt.startswith('_func_')):
                    name = tgt.split('_', 2)[2]
                    r = sim.compilation.routines.get(name)
                    npar = len(r.params) if r else 0
                    if len(stack) < npar:
                        problems.append(SeqProblem(
                            'underflow', pc, f'call {tgt} needs {npar} '
                            f'argument cells, stack has {len(stack)}'))
                        break
                    argc = stack[len(stack) - npar:]
                    stack = stack[:len(stack) - npar]
                    if r is not None:
                        for c, (pn, pt) in zip(argc, r.params.items()):
                            # by-value args must have the parameter type
                            if isinstance(c.type, vmsim.TypeV) and \
                                    c.type.name != 'REFERENCE' and \
                                    isinstance(pt, AType) and \
                                    pt.name in BUILTIN_TYPES and \
                                    c.type.name != pt.name:
                                problems.append(SeqProblem(
                                    'arg-type', pc,
                                    f'argument cell {c.type.name} passed '
                                    f'for parameter {pn} of type '
                                    f'{pt.name}'))
                    if tgt.startswith('_func_') and r is not None and \
                            r.return_type is not None:
                        stack = stack + [cell(r.return_type.name)]
                # GOSUB: the return address is consumed by RETURN
                pc += 1
                continue
            if op not in vm.instrs:
                if op.startswith('conv') and '$' in op:
                    problems.append(SeqProblem('obligation', pc, op))
                else:
                    problems.append(SeqProblem('unknown-op', pc, op))
                break
            # operands for the handler
            d = vm.instrs[op]
            operands = []
            for a, oc in zip(args, d.operands):
                if isinstance(a, (int, float)) and not isinstance(a, bool):
                    operands.append(a)
                else:
                    operands.append(Unk('operand'))
            while len(operands) < len(d.operands):
                operands.append(Unk('operand'))
            if op == 'frame':
                operands = [len(routine_params or []), Unk('locals')]
            mkey = (op, tuple(args[:2]) if op == 'io' else
                    tuple(repr(o) for o in operands),
                    tuple((str(c.type), repr(c.value))
                          for c in stack[-12:]))
            memo = sim.__dict__.setdefault('_memo', {})
            if mkey in memo:
                outs_t = memo[mkey]
                outs = [vmsim.Outcome(k, stack[:len(stack) - npop] + new,
                                      d, [None] * npop if not unk else
                                      [vmsim.Cell(Unk('t'))], [], [])
                        for k, npop, new, d, unk in outs_t]
            else:
                if op == 'io':
                    outs = vm.run_device(args[0], args[1], stack)
                else:
                    outs = vm.run_instruction(op, operands, stack)
                if len(stack) <= 12:
                    packed = []
                    ok_pack = True
                    for o in outs:
                        if o.cells is None:
                            ok_pack = False
                            break
                        npop = len(o.popped)
                        # cells below the popped ones are untouched
                        base = len(stack) - npop
                        if base < 0 or [id(c) for c in o.cells[:base]] != \
                                [id(c) for c in stack[:base]]:
                            ok_pack = False
                            break
                        unk = any(not isinstance(
                            (p[0] if isinstance(p, tuple) else p).type,
                            vmsim.TypeV) for p in o.popped)
                        packed.append((o.kind, npop, o.cells[base:],
                                       o.detail, unk))
                    if ok_pack:
                        memo[mkey] = packed
            unk_in = any(p is not None and not isinstance(
                (p[0] if isinstance(p, tuple) else p).type, vmsim.TypeV)
                for o in outs for p in o.popped)
            oks = []
            for o in outs:
                if o.kind == 'ok':
                    oks.append(o)
                elif o.kind == 'trap':
                    dtl = str(o.detail)
                    if dtl.startswith('TYPE_MISMATCH') and (
                            op.startswith('read') or
                            op.startswith('deref')):
                        continue   # stored cell type: store invariant S
                    opn = f'io {args[0]}.{args[1]}' if op == 'io' else op
                    if (dtl.startswith('TYPE_MISMATCH') or
                            dtl.startswith('STACK_EMPTY')) and not unk_in:
                        problems.append(SeqProblem('type-trap', pc,
                                                   f'{opn}: {dtl}'))
                elif o.kind == 'raise' and not unk_in:
                    opn = f'io {args[0]}.{args[1]}' if op == 'io' else op
                    problems.append(SeqProblem('host-exception', pc,
                                               f'{opn}: {o.detail}'))
                elif o.kind == 'unmodelled':
                    problems.append(SeqProblem('unmodelled', pc,
                                               f'{op}: {o.detail}'))
            if outs and all(o.kind == 'trap' and
                            str(o.detail).startswith('DEVICE_ERROR')
                            for o in outs) and not unk_in:
                problems.append(SeqProblem('type-trap', pc,
                                           f'{op} {args}: every path is a '
                                           f'device error (bad argument '
                                           f'type)'))
            if not oks:
                exits.append(('trap', sig(stack)))
                break
            # all ok outcomes must agree on the resulting stack
            outs_sig = {}
            for o in oks:
                cells = list(o.cells)
                # store invariant S: read*/readidx*/deref* push the
                # declared type
                if op[-1] in CHAR_TYPE and (op.startswith('read') or
                                            op.startswith('deref')):
                    cells = [c if isinstance(c.type, vmsim.TypeV)
                             else cell(CHAR_TYPE[op[-1]]) for c in cells]
                outs_sig.setdefault(sig(cells), cells)
            if len(outs_sig) > 1:
                problems.append(SeqProblem(
                    'ambiguous-effect', pc,
                    f'{op}: result stacks {sorted(outs_sig)}'))
            stack = list(outs_sig.values())[0]
            if op == 'jz':
                tgt = labels.get(args[0])
                if tgt is not None:
                    work.append((tgt, list(stack)))
                else:
                    exits.append(('jump-out', sig(stack), args[0]))
                pc += 1
                continue
            if op in ('ret', 'retv', 'ijmp'):
                exits.append((op, sig(stack)))
                break
            pc += 1
    return problems, exits


def marker_check(instrs):
    """Linear (emission-order) discipline of debug markers."""
    problems = []
    stack = []
    manual = []
    for i, ins in enumerate(instrs):
        op, args = normalise(ins)
        if op == '_dbg_info_start':
            stack.append(args[0])
            manual.append(args[0])
        elif op == '_dbg_info_end':
            if not stack:
                problems.append(SeqProblem('marker', i, 'end without start'))
            else:
                s = stack.pop()
                if s is not args[0]:
                    problems.append(SeqProblem(
                        'marker', i, f'end of {args[0]} closes {s}'))
    if stack:
        problems.append(SeqProblem('marker', len(instrs),
                                   f'unclosed markers {stack}'))
    return problems, manual


def strip_pseudo(instrs):
    out = []
    for ins in instrs:
        op, args = normalise(ins)
        if op in PSEUDO:
            continue
        out.append((op,) + tuple(
            a if not callable(a) else '<deferred>' for a in args))
    return out
