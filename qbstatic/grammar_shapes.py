"""Shape analysis of the pyparsing grammar (qbee/grammar.py).

Every grammar rule is evaluated abstractly to the set of token-list shapes it
can deliver; every parse action is then interpreted (absint) on each shape
of its rule.  A parse action that raises anything other than SyntaxError /
CompileError / IndexError on a deliverable shape is a C06 finding (pyparsing
3.0.9 converts only IndexError raised by a parse action into a parse
failure; ValueError from tuple unpacking, AssertionError, TypeError,
AttributeError escape parse_string).
"""
import ast
import itertools

from . import registries as R
from .absint import (AbsObj, Unk, UNK, is_unk, Interp, Env, Closure, Oracle,
                     explore, PathEnd, Raised, Unmodelled)
from .astutil import dotted, const, unparse, decorators
from .gensim import GenSim, ANode, AClass, AType
from . import vmsim
from .model import AnalysisError

MAX_LEN = 9
MAX_SET = 160
EXTRA_REP = 2        # an unbounded repetition x[lo, ...] is taken lo..lo+2
BOUNDS = {'quick': (9, 160, 2), 'thorough': (12, 480, 3)}


# shape elements -------------------------------------------------------------
# ('t', text|None)   a string token (text known for keywords / literals)
# ('i',)             an int (Located positions)
# ('n',)             None (Opt(..., default=None))
# ('N', cls|None)    a node object
# ('g', frozenset of shapes)   a nested group / list

def T(text=None):
    return ('t', text)


def concat(a, b):
    out = set()
    for x in a:
        for y in b:
            z = x + y
            if len(z) <= MAX_LEN:
                out.add(z)
    return _cap(out)


def _generalise(shape):
    out = []
    for e in shape:
        if e[0] == 't':
            out.append(('t', None))
        elif e[0] == 'N':
            out.append(('N', None))
        elif e[0] == 'g':
            out.append(('g', frozenset(_generalise(s) for s in e[1])))
        else:
            out.append(e)
    return tuple(out)


def canon_key(shape):
    """A deterministic, hash-order independent key of a shape."""
    out = []
    for e in shape:
        if e[0] == 'g':
            out.append(('g', tuple(sorted(canon_key(x) for x in e[1]))))
        else:
            out.append(tuple('' if x is None else str(x) for x in e))
    return tuple(out)


TRUNCATED = []


def _cap(s):
    """Bounds a shape set by *dropping* shapes, never by merging them: every
    shape kept is one the rule really delivers, so a failure found on it is
    real.  One representative per structural skeleton is kept first, so
    arities and optional parts stay covered when node classes multiply."""
    if len(s) <= MAX_SET:
        return frozenset(s)
    groups = {}
    for x in s:
        groups.setdefault(canon_key(_generalise(x)), []).append(x)
    order = sorted(groups, key=lambda k: (len(k), k))
    for k in order:
        groups[k].sort(key=canon_key)
    out = []
    depth = 0
    while len(out) < MAX_SET:
        added = False
        for k in order:
            if depth < len(groups[k]):
                out.append(groups[k][depth])
                added = True
                if len(out) >= MAX_SET:
                    break
        if not added:
            break
        depth += 1
    TRUNCATED.append(len(s) - len(out))
    return frozenset(out)


class Shapes:
    def __init__(self, repo, sim):
        self.repo = repo
        self.sim = sim
        self.g = repo.module('qbee.grammar')
        self.actions = {}
        for rule, f in R.parse_actions(repo):
            self.actions.setdefault(rule, []).append(f)
        self.memo = {}
        self.action_memo = {}
        self.values = {}
        self.sweeps = 0
        self.action_in = {}       # rule -> raw shapes before actions
        self.problems = []
        self.unmodelled = []
        self.keyword_rules = {n for n, v in self.g.assigns.items()
                              if isinstance(v, ast.Call) and
                              dotted(v.func) == 'CaselessKeyword'}
        self.truncated = set()
        self.keywords = {const(v.args[0]) for n, v in self.g.assigns.items()
                         if n in self.keyword_rules}

    # -- rule evaluation (global Kleene iteration) ------------------------
    def solve(self, max_sweeps=10):
        """values[name] for every grammar rule, by iterating all rules in
        definition order until nothing changes."""
        order = []
        for st in self.g.tree.body:
            name = None
            if isinstance(st, ast.Assign) and len(st.targets) == 1 and \
                    isinstance(st.targets[0], ast.Name):
                name = st.targets[0].id
            elif isinstance(st, ast.AugAssign) and \
                    isinstance(st.target, ast.Name) and \
                    isinstance(st.op, ast.LShift):
                name = st.target.id
            if name and name not in order and name != 'keyword' and \
                    name not in self.keyword_rules and \
                    not name.startswith('_'):
                order.append(name)
        self.values = {n: frozenset() for n in order}
        skip = set()
        for sweep in range(max_sweeps):
            changed = False
            for name in order:
                if name in skip:
                    continue
                d = self.g.rule_def(name)
                try:
                    raw = self.ev(d)
                except Unmodelled:
                    skip.add(name)
                    continue
                if name in ('untyped_identifier', 'typed_identifier'):
                    raw = frozenset({(T('<ident>'),)})
                self.action_in[name] = raw
                new = self.apply_actions(name, raw)
                if new != self.values[name]:
                    # monotone: keep what was there
                    new = _cap(set(new) | set(self.values[name]))
                    if new != self.values[name]:
                        self.values[name] = new
                        changed = True
            self.sweeps = sweep + 1
            if not changed:
                break
        return self.values

    def rule(self, name):
        if name not in self.values:
            raise Unmodelled(f'grammar name {name}')
        return self.values[name]

    def ev(self, e):
        if isinstance(e, ast.Name):
            if e.id in self.keyword_rules:
                return frozenset({(T(const(
                    self.g.assigns[e.id].args[0])),)})
            if e.id == 'keyword':
                return frozenset({(T(None),)})
            if e.id in self.values:
                return self.values[e.id]
            raise Unmodelled(f'grammar name {e.id}')
        if isinstance(e, ast.BinOp):
            if isinstance(e.op, (ast.Add, ast.Sub)):
                return concat(self.ev(e.left), self.ev(e.right))
            if isinstance(e.op, ast.BitOr):
                return _cap(set(self.ev(e.left)) | set(self.ev(e.right)))
        if isinstance(e, ast.UnaryOp) and isinstance(e.op, ast.Invert):
            return frozenset({()})
        if isinstance(e, ast.Subscript):
            base = self.ev(e.value)
            sl = e.slice
            lo, hi = 0, None
            if isinstance(sl, ast.Constant) and sl.value is Ellipsis:
                lo, hi = 0, None
            elif isinstance(sl, ast.Tuple):
                lo = const(sl.elts[0], 0)
                h = sl.elts[1]
                hi = None if (isinstance(h, ast.Constant) and
                              h.value is Ellipsis) else const(h)
            else:
                lo = hi = const(sl)
            counts = [c for c in range(lo, (hi if hi is not None
                                            else lo + EXTRA_REP) + 1)]
            out = set()
            for c in counts:
                cur = frozenset({()})
                for _ in range(c):
                    cur = concat(cur, base)
                out |= set(cur)
            return _cap(out)
        if isinstance(e, ast.Call):
            fn = dotted(e.func)
            if isinstance(e.func, ast.Attribute):
                m = e.func.attr
                if m == 'suppress':
                    return frozenset({()})
                if m in ('set_name', 'setName', 'set_results_name'):
                    return self.ev(e.func.value)
            if fn in ('CaselessKeyword', 'Literal', 'CaselessLiteral',
                      'Keyword'):
                return frozenset({(T(const(e.args[0])),)})
            if fn in ('Regex', 'Word', 'SkipTo', 'Combine', 'LineEnd',
                      'StringEnd', 'White', 'reduce'):
                return frozenset({(T(None),)})
            if fn == 'FollowedBy':
                return frozenset({()})
            if fn == 'Forward':
                return frozenset()
            if fn == 'Opt':
                inner = self.ev(e.args[0])
                dflt = [k for k in e.keywords if k.arg == 'default']
                if dflt or len(e.args) > 1:
                    return _cap(set(inner) | {(('n',),)})
                return _cap(set(inner) | {()})
            if fn == 'Group':
                inner = self.ev(e.args[0])
                if not inner:
                    return frozenset()
                return frozenset({(('g', inner),)})
            if fn == 'Located':
                inner = self.ev(e.args[0])
                if not inner:
                    return frozenset()
                return frozenset({(('i',), ('g', inner), ('i',))})
            if fn == 'delimited_list':
                inner = self.ev(e.args[0])
                lo = 1
                hi = 3
                for k in e.keywords:
                    if k.arg == 'min' and const(k.value):
                        lo = const(k.value)
                    if k.arg == 'max' and const(k.value):
                        hi = const(k.value)
                out = set()
                for c in range(lo, min(hi, lo + 2) + 1):
                    cur = frozenset({()})
                    for _ in range(c):
                        cur = concat(cur, inner)
                    out |= set(cur)
                return _cap(out)
        raise Unmodelled(f'grammar expression {unparse(e)[:60]}')

    # -- parse actions ----------------------------------------------------
    def apply_actions(self, name, raw):
        fs = self.actions.get(name, [])
        cur = raw
        # decorators stack: the textually LAST decorator in a stack is
        # applied first, but each rule has one action here
        for f in fs:
            out = set()
            for shape in expand_groups(cur, 600):
                res = self.run_action(name, f, shape)
                out |= res
            cur = _cap(out)
        return cur

    def run_action(self, rule, f, shape):
        params = [a.arg for a in f.node.args.args]

        def run(oracle):
            interp = Interp(self.sim, oracle)
            toks = Toks(self.to_values(shape))
            args = [toks] if len(params) == 1 else \
                [Unk('source'), 0, toks]
            clo = Closure(f.node, self.sim.module_env('qbee.grammar'),
                          name=f.qualname)
            try:
                v = clo.call_(args, {}, interp)
                if v is None:
                    return ('ok', toks.items, True)
                return ('ok', v, False)
            except Raised as r:
                return ('raise', r.cls_name, str(r.value)[:100],
                        getattr(r.node, 'lineno', None))
            except PathEnd as e:
                return ('raise', 'PathEnd', e.kind, None)
            except Unmodelled as u:
                return ('unmodelled', str(u))
            except (RecursionError, TypeError, AttributeError, KeyError,
                    IndexError, ValueError) as ex:
                return ('unmodelled', f'interpreter: {ex!r}')
        key = (f.qualname, shape)
        if key in self.action_memo:
            return self.action_memo[key]
        try:
            res = explore(run, 1500)
        except Unmodelled as u:
            self.unmodelled.append((rule, f.qualname, str(u)))
            self.action_memo[key] = frozenset({(('N', None),)})
            return self.action_memo[key]
        out = set()
        for choices, r in res:
            if r[0] == 'unmodelled':
                self.unmodelled.append((rule, f.qualname, r[1]))
                out.add((('N', None),))
            elif r[0] == 'raise':
                if r[1] in ('SyntaxError', 'CompileError', 'IndexError'):
                    continue
                self.problems.append({
                    'rule': rule, 'action': f.qualname, 'file': f.file,
                    'line': r[3] or f.line, 'exc': r[1], 'msg': r[2],
                    'shape': show_shape(shape)})
            else:
                out.add(self.from_value(r[1], flat=r[2]))
        self.action_memo[key] = frozenset(out)
        return self.action_memo[key]

    def to_values(self, shape):
        out = []
        for e in shape:
            if e[0] == 't' and e[1] == '<ident>':
                out.append(IdentV(self.keywords))
            elif e[0] == 't':
                out.append(e[1] if e[1] is not None
                           else Unk('tok', notnone=True))
            elif e[0] == 'i':
                out.append(0)
            elif e[0] == 'n':
                out.append(None)
            elif e[0] == 'N':
                out.append(ANode(self.sim, e[1] or '$Expr'))
            elif e[0] == 'g':
                # choose one inner shape per outer instance: enumerate by
                # expanding the outer shape set instead (see expand)
                inner = sorted(e[1], key=canon_key)
                out.append(Toks(self.to_values(inner[0])) if inner
                           else Toks([]))
        return out

    def from_value(self, v, flat=False):
        """Shape of a parse-action result."""
        if isinstance(v, Toks):
            return self.items_shape(v.items)
        if isinstance(v, (list, tuple)):
            return self.items_shape(list(v))
        return self.items_shape([v])

    def items_shape(self, items):
        out = []
        for x in items:
            if x is None:
                out.append(('n',))
            elif isinstance(x, ANode):
                out.append(('N', x.cls if not x.cls.startswith('$')
                            else None))
            elif isinstance(x, IdentV):
                out.append(('t', '<ident>'))
            elif isinstance(x, str):
                out.append(('t', x))
            elif isinstance(x, (Toks, list, tuple)):
                inner = x.items if isinstance(x, Toks) else list(x)
                out.append(('g', frozenset({self.items_shape(inner)})))
            elif isinstance(x, bool):
                out.append(('t', None))
            elif isinstance(x, int):
                out.append(('i',))
            else:
                out.append(('t', None))
        return tuple(out[:MAX_LEN])


def expand_groups(shapes, limit=400):
    """Expand nested group alternatives so that each returned shape has
    exactly one inner shape per group."""
    out = []
    for s in sorted(shapes, key=canon_key):
        opts = []
        for e in s:
            if e[0] == 'g':
                inner = expand_groups(e[1], 40) or [()]
                opts.append([('g', frozenset({i})) for i in inner[:40]])
            else:
                opts.append([e])
        for combo in itertools.islice(itertools.product(*opts), 120):
            out.append(tuple(combo))
            if len(out) >= limit:
                return out
    return out


def show_shape(shape):
    out = []
    for e in shape:
        if e[0] == 't':
            out.append(repr(e[1]) if e[1] is not None else 'tok')
        elif e[0] == 'i':
            out.append('loc')
        elif e[0] == 'n':
            out.append('None')
        elif e[0] == 'N':
            out.append(e[1] or 'node')
        elif e[0] == 'g':
            inner = sorted(e[1], key=canon_key)
            out.append('[' + (show_shape(inner[0]) if inner else '') + ']')
    return ' '.join(out)


class IdentV(AbsObj):
    """An identifier token: an unknown string that is not a keyword."""
    pytype_ = str

    def __init__(self, keywords):
        self.keywords = keywords

    def eq_(self, other):
        if isinstance(other, str):
            if other.lower() in self.keywords or not other[:1].isalpha():
                return False
            return Unk('ident-eq')
        return Unk('ident-eq')

    def getattr_(self, a, interp):
        if a in ('lower', 'upper', 'strip'):
            return vmsim.FnV(lambda ar, k: self)
        if a == 'endswith':
            return vmsim.FnV(lambda ar, k: Unk('endswith'))
        if a == 'startswith':
            return vmsim.FnV(lambda ar, k: Unk('startswith'))
        if a == 'isnumeric':
            return vmsim.FnV(lambda ar, k: False)
        return Unk(f'ident.{a}')

    def getitem_(self, key, interp):
        return IdentChar() if key == 0 else Unk('char', True)

    def str_(self):
        return Unk('ident')


class IdentChar(AbsObj):
    def getattr_(self, a, interp):
        if a == 'isnumeric':
            return vmsim.FnV(lambda ar, k: False)
        if a == 'lower':
            return vmsim.FnV(lambda ar, k: self)
        return Unk(f'char.{a}')


class Toks(AbsObj):
    """pyparsing.ParseResults (list-like)."""

    def __init__(self, items):
        self.items = list(items)

    def iter_(self, interp):
        return list(self.items)

    def len_(self):
        return len(self.items)

    def truth_(self):
        return bool(self.items)

    def getitem_(self, key, interp):
        if isinstance(key, slice):
            return Toks(self.items[key])
        if is_unk(key):
            return Unk('tok')
        try:
            return self.items[key]
        except IndexError:
            raise Raised('IndexError', 'token index out of range')
        except TypeError:
            raise Raised('TypeError', 'bad token index')

    def getattr_(self, a, interp):
        if a == 'pop':
            def pop(ar, k):
                try:
                    return self.items.pop(*ar)
                except IndexError:
                    raise Raised('IndexError', 'pop from empty tokens')
            return vmsim.FnV(pop)
        if a in ('as_list', 'asList'):
            return vmsim.FnV(lambda ar, k: list(self.items))
        return Unk(f'toks.{a}')

    def eq_(self, other):
        if isinstance(other, (list, tuple)):
            o = list(other)
            if len(o) != len(self.items):
                return False
            for x, y in zip(self.items, o):
                if is_unk(x) or is_unk(y):
                    return Unk('eq')
                if x != y:
                    return False
            return True
        if isinstance(other, Toks):
            return self.eq_(other.items)
        return False


# ---------------------------------------------------------------------------

_CACHE = {}


def analyse(repo, tier='quick'):
    global MAX_LEN, MAX_SET, EXTRA_REP
    MAX_LEN, MAX_SET, EXTRA_REP = BOUNDS.get(tier, BOUNDS['quick'])
    key = (repo.digest(), tier)
    if key in _CACHE:
        return _CACHE[key]
    sim = GenSim(repo)
    _install_node_construction(sim)
    NODE_ATTRS.clear()
    del TRUNCATED[:]
    sh = Shapes(repo, sim)
    rules = sorted({r for r, _ in R.parse_actions(repo)})
    sh.solve()
    # problems recorded while the fixed point was still growing are kept:
    # every shape evaluated is deliverable (the iteration is monotone)
    # second sweep with group alternatives expanded for each action input
    for r in rules:
        raw = sh.action_in.get(r)
        if not raw:
            continue
        for f in sh.actions.get(r, []):
            for shape in expand_groups(raw):
                sh.run_action(r, f, shape)
    out = {'rules': len(rules),
           'shapes': {r: len(sh.action_in.get(r, ())) for r in rules},
           'problems': _dedupe(sh.problems),
           'unmodelled': sorted(set(sh.unmodelled))[:60],
           'n_unmodelled': len(set(sh.unmodelled)),
           'dropped_shapes': sum(TRUNCATED),
           'node_attrs': {c: {a: sorted(v) for a, v in sorted(d.items())}
                          for c, d in sorted(NODE_ATTRS.items())},
           'samples': [{'rule': r, 'shapes': [show_shape(s) for s in
                                              sorted(sh.action_in.get(r, ()),
                                                     key=canon_key)[:4]]}
                       for r in rules[:12]]}
    _CACHE[key] = out
    return out


def _dedupe(problems):
    seen = {}
    for p in problems:
        k = (p['action'], p['exc'])
        if k not in seen:
            seen[k] = dict(p, shapes=[p['shape']])
        elif p['shape'] not in seen[k]['shapes'] and \
                len(seen[k]['shapes']) < 5:
            seen[k]['shapes'].append(p['shape'])
    return list(seen.values())


NODE_ATTRS = {}


def _install_node_construction(sim):
    """Calling a node class constructs an ANode and interprets its
    __init__ (so constructor asserts are checked)."""
    def call_(self, args, kwargs, interp):
        ci = self.ci
        if ci.name in sim._nodecls:
            n = ANode(sim, ci.name)
            n.located = False
            init = sim.repo.find_method(ci, '__init__')
            if init is not None:
                clo = Closure(init.node, sim.module_env(init.module.name),
                              name=f'{ci.name}.__init__')
                clo.call_([n] + list(args), dict(kwargs), interp)
            # which attributes of this class hold nodes (for the
            # child_fields completeness rule)
            slot = NODE_ATTRS.setdefault(ci.name, {})
            for a, v in n.fields.items():
                if isinstance(v, ANode):
                    slot.setdefault(a, set()).add(v.cls)
                elif isinstance(v, (list, tuple)) or hasattr(v, 'items'):
                    items = getattr(v, 'items', v)
                    if callable(items):
                        continue
                    for x in items:
                        if isinstance(x, ANode):
                            slot.setdefault(a, set()).add(x.cls)
                        elif isinstance(x, (list, tuple)):
                            for y in x:
                                if isinstance(y, ANode):
                                    slot.setdefault(a, set()).add(y.cls)
            return n
        return AClass._orig_call(self, args, kwargs, interp)
    if not hasattr(AClass, '_orig_call'):
        AClass._orig_call = AClass.call_
        AClass.call_ = call_
        orig_getattr = AClass.getattr_

        def getattr_(self, a, interp):
            m = self.sim.repo.find_method(self.ci, a) \
                if hasattr(self.ci, 'methods') else None
            if m is not None:
                decs = [d[0] for d in decorators(m.node)]
                clo = Closure(m.node,
                              self.sim.module_env(m.module.name), name=a)
                if 'classmethod' in decs:
                    clo.bound = self
                return clo
            return orig_getattr(self, a, interp)
        AClass.getattr_ = getattr_


def check_parse_actions(ctx, pid):
    res = analyse(ctx.repo, ctx.tier)
    rule = f'{pid}.parse-action-shape'
    ctx.rule(rule, 'every parse action succeeds (or raises SyntaxError / '
             'IndexError, which become diagnostics) on every token-list '
             'shape its grammar rule can deliver; ValueError from tuple '
             'unpacking, AssertionError, TypeError and AttributeError '
             'escape parse_string')
    ctx.floor('rules with parse actions', res['rules'], 85)
    for r, n in sorted(res['shapes'].items()):
        ctx.instance(rule, f'qbee/grammar.py:rule:{r}', nontrivial=n > 0,
                     sample={'shapes': n})
    for p in res['problems']:
        ctx.finding(rule, f'{p["file"]}:{p["action"].split("#")[0]}:'
                    f'{p["exc"]}',
                    f'parse action {p["action"]} of rule {p["rule"]} raises '
                    f'{p["exc"]} ({p["msg"]}) on deliverable token shape(s) '
                    f'{p["shapes"][:3]}: the exception escapes parse_string '
                    f'instead of becoming a diagnostic', p['file'],
                    p['line'], facts={'shapes': p['shapes']})
    ctx.extra['grammar_shape_analysis'] = {
        'rules': res['rules'], 'n_unmodelled': res['n_unmodelled'],
        'unmodelled': [list(u) for u in res['unmodelled'][:30]],
        'dropped_shapes': res['dropped_shapes'],
        'bounds': {'max_shape_len': MAX_LEN, 'max_shapes_per_rule': MAX_SET,
                   'unbounded_repetition_unrolled': EXTRA_REP},
        'samples': res['samples']}
    if res['dropped_shapes']:
        ctx.observe(f'grammar shape analysis: {res["dropped_shapes"]} shape '
                    f'combinations beyond the per-rule bound of {MAX_SET} '
                    f'were not evaluated (one representative per structural '
                    f'skeleton is kept first); shapes are dropped, never '
                    f'merged, so every evaluated shape is deliverable')
    if res['n_unmodelled']:
        ctx.observe(f'grammar shape analysis: {res["n_unmodelled"]} '
                    f'unmodelled (rule, action) paths; undecided')


def check_child_fields(ctx, pid):
    """Every attribute in which a parse action stores a node (or a list of
    nodes) is listed in the class's child_fields: Node.children -- and with
    it the tree walk of the passes and the per-line position fix-up
    (update_node_loc) -- visits nothing else."""
    res = analyse(ctx.repo, ctx.tier)
    rule = f'{pid}.child-fields-list-every-node-attribute'
    ctx.rule(rule, 'for every node class, each attribute that a parse '
             'action fills with a node or a list of nodes (found by '
             'interpreting the parse actions and the class __init__ on the '
             'token shapes of the grammar) is named in child_fields, so the '
             'pass walk and the source-position fix-up reach it')
    ncls = {c.name: c for c in R.node_classes(ctx.repo)}
    n = 0
    for cname, attrs in sorted(res['node_attrs'].items()):
        ci = ncls.get(cname)
        if ci is None:
            continue
        cf = R.child_fields(ctx.repo, ci) or []
        n += 1
        ctx.instance(rule, f'{ci.file}:{cname}', nontrivial=bool(attrs),
                     sample={'child_fields': cf, 'node_attrs': sorted(attrs)})
        for a, classes in sorted(attrs.items()):
            if a not in cf:
                ctx.finding(rule, f'{ci.file}:{cname}.{a}',
                            f'{cname}.{a} receives {sorted(classes)[:4]} '
                            f'node(s) from its parse action but is not in '
                            f'child_fields {cf}: the passes never visit '
                            f'these nodes and their source positions are '
                            f'not adjusted to the line', ci.file, ci.line)
    ctx.floor('node classes constructed by parse actions', n, 60)
