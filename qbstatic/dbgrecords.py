"""Block start/end records synthesised by DebugInfo.finalize.

finalize() never computes with code offsets, it only *orders* them (sort,
<=, >=, `end - start > 0`).  Its outcome therefore depends only on the
relative order of the offsets involved, and the finitely many orderings that
matter can be enumerated: a block [s, e) whose children are sequential,
nested (an enclosing statement such as a single-line IF and the statements
inside it), share a start or an end, with code-less statements (CONST, DIM,
DATA, DECLARE have zero size) right before the block, inside it, or right
after it, and with the records listed in either order.

The method is interpreted by the abstract interpreter on record objects with
small integers standing for the order positions; the oracle is the meaning of
the two synthesised records, stated in the repository's own comments and in
C11: the block's start statement owns [s, first instruction of any child) and
its end statement owns [end of the last instruction of any child, e).
"""
import itertools

from .absint import (AbsObj, Unk, Interp, Closure, Env, PathEnd, Raised,
                     Unmodelled, explore)
from .model import AnalysisError


class Rec(AbsObj):
    def __init__(self, **kw):
        self.f = dict(kw)

    def getattr_(self, a, interp):
        if a in self.f:
            return self.f[a]
        raise Raised('AttributeError', f'record has no attribute {a}')

    def eq_(self, other):
        return other is self

    def __repr__(self):
        return f'[{self.f.get("start_offset")},{self.f.get("end_offset")})'


class Fn(AbsObj):
    is_callable = True

    def __init__(self, fn):
        self.fn = fn

    def call_(self, args, kwargs, interp):
        return self.fn(*args, **kwargs)


class Hooks:
    def __init__(self, made):
        self.made = made

    def global_name(self, modname, name, interp):
        if name == 'convert_index_to_line_col':
            return Fn(lambda *a: (0, 0))
        if name in ('logger', 'logging'):
            class Null(AbsObj):
                def getattr_(self, a, interp):
                    return Fn(lambda *a, **k: None)
            return Null()
        if name == 'DebugNodeRecord':
            def mk(**kw):
                r = Rec(**kw)
                self.made.append(r)
                return r
            return Fn(mk)
        raise KeyError(name)

    def on_unknown_call(self, f, args, kwargs, node, interp):
        raise Unmodelled('unknown call in finalize')


S, E = 10, 40

# (label, children as (start, end), expected first start, expected last end)
CONFIGS = [
    ('two sequential children', [(12, 18), (20, 30)], 12, 30),
    ('one child', [(14, 26)], 14, 26),
    ('a child that encloses a later-starting, earlier-ending one '
     '(single-line IF with a statement inside)', [(12, 30), (16, 24)], 12,
     30),
    ('enclosing child sharing its end with the inner one',
     [(12, 30), (20, 30)], 12, 30),
    ('enclosing child sharing its start with the inner one',
     [(12, 30), (12, 20)], 12, 30),
    ('enclosing last child after a plain one',
     [(12, 16), (18, 34), (22, 28)], 12, 34),
    ('code-less statement right before the block',
     [(S, S), (12, 18), (20, 30)], 12, 30),
    ('code-less statement right after the block',
     [(12, 18), (20, 30), (E, E)], 12, 30),
    ('code-less statement between two children',
     [(12, 18), (19, 19), (20, 30)], 12, 30),
    ('code-less statement after the last child, inside the block',
     [(12, 18), (20, 30), (34, 34)], 12, 30),
]


def analyse(repo):
    cls = repo.cls('qvm.debug_info', 'DebugInfo')
    fn = repo.find_method(cls, 'finalize') if cls else None
    if fn is None:
        raise AnalysisError('DebugInfo.finalize not found')
    out = []
    for label, kids, want_first, want_last in CONFIGS:
        orders = list(itertools.permutations(range(len(kids))))
        if len(orders) > 6:
            orders = orders[:3] + orders[-3:]
        for order in orders:
            made = []
            hooks = Hooks(made)
            block = Rec(start_stmt='START', end_stmt='END')

            def run(oracle, order=order, made=made, hooks=hooks,
                    block=block):
                del made[:]
                stmts = [Rec(start_offset=kids[i][0], end_offset=kids[i][1],
                             node=f'child{i}') for i in order]
                attrs = {'stmts': stmts, 'blocks': [(block, S, E)],
                         'empty_blocks': [], 'source_code': ''}

                class Self(AbsObj):
                    def getattr_(self, a, interp):
                        if a in attrs:
                            return attrs[a]
                        raise Unmodelled(f'self.{a}')

                    def setattr_(self, a, v, interp):
                        attrs[a] = v

                    def delattr_(self, a, interp):
                        attrs.pop(a, None)
                # node objects for start/end statements
                blk = Rec(start_stmt=Rec(loc_start=0, loc_end=0,
                                         role='start'),
                          end_stmt=Rec(loc_start=0, loc_end=0, role='end'))
                attrs['blocks'] = [(blk, S, E)]
                interp = Interp(hooks, oracle)
                clo = Closure(fn.node, Env(None, globals_='qvm.debug_info'),
                              name='finalize')
                try:
                    clo.call_([Self()], {}, interp)
                except Raised as r:
                    return ('raise', r.cls_name, str(r.value))
                except PathEnd as e:
                    return ('end', str(e))
                recs = {}
                for r in made:
                    role = r.f['node'].f.get('role')
                    recs.setdefault(role, []).append(
                        (r.f['start_offset'], r.f['end_offset']))
                return ('ok', recs)
            try:
                res = explore(run, 50)
            except Unmodelled as u:
                out.append({'config': label, 'order': order,
                            'unmodelled': str(u)})
                continue
            for choices, r in res:
                out.append({'config': label, 'order': order, 'result': r,
                            'want': {'start': [(S, want_first)],
                                     'end': [(want_last, E)]}})
    return out


def check(ctx, pid):
    res = analyse(ctx.repo)
    rule = f'{pid}.block-records-span-first-to-last-child-instruction'
    ctx.rule(rule, 'DebugInfo.finalize gives a block\'s start statement the '
             'range [block start, smallest start of a child with code) and '
             'its end statement [greatest end of a child with code, block '
             'end), for every relative order of the offsets involved '
             '(sequential and enclosing children, shared starts/ends, '
             'code-less statements before, inside and after the block, '
             'records listed in any order); finalize only orders offsets, so '
             'the enumeration of orderings decides it')
    f = ctx.repo.find_method(ctx.repo.cls('qvm.debug_info', 'DebugInfo'),
                             'finalize')
    n = 0
    bad = {}
    for r in res:
        n += 1
        key = f'{f.file}:DebugInfo.finalize:{r["config"]}'
        if 'unmodelled' in r:
            ctx.observe(f'{key}: not modelled ({r["unmodelled"]}); '
                        f'undecided')
            ctx.instance(rule, key, nontrivial=False)
            continue
        ctx.instance(rule, key)
        got = r['result']
        if got[0] != 'ok':
            bad.setdefault(r['config'], (r, f'finalize raises {got[1:]}'))
            continue
        recs = got[1]
        w = r['want']
        if sorted(recs.get('start', [])) != w['start'] or \
                sorted(recs.get('end', [])) != w['end']:
            bad.setdefault(r['config'], (r, (
                f'start statement gets {recs.get("start")}, end statement '
                f'gets {recs.get("end")}; the children\'s instructions span '
                f'[{w["start"][0][1]}, {w["end"][0][0]}) inside the block '
                f'[{S}, {E}), so the records should be {w["start"]} and '
                f'{w["end"]}')))
    for cfgname, (r, msg) in sorted(bad.items()):
        ctx.finding(rule, f'{f.file}:DebugInfo.finalize:{cfgname}',
                    f'block whose children are: {cfgname} -- {msg}: '
                    f'instructions between the wrong and the right boundary '
                    f'are attributed to the wrong statement (overlapping, '
                    f'non-nested ranges)', f.file, f.line)
    ctx.floor('offset orderings of finalize analysed', n, 20)
