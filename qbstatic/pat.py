"""AST patterns with metavariables, so that rules match resolved constructs
and not the names of local variables.

Pattern syntax is Python.  In a pattern:
  * a Name `_A`, `_B1`, ... (underscore + capital) is a metavariable: it
    matches any expression; repeated occurrences must match the same
    expression (compared structurally);
  * the Name `__` matches any expression without binding;
  * an expression statement `...` inside a body matches any (possibly
    empty) run of statements; `...` as a call argument matches any run of
    positional arguments;
  * everything else must match literally (attribute names, constants,
    operators, call shapes).
"""
import ast
import re

_META = re.compile(r'^_[A-Z][A-Za-z0-9]*$')


def _parse(src):
    tree = ast.parse(src)
    from .model import normalise_tree
    normalise_tree(tree, whole=True, temps=False)
    if len(tree.body) == 1 and isinstance(tree.body[0], ast.Expr) and \
            not (isinstance(tree.body[0].value, ast.Constant) and
                 tree.body[0].value.value is Ellipsis):
        return tree.body[0].value
    if len(tree.body) == 1:
        return tree.body[0]
    return tree.body


_cache = {}


def compile_pattern(src):
    if src not in _cache:
        _cache[src] = _parse(src)
    return _cache[src]


def _is_ellipsis_stmt(n):
    return isinstance(n, ast.Expr) and isinstance(n.value, ast.Constant) \
        and n.value.value is Ellipsis


def _is_ellipsis_expr(n):
    return isinstance(n, ast.Constant) and n.value is Ellipsis


def _dump(n):
    return ast.dump(n, annotate_fields=False, include_attributes=False)


def _match(p, n, b):
    if isinstance(p, ast.Name):
        if p.id == '__':
            return isinstance(n, ast.AST)
        if _META.match(p.id):
            if not isinstance(n, ast.expr):
                return False
            key = p.id
            d = _strip_ctx(n)
            if key in b:
                return b[key][0] == d
            b[key] = (d, n)
            return True
    if isinstance(p, ast.arg) and isinstance(n, ast.arg) and \
            _META.match(p.arg):
        d = _strip_ctx(ast.Name(id=n.arg, ctx=ast.Load()))
        if p.arg in b:
            return b[p.arg][0] == d
        b[p.arg] = (d, ast.Name(id=n.arg, ctx=ast.Load()))
        return True
    if isinstance(p, list):
        return _match_list(p, n, b)
    if not isinstance(p, ast.AST):
        return p == n
    if type(p) is not type(n):
        return False
    if isinstance(p, ast.Compare) and len(p.ops) == 1 and \
            len(n.ops) == 1 and isinstance(p.ops[0], (ast.Eq, ast.NotEq)) \
            and type(p.ops[0]) is type(n.ops[0]):
        # == and != are symmetric: try both orientations
        for nl, nr in ((n.left, n.comparators[0]),
                       (n.comparators[0], n.left)):
            b2 = dict(b)
            if _match(p.left, nl, b2) and \
                    _match(p.comparators[0], nr, b2):
                b.clear()
                b.update(b2)
                return True
        return False
    wild_call = isinstance(p, ast.Call) and any(
        _is_ellipsis_expr(a) for a in p.args)
    for fld in p._fields:
        if fld in ('ctx', 'type_comment', 'kind'):
            continue
        if wild_call and fld == 'keywords':
            # keywords of the pattern must occur among the actual ones
            for pk in p.keywords:
                found = False
                for nk in n.keywords:
                    b2 = dict(b)
                    if pk.arg == nk.arg and _match(pk.value, nk.value, b2):
                        b.clear()
                        b.update(b2)
                        found = True
                        break
                if not found:
                    return False
            continue
        if fld in ('orelse', 'finalbody') and not getattr(p, fld):
            continue      # unspecified in the pattern
        pv = getattr(p, fld, None)
        nv = getattr(n, fld, None)
        if isinstance(pv, list):
            if not isinstance(nv, list) or not _match_list(pv, nv, b):
                return False
        elif isinstance(pv, ast.AST):
            if not isinstance(nv, ast.AST) or not _match(pv, nv, b):
                return False
        else:
            if pv != nv:
                return False
    return True


def _strip_ctx(n):
    return re.sub(r'(Load|Store|Del)\(\)', 'Ctx()', _dump(n))


def _match_list(ps, ns, b):
    if not isinstance(ns, list):
        return False
    # wildcard runs
    if any(_is_ellipsis_stmt(p) or _is_ellipsis_expr(p) for p in ps):
        return _match_list_wild(ps, ns, b)
    if len(ps) != len(ns):
        return False
    for p, n in zip(ps, ns):
        if not _match(p, n, b):
            return False
    return True


def _match_list_wild(ps, ns, b):
    if not ps:
        return not ns
    head = ps[0]
    if _is_ellipsis_stmt(head) or _is_ellipsis_expr(head):
        for k in range(len(ns) + 1):
            b2 = dict(b)
            if _match_list_wild(ps[1:], ns[k:], b2):
                b.clear()
                b.update(b2)
                return True
        return False
    if not ns:
        return False
    b2 = dict(b)
    if _match(head, ns[0], b2) and _match_list_wild(ps[1:], ns[1:], b2):
        b.clear()
        b.update(b2)
        return True
    return False


def match(pattern, node, bindings=None):
    """Bindings dict {metavar: ast} if pattern matches node, else None."""
    p = compile_pattern(pattern) if isinstance(pattern, str) else pattern
    b = dict(bindings or {})
    b = {k: (v if isinstance(v, tuple) else (_strip_ctx(v), v))
         for k, v in b.items()}
    if _match(p, node, b):
        return {k: v[1] for k, v in b.items()}
    return None


def find_all(pattern, root, bindings=None):
    """[(node, bindings)] for every sub-node of root matching pattern.  A
    multi-statement pattern matches a run of consecutive statements in any
    body list."""
    p = compile_pattern(pattern) if isinstance(pattern, str) else pattern
    out = []
    if isinstance(p, list):
        for n in ast.walk(root):
            for fld in ('body', 'orelse', 'finalbody'):
                body = getattr(n, fld, None)
                if not isinstance(body, list):
                    continue
                for i in range(len(body)):
                    for j in range(i, len(body) + 1):
                        m = match(p, body[i:j], bindings)
                        if m is not None:
                            out.append((body[i], m))
                            break
        return out
    for n in ast.walk(root):
        if type(n) is type(p) or isinstance(p, ast.Name):
            m = match(p, n, bindings)
            if m is not None:
                out.append((n, m))
    return out


def has(pattern, root, bindings=None):
    return bool(find_all(pattern, root, bindings))


def first(pattern, root, bindings=None):
    r = find_all(pattern, root, bindings)
    return r[0] if r else (None, None)
