"""Emission interpreter: runs the code generators of qbee/qvm_codegen.py on
abstract AST nodes (all admissible child-type assignments, optional fields
present/absent, list lengths 0..2, debug flag on/off, local/global base
variables) and checks the emitted instruction sequences against the VM
handlers with vmsim.

Assume/guarantee hypotheses (H): an Expr child leaves exactly one value of
its static type; a Stmt child has net stack effect 0.  Each generator is
shown to re-establish H for its own node class.
"""
import ast
import itertools

from . import registries as R
from . import vmsim
from .absint import (AbsObj, Unk, UNK, is_unk, Interp, Env, Closure, Oracle,
                     explore, PathEnd, Raised, Unmodelled, Sentinel)
from .astutil import dotted, const, unparse
from .model import AnalysisError

BUILTIN_TYPES = ('INTEGER', 'LONG', 'SINGLE', 'DOUBLE', 'STRING')
NUM = ('INTEGER', 'LONG', 'SINGLE', 'DOUBLE')
TYPE_CHAR = {'INTEGER': '%', 'LONG': '&', 'SINGLE': '!', 'DOUBLE': '#',
             'STRING': '$'}
CHAR_TYPE = {v: k for k, v in TYPE_CHAR.items()}
TYPE_ID = {'INTEGER': 1, 'LONG': 2, 'SINGLE': 3, 'DOUBLE': 4, 'STRING': 5}


# ---------------------------------------------------------------------------
# modelled values

class AType(AbsObj):
    """qbee.expr.Type (summary of the frozen dataclass and its
    properties)."""
    identity_by_eq = True

    def __init__(self, name, is_array=False, user=None, static=True,
                 dims=None, nodim=False):
        self.name = name          # INTEGER.. / USER / UNKNOWN
        self.is_array = is_array
        self.user = user
        self.static = static
        self.dims = dims or []
        self.nodim = nodim

    SOURCE_FIRST = ('type_char', 'is_numeric', 'is_builtin',
                    'is_user_defined', 'is_integral', 'is_float',
                    'is_static_array', 'is_dynamic_array')
    _MEMO = {}

    def getattr_(self, a, interp):
        if a in AType.SOURCE_FIRST and AType.SIM is not None:
            # decided by the current source of qbee.expr.Type, so that a
            # change to these properties reaches the emission analysis; the
            # summary below is only the fallback
            key = (id(AType.SIM), a, self.name, self.is_array, self.user,
                   self.static, self.nodim)
            if key not in AType._MEMO:
                try:
                    v = self.from_source(a, interp)
                    if is_unk(v):
                        v = ('summary',)
                    else:
                        v = ('v', v)
                except Raised as r:
                    v = ('raise', r)
                except Unmodelled:
                    v = ('summary',)
                AType._MEMO[key] = v
            v = AType._MEMO[key]
            if v[0] == 'v':
                return v[1]
            if v[0] == 'raise':
                raise Raised(v[1].cls_name, v[1].value, v[1].node)
        return self.summary_(a, interp)

    def summary_(self, a, interp):
        n = self.name
        if a == 'type_char':
            if n in TYPE_CHAR:
                return TYPE_CHAR[n]
            raise Raised('ValueError', f'Cannot get type_char of {n}')
        if a == 'is_numeric':
            return (not self.is_array) and n in NUM
        if a == 'is_builtin':
            return n in BUILTIN_TYPES
        if a == 'is_user_defined':
            return n == 'USER'
        if a == 'is_array':
            return self.is_array
        if a == 'is_integral':
            return n in ('INTEGER', 'LONG')
        if a == 'is_float':
            return n in ('SINGLE', 'DOUBLE')
        if a == 'is_static_array':
            return self.is_array and self.static and not self.nodim
        if a == 'is_dynamic_array':
            return self.is_array and not (self.static and not self.nodim)
        if a == 'is_nodim_array':
            return self.nodim
        if a == 'array_dims':
            return self.dims
        if a == 'type_id':
            return TYPE_ID.get(n, 100)
        if a == 'name':
            nm = n.lower() if n in BUILTIN_TYPES else (self.user or 'rec')
            return nm + ('()' if self.is_array else '')
        if a == 'user_type_name':
            return self.user
        if a == 'array_base_type':
            return AType(n, False, self.user)
        if a == 'py_type':
            return vmsim.PyTypeV({'INTEGER': 'int', 'LONG': 'int',
                                  'SINGLE': 'float', 'DOUBLE': 'float',
                                  'STRING': 'str'}.get(n))
        if a == 'is_coercible_to':
            return vmsim.FnV(lambda ar, k: self._coercible(ar[0]))
        if a == '_type':
            if AType.SIM is not None:
                return AType.SIM.enum('qbee.expr', 'BuiltinType').member(
                    {'USER': 'USER_DEFINED'}.get(n, n))
            return n
        if a == 'default_value':
            return '' if n == 'STRING' else 0
        if a == 'can_hold':
            return vmsim.FnV(lambda ar, k: Unk('can_hold'))
        if a == 'coerce':
            return vmsim.FnV(lambda ar, k: ar[0])
        return self.from_source(a, interp)

    SIM = None

    def from_source(self, a, interp):
        """An attribute the summary does not list: interpret the property
        or method of qbee.expr.Type itself on this abstract type."""
        sim = AType.SIM
        if sim is None:
            return Unk(f'Type.{a}')
        ci = sim.repo.cls('qbee.expr', 'Type')
        m = sim.repo.find_method(ci, a) if ci is not None else None
        if m is None:
            return Unk(f'Type.{a}')
        from .astutil import decorators
        decs = [d[0] for d in decorators(m.node)]
        clo = Closure(m.node, sim.module_env('qbee.expr'), name=f'Type.{a}')
        if 'property' in decs:
            return clo.call_([self], {}, interp)
        clo.bound = self
        return clo

    def _coercible(self, other):
        if not isinstance(other, AType):
            return Unk('coercible')
        if self.eq_(other) is True:
            return True
        return (not self.is_array and self.name in NUM and
                not other.is_array and other.name in NUM)

    _EQ_MEMO = {}

    def _key(self):
        return (self.name, self.is_array, self.user, self.static,
                self.nodim)

    def eq_(self, other):
        if isinstance(other, AType) and AType.SIM is not None:
            # decided by the current source of Type.__eq__ (memoised); the
            # summary below is only the fallback
            k = (id(AType.SIM), self._key(), other._key())
            if k not in AType._EQ_MEMO:
                v = None
                try:
                    from .absint import Interp
                    it = Interp(AType.SIM)
                    f = self.from_source('__eq__', it)
                    r = it.call(f, [other], {})
                    if r is True or r is False:
                        v = r
                except Exception:
                    v = None
                AType._EQ_MEMO[k] = v
            if AType._EQ_MEMO[k] is not None:
                return AType._EQ_MEMO[k]
        if isinstance(other, AType):
            if self.name == 'UNKNOWN' or other.name == 'UNKNOWN':
                return False
            return (self.name == other.name and self.user == other.user and
                    self.is_array == other.is_array)
        if is_unk(other):
            return Unk('type-eq')
        return False

    def __repr__(self):
        return self.name + ('()' if self.is_array else '')


class TypeNS(AbsObj):
    def instancecheck_(self, x):
        if is_unk(x):
            return Unk('isinstance')
        return isinstance(x, AType)

    def getattr_(self, a, interp):
        if a in BUILTIN_TYPES or a == 'UNKNOWN':
            return AType(a)
        if a == 'builtin_types':
            return [AType(t) for t in BUILTIN_TYPES]
        if a == 'from_type_char':
            return vmsim.FnV(lambda ar, k: AType(CHAR_TYPE[ar[0]])
                             if not is_unk(ar[0]) and ar[0] in CHAR_TYPE
                             else Unk('type'))
        if a == 'is_type_char':
            return vmsim.FnV(lambda ar, k: ar[0] in '%&!#$')
        if a == 'type_chars':
            return '%&!#$'
        if a == 'name_ends_with_type_char':
            return vmsim.FnV(lambda ar, k: is_unk(ar[0]) and Unk('x') or
                             ar[0][-1:] in '%&!#$')
        return Unk(f'Type.{a}')

    def instancecheck_(self, x):
        return isinstance(x, AType)


class EnumMember(AbsObj):
    """A member of a repository Enum whose properties are interpreted from
    the Enum's source (Operator.is_comparison ...)."""
    identity_by_eq = True

    def __init__(self, ns, name):
        self.ns = ns
        self.name = name

    def getattr_(self, a, interp):
        if a == 'name':
            return self.name
        if a == 'value':
            return self.ns.members.get(self.name, Unk('value'))
        m = self.ns.ci.methods.get(a)
        if m is not None and interp is not None:
            clo = Closure(m.node, self.ns.env, name=a, bound=self)
            return clo.call_([], {}, interp)
        return Unk(f'{self.ns.ci.name}.{self.name}.{a}')

    def eq_(self, other):
        if isinstance(other, EnumMember):
            return self.ns is other.ns and self.name == other.name
        return False

    def __hash__(self):
        return hash((id(self.ns), self.name))

    def __eq__(self, other):
        return isinstance(other, EnumMember) and self.ns is other.ns and \
            self.name == other.name

    def __repr__(self):
        return f'{self.ns.ci.name}.{self.name}'


class EnumClass(AbsObj):
    def __init__(self, ci, env):
        self.ci = ci
        self.env = env
        from .model import enum_members
        self.members = enum_members(ci)
        self._cache = {}

    def member(self, name):
        if name not in self._cache:
            self._cache[name] = EnumMember(self, name)
        return self._cache[name]

    def getattr_(self, a, interp):
        if a in self.members:
            return self.member(a)
        m = self.ci.methods.get(a)
        if m is not None:
            return Closure(m.node, self.env, name=a)
        return Unk(f'{self.ci.name}.{a}')

    def instancecheck_(self, x):
        return isinstance(x, EnumMember) and x.ns is self


class AClass(AbsObj):
    """A repository class used only for isinstance / construction."""

    def __init__(self, sim, ci):
        self.sim = sim
        self.ci = ci

    def instancecheck_(self, x):
        if isinstance(x, ANode):
            return self.sim.is_subclass(x.cls, self.ci.name)
        if isinstance(x, DataObj):
            return self.ci.name in x.mro
        if is_unk(x):
            return Unk('isinstance')
        return False

    def call_(self, args, kwargs, interp):
        # dataclass-like construction (BlockContext, SelectBlockContext)
        return DataObj(self.sim, self.ci, args, kwargs)

    def getattr_(self, a, interp):
        if a == '__name__':
            return self.ci.name
        m = self.sim.repo.find_method(self.ci, a)
        if m is not None:
            return Closure(m.node, self.sim.module_env(self.ci.module.name),
                           name=a)
        return Unk(f'{self.ci.name}.{a}')

    def eq_(self, other):
        return isinstance(other, AClass) and other.ci == self.ci


class DataObj(AbsObj):
    def __init__(self, sim, ci, args, kwargs):
        self.mro = [c.name for c in sim.repo.mro(ci)]
        fields = []
        for c in reversed(sim.repo.mro(ci)):
            for st in c.node.body:
                if isinstance(st, ast.AnnAssign) and \
                        isinstance(st.target, ast.Name):
                    fields.append(st.target.id)
        self.f = {}
        for name, v in zip(fields, args):
            self.f[name] = v
        self.f.update(kwargs)

    def getattr_(self, a, interp):
        if a in self.f:
            return self.f[a]
        raise Raised('AttributeError', f'no attribute {a}')

    def setattr_(self, a, v, interp):
        self.f[a] = v


class AVar(AbsObj):
    def __init__(self, name, type_, is_global, scope='local'):
        self.name = name
        self.type = type_
        self.is_global = is_global
        self.scope = scope

    def getattr_(self, a, interp):
        if a == 'name':
            return self.name
        if a == 'full_name':
            return self.name
        if a == 'type':
            return self.type
        if a == 'is_global':
            return self.is_global
        if a == 'is_local':
            return not self.is_global
        if a == 'scope':
            return self.scope
        return Unk(f'var.{a}')


class ARoutine(AbsObj):
    def __init__(self, name, kind, params, return_type=None,
                 is_global=False, var_types=None):
        self.name = name
        self.kind = kind
        self.params = dict(params)
        self.local_vars = {}
        self.static_vars = {}
        self.return_type = return_type
        self.is_global_default = is_global
        self.var_types = var_types or {}

    def getattr_(self, a, interp):
        if a in ('name', 'kind', 'params', 'local_vars', 'static_vars',
                 'return_type'):
            return getattr(self, a)
        if a == 'get_variable':
            return vmsim.FnV(lambda ar, k: AVar(
                ar[0], self.var_types.get(ar[0], AType('SINGLE')),
                self.is_global_default))
        if a == 'labels':
            return Unk('labels')
        if a == 'local_consts':
            return {}
        if a == 'is_static':
            return False
        if a == 'context':
            return Unk('context')
        return Unk(f'routine.{a}')


class ANode(AbsObj):
    """An abstract AST node."""

    def __init__(self, sim, cls, located=True, **fields):
        self.sim = sim
        self.cls = cls
        self.fields = fields
        self.located = located
        self.parent = fields.pop('parent', None)
        self.uid = next(sim.uid)

    def getattr_(self, a, interp):
        f = self.fields
        if a in f:
            return f[a]
        if a == 'loc_start':
            return 0 if self.located else None
        if a == 'loc_end':
            return 1 if self.located else None
        if a == 'parent':
            return self.parent if self.parent is not None else Unk('parent')
        if a == 'parent_routine':
            return self.sim.cur_routine
        if a == 'children':
            out = []
            cf = self.sim.child_fields(self.cls) or []
            for name in cf:
                v = f.get(name)
                if isinstance(v, list):
                    out += [x for x in v if isinstance(x, ANode)]
                elif isinstance(v, ANode):
                    out.append(v)
            return out
        ci = self.sim.node_class(self.cls)
        if ci is not None:
            m = self.sim.repo.find_method(ci, a)
            if m is not None and interp is not None:
                from .astutil import decorators
                decs = [d[0] for d in decorators(m.node)]
                clo = Closure(m.node, self.sim.module_env(m.module.name),
                              name=f'{self.cls}.{a}', bound=self)
                if 'staticmethod' in decs:
                    clo.bound = None
                elif 'classmethod' in decs:
                    clo.bound = self.sim.aclass(self.cls)
                if 'property' in decs:
                    return clo.call_([], {}, interp)
                return clo
            for c in self.sim.repo.mro(ci):
                if a in c.class_attrs:
                    v = c.class_attrs[a]
                    if isinstance(v, ast.Constant):
                        return v.value
        return Unk(f'{self.cls}.{a}')

    def setattr_(self, a, v, interp):
        self.fields[a] = v

    def hasattr_(self, a):
        return a in self.fields or a in ('loc_start', 'loc_end')

    def eq_(self, other):
        return other is self

    def type_(self):
        return self.sim.aclass(self.cls)

    def __repr__(self):
        return f'<{self.cls}#{self.uid}>'


class ACode(AbsObj):
    def __init__(self, sim):
        self.sim = sim
        self.instrs = []
        self.attrs = {}
        self.literals = []
        self.routines = []

    def getattr_(self, a, interp):
        if a == 'add':
            def add(args, k):
                for t in args:
                    if not isinstance(t, tuple):
                        raise Raised('InternalError',
                                     'Instruction not a tuple')
                    self.instrs.append(t)
            return vmsim.FnV(add)
        if a == 'add_string_literal':
            return vmsim.FnV(lambda ar, k: self.literals.append(ar[0]))
        if a == 'add_routine':
            return vmsim.FnV(lambda ar, k: self.routines.append(ar[0]))
        if a == 'get_data_label_index':
            return vmsim.FnV(lambda ar, k: Unk('data label index'))
        if a in self.attrs:
            return self.attrs[a]
        return Unk(f'code.{a}')

    def setattr_(self, a, v, interp):
        self.attrs[a] = v


class ACompilation(AbsObj):
    def __init__(self, sim):
        self.sim = sim
        self.routines = {}

    def getattr_(self, a, interp):
        if a == 'routines':
            return self.routines
        if a == 'main_routine':
            return self.routines.get('_main') or self.sim.cur_routine
        if a == 'get_routine':
            return vmsim.FnV(lambda ar, k: self.routines.get(ar[0]))
        if a == 'user_types':
            return {}
        return Unk(f'compilation.{a}')


class ACodegen(AbsObj):
    def __init__(self, sim, debug):
        self.sim = sim
        self.debug = debug
        self.attrs = {'cur_blocks': [], 'last_label': None,
                      'dbg_info_stack': []}
        self.label_counter = 1

    def getattr_(self, a, interp):
        if a == 'debug_info_enabled':
            return self.debug
        if a == 'compilation':
            return self.sim.compilation
        if a == 'gen_code_for_node':
            # the real BaseCodeGen.gen_code_for_node brackets the generator
            # with debug markers; children are summarised by H
            def gen(ar, k):
                node, code = ar[0], ar[1]
                if node is None:
                    raise Raised('InternalError',
                                 'Cannot generate code for node: None')
                if not isinstance(node, ANode):
                    raise Raised('InternalError',
                                 f'Cannot generate code for node: {node!r}')
                m = self.sim.repo.find_method(
                    self.sim.repo.cls('qbee.codegen', 'BaseCodeGen'),
                    'gen_code_for_node')
                clo = Closure(m.node, self.sim.module_env('qbee.codegen'),
                              name='gen_code_for_node', bound=self)
                return clo.call_([node, code], {}, interp)
            return vmsim.FnV(gen)
        if a in ('start_dbg_info', 'end_dbg_info'):
            m = self.sim.repo.find_method(
                self.sim.repo.cls('qbee.codegen', 'BaseCodeGen'), a)
            return Closure(m.node, self.sim.module_env('qbee.codegen'),
                           name=a, bound=self)
        if a == 'generator_funcs':
            return GenTable(self.sim)
        if a == 'get_label':
            def get_label(ar, k):
                lab = f'_{ar[0]}_{self.label_counter}'
                self.label_counter += 1
                return lab
            return vmsim.FnV(get_label)
        if a in self.attrs:
            return self.attrs[a]
        return Unk(f'codegen.{a}')

    def setattr_(self, a, v, interp):
        self.attrs[a] = v


class GenTable(AbsObj):
    """codegen.generator_funcs: children are not expanded -- the summary
    generator emits one pseudo-instruction carrying the child node."""

    def __init__(self, sim):
        self.sim = sim

    def getattr_(self, a, interp):
        if a == 'get':
            def get(ar, k):
                cls = ar[0]
                name = cls.ci.name if isinstance(cls, AClass) else None
                if name is None or (name not in self.sim.gens and
                                    not name.startswith('$')):
                    return None

                def summary(args, kw):
                    node, code = args[0], args[1]
                    code.instrs.append(('$gen', node))
                return vmsim.FnV(summary)
            return vmsim.FnV(get)
        return Unk('generator_funcs.' + a)


class PseudoClass(AClass):
    """Class object of the generic child kinds ($Expr, $Stmt)."""

    def __init__(self, sim, name, base):
        self.sim = sim
        self.name = name
        self.base = base

        class _CI:
            pass
        self.ci = _CI()
        self.ci.name = name

    def instancecheck_(self, x):
        return isinstance(x, ANode) and x.cls == self.name


# ---------------------------------------------------------------------------

class GenSim:
    def __init__(self, repo):
        self.repo = repo
        self.vm = vmsim.VmSim(repo)
        vmsim.check_primitives(repo)
        vmsim.install_primitives(self.vm)
        self.gens, _ = R.generators(repo)
        self.uid = itertools.count(1)
        self._envs = {}
        self._nodecls = {c.name: c for c in R.node_classes(repo)}
        self._aclass = {}
        self._enums = {}
        self.compilation = ACompilation(self)
        self.cur_routine = ARoutine('_main', 'toplevel', {})
        self.notes = []
        AType.SIM = self

    # ---- class model ----------------------------------------------------
    def node_class(self, name):
        return self._nodecls.get(name)

    def child_fields(self, name):
        ci = self._nodecls.get(name)
        return R.child_fields(self.repo, ci) if ci else None

    def is_subclass(self, cls, base):
        if cls == base:
            return True
        if cls.startswith('$'):
            kind = {'$Expr': 'Expr', '$Stmt': 'Stmt'}[cls]
            return base in ('Node', kind)
        ci = self._nodecls.get(cls)
        if ci is None:
            return False
        return base in [c.name for c in self.repo.mro(ci)] or base == 'Node'

    def aclass(self, name):
        if name not in self._aclass:
            if name.startswith('$'):
                self._aclass[name] = PseudoClass(self, name, None)
            else:
                ci = self._nodecls.get(name)
                if ci is None:
                    for m in self.repo.modules.values():
                        if name in m.classes:
                            ci = m.classes[name]
                self._aclass[name] = AClass(self, ci)
        return self._aclass[name]

    # ---- names ----------------------------------------------------------
    def module_env(self, modname):
        if modname not in self._envs:
            self._envs[modname] = Env(None, globals_=modname)
        return self._envs[modname]

    def enum(self, modname, clsname):
        key = (modname, clsname)
        if key not in self._enums:
            self._enums[key] = EnumClass(self.repo.cls(modname, clsname),
                                         self.module_env(modname))
        return self._enums[key]

    def global_name(self, modname, name, interp):
        if name == 'numbers':
            class _Number(AbsObj):
                def instancecheck_(self, x):
                    if is_unk(x):
                        return Unk('isinstance')
                    return isinstance(x, (int, float)) and \
                        not isinstance(x, bool)

            class _Numbers(AbsObj):
                def getattr_(self, a, interp):
                    if a in ('Number', 'Real'):
                        return _Number()
                    return Unk(f'numbers.{a}')
            return _Numbers()
        if name == 'Type':
            return TypeNS()
        if name in ('expr', 'stmt'):
            return ModNS(self, f'qbee.{name}')
        if name == 'Operator':
            return self.enum('qbee.expr', 'Operator')
        if name in ('EC', 'ErrorCode'):
            return vmsim.EnumNS(lambda a: f'ErrorCode.{a}')
        if name in ('InternalError', 'CompileError', 'SyntaxError',
                    'EvalError', 'NameError'):
            return name
        if name == 'copy':
            return vmsim.FnV(lambda a, k: list(a[0]))
        if name in ('get_type_size', 'get_dotted_index',
                    'get_local_vars_size', 'get_local_var_idx',
                    'get_global_var_idx'):
            if name == 'get_dotted_index':
                return vmsim.FnV(lambda a, k: self.dotted_index(a))
            return vmsim.FnV(lambda a, k: Unk(name))
        if name == 'get_params_size':
            return vmsim.FnV(lambda a, k: len(a[0].params)
                             if isinstance(a[0], ARoutine) else Unk(name))
        if name in ('logger', 'logging'):
            return vmsim.NullObj(None)
        if name == 'Empty':
            return vmsim.EnumNS(lambda a: Sentinel())
        m = self.repo.modules.get(modname)
        if m is not None:
            f = m.functions.get(name)
            if f is not None and f.cls is None and f.parent is None:
                return Closure(f.node, self.module_env(modname), name=name)
            if name in m.classes:
                ci = m.classes[name]
                if 'Enum' in self.repo.base_names(ci):
                    return self.enum(modname, name)
                return self.aclass(name)
            r = self.repo.resolve_name(m, name)
            if r:
                if r[0] == 'class':
                    if 'Enum' in self.repo.base_names(r[1]):
                        return self.enum(r[1].module.name, r[1].name)
                    return self.aclass(r[1].name)
                if r[0] == 'func':
                    return Closure(r[1].node,
                                   self.module_env(r[1].module.name),
                                   name=name)
                if r[0] == 'module':
                    return ModNS(self, r[1].name)
        raise KeyError(name)

    def dotted_index(self, args):
        dv = args[1] if len(args) > 1 else []
        if isinstance(dv, list) and not dv:
            return 0
        return self.cfg.get('dotted_idx', 3)

    def on_unknown_call(self, f, args, kwargs, node, interp):
        return Unk('call')

    # ---- node builders --------------------------------------------------
    def expr(self, tname, cls='$Expr', **kw):
        t = tname if isinstance(tname, AType) else AType(tname)
        return ANode(self, cls, type=t, **kw)

    def stmt(self, cls='$Stmt', **kw):
        return ANode(self, cls, **kw)

    def lvalue(self, tname, indices=(), dotted=(), base_is_ref=False,
               is_global=False, base_array=False, is_const=False,
               implicit_decl=None, name='v'):
        t = AType(tname)
        base_t = AType(tname, is_array=base_array) if base_array or \
            not dotted else AType('USER', user='rec')
        if base_array and dotted:
            base_t = AType('USER', is_array=True, user='rec')
        var = AVar(name, base_t, is_global)
        n = ANode(self, 'Lvalue', type=t, base_var=name,
                  array_indices=list(indices), dotted_vars=list(dotted),
                  implicit_decl=implicit_decl, base_is_ref=base_is_ref,
                  base_type=base_t, is_const=is_const)
        n.fields['get_base_variable'] = vmsim.FnV(lambda a, k: var)
        n.fields['eval'] = vmsim.FnV(lambda a, k: Unk('const value'))
        return n

    # ---- running a generator --------------------------------------------
    def run_generator(self, cls, node, debug=False, cfg=None,
                      routine=None, blocks=None, max_paths=300):
        """Returns [(choices, outcome)] where outcome is
        ('ok', instrs) | ('raise', cls, msg, line) | ('unmodelled', why)."""
        g = self.gens.get(cls)
        if g is None:
            return [((), ('raise', 'InternalError',
                          f'no generator for {cls}', None))]
        self.cfg = cfg or {}
        saved_routine = self.cur_routine
        if routine is not None:
            self.cur_routine = routine

        def run(oracle):
            code = ACode(self)
            cg = ACodegen(self, debug)
            if blocks:
                cg.attrs['cur_blocks'] = list(blocks)
            interp = Interp(self, oracle)
            clo = Closure(g.node, self.module_env('qbee.qvm_codegen'),
                          name=g.qualname)
            try:
                clo.call_([node, code, cg], {}, interp)
                return ('ok', code.instrs, code, cg)
            except Raised as r:
                return ('raise', r.cls_name, str(r.value)[:120],
                        getattr(r.node, 'lineno', None))
            except PathEnd as e:
                return ('raise', 'PathEnd', e.kind, None)
            except Unmodelled as u:
                return ('unmodelled', str(u))
            except (RecursionError, TypeError, AttributeError, KeyError,
                    IndexError, ValueError) as ex:
                return ('unmodelled', f'interpreter: {ex!r}')
        try:
            res = explore(run, max_paths)
        except Unmodelled as u:
            res = [((), ('unmodelled', str(u)))]
        finally:
            self.cur_routine = saved_routine
        return res

    def run_pass_handlers(self, cls, node, routine=None):
        """Is the abstract node admissible?  Runs every process_<name>_pre
        handler of the three passes; the node is inadmissible if every
        path of some handler raises CompileError."""
        ci = self._nodecls.get(cls)
        if ci is None:
            return True, None
        nn = R.node_name(self.repo, ci)
        if not nn:
            return True, None
        hname = R.handler_name(nn)
        saved = self.cur_routine
        if routine is not None:
            self.cur_routine = routine
        try:
            for pcls, h, which, f in R.pass_handlers(self.repo):
                if h != hname or which != 'pre':
                    continue

                def run(oracle, f=f):
                    interp = Interp(self, oracle)
                    clo = Closure(f.node,
                                  self.module_env('qbee.compiler'),
                                  name=f.qualname)
                    try:
                        clo.call_([PassSelf(self), node], {}, interp)
                        return 'ok'
                    except Raised as r:
                        return ('raise', r.cls_name)
                    except (PathEnd, Unmodelled, RecursionError, TypeError,
                            AttributeError, KeyError, IndexError,
                            ValueError) as e:
                        return 'ok'
                try:
                    res = explore(run, 200)
                except Unmodelled:
                    continue
                if all(isinstance(r, tuple) and r[1] == 'CompileError'
                       for _, r in res):
                    return False, f.qualname
        finally:
            self.cur_routine = saved
        return True, None


class ModNS(AbsObj):
    def __init__(self, sim, modname):
        self.sim = sim
        self.modname = modname

    def getattr_(self, a, interp):
        try:
            return self.sim.global_name(self.modname, a, interp)
        except KeyError:
            return Unk(f'{self.modname}.{a}')


class PassSelf(AbsObj):
    def __init__(self, sim):
        self.sim = sim

    def getattr_(self, a, interp):
        if a == 'compilation':
            return PassCompilation(self.sim)
        if a == '_cur_blocks' and getattr(self.sim, 'pass_blocks',
                                          None) is not None:
            # the open DO/FOR blocks around the node (Pass1 keeps
            # BlockContext(kind) objects)
            return list(self.sim.pass_blocks)
        ci = self.sim.repo.cls('qbee.compiler', 'Pass2')
        m = self.sim.repo.find_method(ci, a)
        if m is not None:
            return Closure(m.node, self.sim.module_env('qbee.compiler'),
                           name=a, bound=self)
        return Unk(f'pass.{a}')

    def setattr_(self, a, v, interp):
        pass


class PassCompilation(AbsObj):
    def __init__(self, sim):
        self.sim = sim

    def getattr_(self, a, interp):
        if a in ('all_labels', 'global_consts', 'user_types',
                 'def_letter_types', 'global_vars', 'data'):
            return Unk(a)
        if a == 'routines':
            return self.sim.compilation.routines
        if a == 'main_routine':
            return self.sim.cur_routine
        if a == 'perform_argument_matching':
            ci = self.sim.repo.cls('qbee.compiler', 'CompilationUnit')
            m = ci.methods[a]
            return Closure(m.node, self.sim.module_env('qbee.compiler'),
                           name=a, bound=self)
        if a == 'validate_decl':
            return vmsim.FnV(lambda ar, k: None)
        if a == 'get_routine':
            return vmsim.FnV(lambda ar, k: self.sim.compilation.routines.get(
                ar[0]))
        return Unk(f'compilation.{a}')


# ---------------------------------------------------------------------------
# entry points used by the property checks

def check_stack_discipline(ctx, pid):
    from . import gendrive
    gendrive.report(
        ctx, pid,
        kinds={'consumer-type', 'unknown-op', 'stack-underflow',
               'net-effect', 'inconsistent-stack', 'arg-type',
               'ambiguous-effect', 'handler-host-exception'},
        rule_suffix='emission',
        rule_text='each generator, run on abstract nodes of every '
                  'admissible type assignment / optional-field choice / '
                  'list length / debug flag, emits sequences that never '
                  'type-trap or underflow on the VM handlers and have the '
                  'net stack effect the induction hypothesis requires')


def check_generator_totality(ctx, pid):
    from . import gendrive
    gendrive.report(
        ctx, pid, kinds={'generator-raises'}, rule_suffix='generator-total',
        rule_text='no code generator raises for a node the passes admit '
                  '(abstract run over all scenarios)')


def check_marker_balance(ctx, pid):
    from . import gendrive
    gendrive.report(
        ctx, pid, kinds={'marker-discipline', 'marker-without-flag',
                         'marker-attribution', 'marker-gap'},
        rule_suffix='marker-discipline',
        rule_text='debug markers emitted by every generator are properly '
                  'nested in emission order, absent with the flag off, and '
                  'each clause statement of IF/SELECT blocks is bracketed '
                  'exactly once')


def check_restore_targets(ctx, pid):
    from . import gendrive
    gendrive.report(
        ctx, pid, kinds={'restore-target-zero'},
        rule_suffix='restore-line-zero-is-a-target',
        rule_text='RESTORE with the line number 0 as its target compiles '
                  'like RESTORE with any other line number, not like RESTORE '
                  'without a target (relational run of gen_restore_stmt)')


def check_comparison_types(ctx, pid):
    from . import gendrive
    gendrive.report(
        ctx, pid, kinds={'comparison-common-type'},
        rule_suffix='comparison-uses-the-arithmetic-common-type',
        rule_text='for every pair of numeric operand types, the code '
                  'emitted for a comparison converts its operands to the '
                  'same common type as the code emitted for + on the same '
                  'operands (relational run of gen_binary_op)')


def check_exit_admission(ctx, pid):
    from . import gendrive
    gendrive.report(
        ctx, pid, kinds={'valid-node-rejected', 'invalid-node-accepted'},
        rule_suffix='admission-matches-the-language-rule',
        rule_text='the passes, interpreted on abstract nodes, accept what '
                  'the language allows and reject what it forbids: EXIT FOR '
                  '/ EXIT DO exactly when a loop of their kind is open '
                  'anywhere up the block stack; a whole-array argument '
                  'exactly when its element type equals the parameter\'s '
                  '(arrays are passed by reference)')


def check_exit_targets(ctx, pid):
    from . import gendrive
    gendrive.report(
        ctx, pid, kinds={'exit-target'}, rule_suffix='exit-leaves-innermost-loop',
        rule_text='EXIT FOR / EXIT DO, generated inside nested loops of '
                  'both kinds, jumps to the exit label of the innermost '
                  'enclosing loop of its own kind (abstract run of the '
                  'generator on a block stack with two candidates)')


def check_input_prompt(ctx, pid):
    from . import gendrive
    gendrive.report(
        ctx, pid, kinds={'prompt-dependent-code'},
        rule_suffix='prompt-text-does-not-steer-code',
        rule_text='two INPUT statements that differ only in the text of the '
                  'prompt literal compile to the same instructions up to '
                  'that literal (the question mark and same-line flags come '
                  'from the separators, not from the text)')


def check_print_items(ctx, pid):
    from . import gendrive
    gendrive.report(
        ctx, pid, kinds={'print-items'}, rule_suffix='print-items',
        rule_text='gen_print_stmt hands the device one tagged entry per '
                  'item of the statement, in source order; only semicolons '
                  '(which print nothing) may be elided, never a value or a '
                  'comma (abstract run over item-list shapes)')


def check_flag_equivalence(ctx, pid):
    from . import gendrive
    gendrive.report(
        ctx, pid, kinds={'flag-changes-code'},
        rule_suffix='flag-equivalence',
        rule_text='for every scenario the instruction sequence emitted with '
                  'debug info equals the one emitted without it after '
                  'removing pseudo-instructions')
