"""Regenerates the seeded-changes table of DESIGN.md (between the
SEEDTABLE markers) from /verif/seeded/*/meta.json."""
import json
import re
from pathlib import Path

rows = []
for d in sorted(Path('seeded').iterdir()):
    p = d / 'meta.json'
    if not p.exists():
        continue
    m = json.load(open(p))
    rules = []
    for pid, keys in sorted(m.get('detected_by', {}).items()):
        for k in keys[:1]:
            r = k.split(':')[0]
            rules.append(r)
    first = ''
    if m.get('round', 1) >= 2:
        fp = m.get('first_pass', {})
        first = 'yes' if fp.get('detected') else 'no'
    what = m['summary'].split('. ')[0][:150].replace('|', '/')
    rows.append((d.name, m['property'], ', '.join(m['files']), what,
                 first, ', '.join(sorted(set(rules))) or '— (missed)'))
out = ['| seed | written for | file | change (first sentence of the author\'s summary) | caught at first pass (rounds 2-5) | reported by |',
       '|---|---|---|---|---|---|']
for r in rows:
    out.append('| ' + ' | '.join(r) + ' |')
txt = '\n'.join(out)
s = open('DESIGN.md').read()
s = re.sub(r'<!-- SEEDTABLE -->.*?<!-- /SEEDTABLE -->',
           '<!-- SEEDTABLE -->\n' + txt.replace('\\', '\\\\') + '\n<!-- /SEEDTABLE -->', s, flags=re.S)
open('DESIGN.md', 'w').write(s)
n1 = [r for r in rows if r[4] == '']
n2 = [r for r in rows if r[4] != '']
print('round1', len(n1), 'caught', sum(1 for r in n1 if 'missed' not in r[5]))
print('rounds2+3', len(n2), 'first-pass', sum(1 for r in n2 if r[4] == 'yes'),
      'now', sum(1 for r in n2 if 'missed' not in r[5]))
