"""One-off helper used after each seeding round: copies confirmed mutants
from <round dir>/out into /verif/seeded with a meta.json.
usage: add_seeds.py <round dir> <round no> <first-pass log> <final log>"""
import ast
import json
import re
import shutil
import sys
from pathlib import Path

rd, rnd, first_log, final_log = Path(sys.argv[1]), int(sys.argv[2]), \
    sys.argv[3], sys.argv[4]
conf = {}
for p in sorted(rd.glob('confirm*.json')):
    conf.update(json.load(open(p)))


def parse(log):
    out = {}
    for line in open(log):
        m = re.match(r'(C\d\d_\d) (FIRED|missed) (\{.*?\})\s*(BROKEN.*)?$',
                     line.strip())
        if m:
            d = ast.literal_eval(m.group(3))
            if 'ERR' in d:
                out[m.group(1)] = 'did not apply'
            elif m.group(4):
                out[m.group(1)] = 'analysis error (exit 2): ' + m.group(4)
            else:
                out[m.group(1)] = d
    return out


first, final = parse(first_log), parse(final_log)
n = 0
for d in sorted((rd / 'out').iterdir()):
    name = d.name
    if not (d / 'meta.json').exists() or name not in conf:
        print('skip', name)
        continue
    c = conf[name]
    ok = c.get('apply_rc') == 0 and c['demo_clean_rc'] == 0 and \
        c.get('demo_mutant_rc') not in (0, None) and c.get('suite_rc') == 0
    if not ok:
        print('NOT CONFIRMED', name, {k: c.get(k) for k in (
            'apply_rc', 'demo_clean_rc', 'demo_mutant_rc', 'suite_rc')})
        continue
    src = json.load(open(d / 'meta.json'))
    out = Path('seeded') / name
    out.mkdir(exist_ok=True)
    shutil.copy(d / 'patch.diff', out / 'patch.diff')
    shutil.copy(d / 'demo.py', out / 'demo.py')
    fp = first.get(name)
    meta = {
        'property': src['property'], 'round': rnd,
        'origin': 'fresh sub-agent given only the property text, the '
                  'one-line summaries of the earlier seeds for that '
                  'property (to avoid duplicates) and a scratch worktree '
                  'of /repo (nothing from /verif)',
        'summary': src['summary'], 'needs': src['needs'],
        'files': src['files'],
        'confirmed': {
            'how': 'scratch worktree of /repo at HEAD: demo.py on the '
                   'clean tree, git apply patch.diff, demo.py again, then '
                   'the pinned suite command from /root/.vp/BASELINE.json '
                   '(with -n 8)',
            'patch_applies': True,
            'demo_on_clean_tree_rc': c['demo_clean_rc'],
            'demo_on_mutant_rc': c['demo_mutant_rc'],
            'demo_on_mutant_tail': c['demo_mutant_tail'][-300:],
            'suite_on_mutant': c['suite_tail']},
        'first_pass': {
            'detected': isinstance(fp, dict) and bool(fp),
            'detected_by': fp if isinstance(fp, dict) else {},
            'note': fp if isinstance(fp, str) else
            'checks as they stood when the seed arrived'},
        'detected_by': final.get(name, {}) if isinstance(
            final.get(name), dict) else {},
        'detected': isinstance(final.get(name), dict) and
        bool(final.get(name))}
    json.dump(meta, open(out / 'meta.json', 'w'), indent=1)
    n += 1
print(n, 'seeds written')
