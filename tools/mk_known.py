"""One-off helper: dump the findings of every check on the current tree as
candidate entries for known_findings.json (hand-curated afterwards; the
checks themselves never write that file)."""
import json, sys, subprocess
sys.path.insert(0, '.')
from qbstatic.model import Repo
from qbstatic.report import Ctx
from qbstatic.check import CLAIMED
import importlib
repo = Repo()
out = []
for pid in CLAIMED:
    mod = importlib.import_module(f'qbstatic.props.{pid.lower()}')
    ctx = Ctx(pid, 'thorough', repo)
    mod.run(ctx)
    for f in ctx.findings:
        out.append({'property': pid, 'key': f.key, 'what': f.message,
                    'where': f'{f.file}:{f.line}'})
json.dump(out, sys.stdout, indent=1)
