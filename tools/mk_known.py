"""Re-derives the findings of every check on the CURRENT tree and writes
known_findings.json, attaching the hand-confirmed witness to each.  A finding
that matches no witness line is NOT written (it must be triaged by hand
first); the tool prints it and exits 1.  Run by hand only -- the registered
checks never write known_findings.json."""
import importlib
import json
import subprocess
import sys

sys.path.insert(0, '.')
from qbstatic.model import Repo          # noqa: E402
from qbstatic.report import Ctx          # noqa: E402
from qbstatic.check import CLAIMED       # noqa: E402

# (key fragment, confirmed witness).  First match wins.
WIT = [
 ('fold-site-guarded:qbee/qvm_codegen.py:gen_lvalue', 'SUB foo / PRINT x / END SUB / CONST x = 1/0  -> ZeroDivisionError in gen_lvalue'),
 ('fold-site-guarded:qbee/stmt.py', 'DIM a(1/0) -> ZeroDivisionError in Pass2.process_dim_pre'),
 ('fold-site-guarded:qvm/debug_info.py', 'CONST c = 1/0 compiled with -g -> ZeroDivisionError while building debug info'),
 ('.type-obligation-discharged', 'e.g. IF "a" THEN PRINT 1 / FOR i = 1 TO "a" / COLOR "a" / SOUND "a",1 / DIM a("x") / BLOAD "x","y" / DEF SEG = "a" / RANDOMIZE "a" / LOCATE 1,1,"a" / DO WHILE "a" -> KeyError conv$% (or TypeError) in the compiler'),
 ('.one-cell-per-parameter', 'SUB f(x AS t) with a two-field record, CALL f(r) -> IndexError in _exec_frame'),
 ('statement-dispatch-exhaustive:qbee/grammar.py:stmt:elseif_stmt', 'IF x THEN / FOR i = 1 TO 2 / ELSEIF x THEN / NEXT / END IF -> InternalError'),
 ('statement-dispatch-exhaustive:qbee/grammar.py:stmt:else_stmt', 'IF x THEN / FOR i = 1 TO 2 / ELSE / NEXT / END IF -> InternalError'),
 ('statement-dispatch-exhaustive:qbee/grammar.py:stmt:type_field_decl', 'x AS INTEGER (outside TYPE) -> InternalError'),
 ('statement-dispatch-exhaustive:qbee/grammar.py:stmt:case_stmt', 'CASE 1 (outside SELECT) -> AttributeError'),
 ('restore-label-lookup-total', 'a: / RESTORE a (label without DATA) -> ValueError'),
 ('compile-time-partial-operation', 'x& = 1D400 at -O2 -> OverflowError in QvmCode.optimize'),
 ('nothing-traps-outside-tick-try', 'ON ERROR RESUME NEXT / x = 1 / 0 compiled without -g -> Trapped escapes run()'),
 ('handlers-raise-only-mapped-exceptions', 'PRINT USING "&"; 5 -> RuntimeError'),
 ('none-initialised-state-guarded:qvm/machine.py', 'x = PEEK(5) with the default segment -> TypeError (format of None)'),
 ('partial-operation-unmapped:qvm/cpu.py:QvmCpu._exec_cint', 'x# = 1D400 : y# = x# - x# : z% = CINT(y#) -> ValueError (NaN); the OverflowError case (CINT(1D400)) is fixed'),
 ('partial-operation-unmapped:qvm/cpu.py:QvmCpu._exec_clng', 'x# = 1D400 : y# = x# - x# : z& = CLNG(y#) -> ValueError (NaN)'),
 ('partial-operation-unmapped:qvm/cpu.py:QvmCpu._exec_int', 'x# = 1D400 : y# = x# - x# : z& = INT(y#) -> ValueError (NaN)'),
 ('partial-operation-unmapped:qvm/cpu.py:conv-family', 'x# = 1D400 : y# = x# - x# : z% = y# -> ValueError (NaN)'),
 ('partial-operation-unmapped:qvm/cpu.py:QvmCpu._exec_exp', 'x# = -8 : y# = x# ^ 0.5# -> TypeError (complex result); the OverflowError case (10 ^ 5000) is fixed'),
 ('partial-operation-unmapped:qvm/cpu.py:QvmCpu._exec_strrep', 'PRINT STRING$(3, 300) -> ValueError'),
 ('partial-operation-unmapped:qvm/machine.py:TerminalDevice._exec_print', 'PRINT USING "##"; -> IndexError'),
 ('line-end-guard-siblings-agree', 'PRINT USING "##"; -> IndexError'),
 ('partial-results-discarded', 'ON ERROR GOTO h / x = 5 + a(9) / ... h: RESUME NEXT -> 5.0 stays on the operand stack'),
 ('only-evaluation-errors-escape:qbee/expr.py:BinaryOp._eval_numeric.limit', 'debugger: print 32767% + 1% -> OverflowError'),
 ('only-evaluation-errors-escape:qbee/expr.py:Expr.eval', 'debugger: print len("a") -> InternalError'),
 ('only-evaluation-errors-escape:qbee/expr.py:Lvalue.type', 'debugger: print x.y + 1 (x not a record) -> CompileError'),
 ('only-evaluation-errors-escape:qvm/eval.py', 'debugger: print k(1) (k a CONST) -> ValueError'),
 ('partial-arithmetic-caught', 'debugger: print 1/0 -> ZeroDivisionError'),
 ('frame-state-guarded', 'debugger: continue to the end, then print x -> AttributeError'),
 ('formatter-alphabet-accepted-by-readers', 'PRINT 1D+20 shows 1D+20; INPUT x# answered 1D+20 -> "Redo from start"; DATA 1D+20 : READ x# -> device error'),
 ('parse-action-shape:qbee/grammar.py:parse_bload_stmt', 'BLOAD "x" -> ValueError (not enough values to unpack)'),
 ('parse-action-shape:qbee/grammar.py:parse_right_assoc_binary_expr', 'PRINT 2 ^ -1 -> AssertionError'),
 ('emission:net-effect:qbee/qvm_codegen.py:gen_binary_op', 'a# = 7 : b# = 2 : x# = a# \\ b# : y# = x# + 1# -> machine TYPE_MISMATCH (x# holds a LONG cell: INTDIV/MOD/logical operators on float operands are typed DOUBLE/SINGLE but computed as LONG)'),
 ('emission:consumer-type:qbee/qvm_codegen.py:gen_bload', 'BLOAD 5, 1 -> machine TYPE_MISMATCH (filespec never type-checked)'),
 ('emission:consumer-type:qbee/qvm_codegen.py:gen_bsave', 'BSAVE 5, 1, 1 -> machine TYPE_MISMATCH (filespec never type-checked)'),
 ('emission:consumer-type:qbee/qvm_codegen.py:gen_kill', 'KILL 5 -> machine TYPE_MISMATCH'),
 ('emission:consumer-type:qbee/qvm_codegen.py:gen_loop', 'x = 1.5 : DO : LOOP WHILE x -> machine TYPE_MISMATCH (LOOP WHILE/UNTIL condition is not converted to INTEGER)'),
 ('emission:handler-host-exception:qbee/qvm_codegen.py:gen_print_stmt', 'PRINT USING "##"; -> IndexError in _exec_print'),
 ('generator-total:generator-raises:qbee/qvm_codegen.py:gen_binary_op', 'x = 1 + ("a" * 2) -> ValueError in gen_code_for_conv: Type.__eq__ makes `== Type.UNKNOWN` always False, so the UNKNOWN-type check of process_binary_op_pre never fires'),
]

# fixed: (property, commit subject fragment, key, what failed)
FIXED = [
 ('C02', 'fold a comparison of two constant strings', 'C02.string-folder-distinguishes-comparisons:qbee/expr.py:BinaryOp._eval_string:operator-tested', 'PRINT "a" < "b" at -O1/-O2: ValueError invalid literal for int() \'ab\' in the compiler (the folder concatenated the operands of a string comparison); fine at -O0'),
 ('C02', 'fold constant comparisons in the common type', 'C02.comparison-folded-in-operand-type:qbee/expr.py:BinaryOp._eval_numeric:coerce(self.left.eval())', 'PRINT 1.2 < 1.4 printed 0 at -O1/-O2 and -1 at -O0 (operands coerced to the INTEGER result type before comparing); PRINT 2.5# = 2.4# printed -1; same in CONST and in the debugger print command'),
 ('C02', 'detect LONG overflow', 'C02.fold-range-equals-runtime-range:qbee/expr.py:BinaryOp._eval_numeric.limit[LONG]', 'x& = 2147483647 + 1 at -O1: folded with 64-bit c_long, bytes(code) raised struct.error'),
 ('C04', 'readidx writes the default', 'C04.default-written-where-read:qvm/cpu.py:_exec_readidx*-family', 'r.b = 7 : PRINT q.b : PRINT r.b printed 0 (default written to idx instead of var+idx)'),
 ('C06', 'LOCATE with a row', 'C06.optional-children-guarded:qbee/qvm_codegen.py:gen_locate_stmt:node.col', 'LOCATE 5 -> InternalError'),
 ('C07', 'ERR is 0 before', 'C07.none-initialised-state-guarded:qvm/cpu.py:QvmCpu._exec_errget:self.last_trap.value', 'PRINT ERR before any error -> AttributeError'),
 ('C09', 'decode string literal operands', 'C09.codec-agreement:qvm/instrs.py:def_instr[push$]', 'push$ index encoded >H, decoded >h by the CPU'),
 ('C09', 'write the DATA item count', 'C09.section-writer-reader-agreement:qbee/qvm_codegen.py:QvmCode.__bytes__:data[depth1]', 'DATA item count written >h, read >H'),
 ('C10', 'record the failing address', 'C10.failing-address-recorded:qvm/cpu.py:QvmCpu.tick:_trap(TrapCode.DIVISION_BY_ZERO)', 'x = 5 + 1 / y under ON ERROR GOTO + RESUME NEXT -> CANNOT_RESUME'),
 ('C15', 'RESTORE without a label', 'C15.restore-operand-valid-part-index:qbee/qvm_codegen.py:gen_restore_stmt:plain-restore', 'plain RESTORE pushed -1 and rewound to the LAST data part'),
 ('C10', 'leave error-handling mode', 'C10.resume-targets:qvm/cpu.py:QvmCpu._exec_errres:leaves-handler-mode', 'after the first RESUME every later error was fatal and ret trapped NO_RESUME'),
 ('C10', 'leave error-handling mode', 'C10.resume-targets:qvm/cpu.py:QvmCpu._exec_errresn:leaves-handler-mode', 'same, RESUME NEXT'),
 ('C18', 'INPUT pushes values only after', 'C18.no-push-before-reject:qvm/machine.py:TerminalDevice._exec_input.push_vars', 'INPUT a%, b% answered "x,5" then "1,2" left 5 on the operand stack'),
 ('C06', 'signs after ^', 'C06.parse-action-shape:qbee/grammar.py:parse_right_assoc_binary_expr:AssertionError', 'PRINT 2 ^ -1 -> AssertionError out of parse_string'),
 ('C07', 'STRING$ with a character code', 'C07.partial-operation-unmapped:qvm/cpu.py:QvmCpu._exec_strrep:bytes', 'PRINT STRING$(3, 300) -> ValueError'),
 ('C07', 'numeric overflow inside an instruction', 'C07.partial-operation-unmapped:qvm/cpu.py:QvmCpu._exec_cint:int-round', 'x# = 1D400 : y% = CINT(x#) -> OverflowError escaped run() (same for CLNG, INT, the conv family and x# ^ 5000); the NaN / complex cases of these keys remain known findings'),
 ('C06', 'peephole rounds only values', 'C06.compile-time-partial-operation:qbee/qvm_codegen.py:QvmCode.optimize:round(push-operand)', 'x& = 1D400 at -O2 -> OverflowError in QvmCode.optimize'),
 ('C07', 'PEEK outside the supported', 'C07.none-initialised-state-guarded:qvm/machine.py:BasePeripheralsImpl.memory_peek:self.cur_segment:format-spec', 'x = PEEK(5) with the default segment -> TypeError formatting None'),
 ('C06', 'binary operation of unknown type', 'C06.generator-total:generator-raises:qbee/qvm_codegen.py:gen_binary_op:ValueError', 'x = 1 + ("a" * 2) -> ValueError in gen_code_for_conv (dead == Type.UNKNOWN check)'),
 ('C16', 'accept the D exponent', 'C16.formatter-alphabet-accepted-by-readers:qvm/utils.py:format_number:marker[D]:DataDevice._exec_read', 'DATA 1D+20 : READ x# -> device error'),
 ('C16', 'accept the D exponent', 'C16.formatter-alphabet-accepted-by-readers:qvm/utils.py:format_number:marker[D]:TerminalDevice._exec_input', 'INPUT x# answered 1D+20 (what PRINT shows) -> Redo from start'),
 ('C13', 'missing frame and an indexed CONST', 'C13.only-evaluation-errors-escape:qvm/eval.py:QvmEval.eval_lvalue:raise ValueError', 'debugger: print k(1) (k a CONST) -> ValueError'),
 ('C13', 'missing frame and an indexed CONST', 'C13.frame-state-guarded:qvm/eval.py:QvmEval.eval_lvalue:self.cpu.cur_frame.code_start', 'debugger: continue to the end, then print x -> AttributeError'),
 ('C13', 'print in the debugger reports', 'C13.only-evaluation-errors-escape:qbee/expr.py:Expr.eval:raise InternalError', 'debugger: print len("a") -> InternalError'),
 ('C13', 'print in the debugger reports', 'C13.only-evaluation-errors-escape:qbee/expr.py:Lvalue.type:raise CompileError', 'debugger: print x.y + 1 -> CompileError'),
 ('C13', 'print in the debugger reports', 'C13.only-evaluation-errors-escape:qbee/expr.py:BinaryOp._eval_numeric.limit:raise OverflowError', 'debugger: print 32767% + 1% -> OverflowError'),
 ('C13', 'print in the debugger reports', 'C13.partial-arithmetic-caught:qbee/expr.py:BinaryOp._eval_numeric:partial-arithmetic', 'debugger: print 1/0 -> ZeroDivisionError'),
 ('C02', 'rounds before the range test again', 'C02.conv-fold-range-guard:qbee/qvm_codegen.py:QvmCode.optimize:conv-fold:tested-value-is-pushed', 'x& = 2147483647.6# at -O2 -> struct.error in bytes(code): a regression introduced by my own earlier fix a4141a2 (rounding moved after the can_hold test), found by the tested-value-is-pushed rule'),
 ('C14', 'DEFtype letter ranges ignore the case', 'C14.deftype-letter-range-ignores-case:qbee/grammar.py:parse_deftype:a-C', 'DEFINT a-C : b = 2.6 : PRINT b printed 2.6 (empty range); DEFINT A-c made every letter from a to z an INTEGER'),
 ('C14', 'DEFtype letter ranges ignore the case', 'C14.deftype-letter-range-ignores-case:qbee/grammar.py:parse_deftype:A-c', 'DEFINT A-c : z = 2.6 : PRINT z printed 3'),
 ('C11', 'end statement starts after the child that ends last', 'C11.block-records-span-first-to-last-child-instruction:qvm/debug_info.py:DebugInfo.finalize:a child that encloses a later-starting, earlier-ending one (single-line IF with a statement inside)', 'WHILE x < 3 / ... / IF x = 2 THEN PRINT "b" / WEND compiled with -g: the WEND record started at the end of the inner PRINT (84) inside the IF record 64-89, so the tail of the IF was attributed to the WEND line (overlapping, non-nested ranges)'),
]


def sha(msg):
    o = subprocess.check_output(['git', '-C', '/repo', 'log',
                                 '--format=%h %s']).decode().splitlines()
    for l in o:
        if msg in l:
            return l.split()[0]
    raise SystemExit(f'fix commit not found: {msg}')


def main():
    repo = Repo()
    out, untriaged = [], []
    for pid in CLAIMED:
        mod = importlib.import_module(f'qbstatic.props.{pid.lower()}')
        ctx = Ctx(pid, 'thorough', repo)
        mod.run(ctx)
        for f in ctx.findings:
            w = next((wit for frag, wit in WIT if frag in f.key), None)
            if w is None:
                untriaged.append((pid, f.key, f.message))
                continue
            out.append({'property': pid, 'key': f.key, 'what': f.message,
                        'witness': w})
    doc = {'_comment': 'Genuine defects of elektito/qbee found by the '
           'checks. "findings" are recorded (not repaired) and suppress '
           'only the exact rule:construct key; "fixed" entries suppress '
           'nothing.',
           'findings': out,
           'fixed': [{'property': p, 'commit': sha(c), 'key': k, 'what': w,
                      'line': f'fixed: property={p} {sha(c)} {w}'}
                     for p, c, k, w in FIXED]}
    if '--write' in sys.argv:
        json.dump(doc, open('known_findings.json', 'w'), indent=1)
    print(len(out), 'findings,', len(FIXED), 'fixed')
    for u in untriaged:
        print('UNTRIAGED', u)
    sys.exit(1 if untriaged else 0)


main()
