"""Self-test harness: run the checks against mutated scratch copies of the
repository kept outside /repo and /verif.

Not a registered check.  usage:
    /venv/bin/python -m selftest.run [--only NAME] [--jobs N]
"""
import ast
import json
import os
import re
import shutil
import subprocess
import sys
import tempfile
from pathlib import Path

VERIF = Path(__file__).resolve().parent.parent
REPO = Path(os.environ.get('QBEE_REPO_ORIG', '/repo'))
PY = '/venv/bin/python'


def scratch_copy():
    d = Path(tempfile.mkdtemp(prefix='qbverif-'))
    for pkg in ('qbee', 'qvm'):
        shutil.copytree(REPO / pkg, d / pkg,
                        ignore=shutil.ignore_patterns('__pycache__'))
    return d


def run_checks(root, pids, tier='quick'):
    """Returns {pid: (rc, [violation keys], output)}."""
    ev = Path(root) / '_ev'
    env = dict(os.environ, QBEE_REPO=str(root), QB_EVIDENCE_DIR=str(ev),
               PYTHONPATH=str(VERIF))
    out = {}
    for pid in pids:
        p = subprocess.run([PY, '-m', 'qbstatic.check', pid, '--tier', tier],
                           cwd=VERIF, env=env, capture_output=True,
                           text=True)
        keys = re.findall(r'^  \[([^\]]+)\]', p.stdout, re.M)
        # keys contain ']' inside sometimes (def_instr[push$]); re-extract
        keys = []
        for line in p.stdout.splitlines():
            if line.startswith('  [') and '] ' in line:
                keys.append(line[3:line.rindex('] ', 0, _key_end(line))])
        out[pid] = (p.returncode, keys, p.stdout + p.stderr)
    return out


def _key_end(line):
    # the key ends at the first '] ' that is followed by a file:line
    m = re.search(r'\] (?:\S+\.py:\d+|\?|None:None|\S+:\d+): ', line)
    return m.start() + 2 if m else len(line)


def apply_edits(root, edits):
    for rel, old, new in edits:
        p = Path(root) / rel
        s = p.read_text()
        if s.count(old) < 1:
            raise RuntimeError(f'edit does not apply: {rel}: {old[:50]!r}')
        p.write_text(s.replace(old, new, 1))


def apply_patch(root, patch_path):
    p = subprocess.run(['patch', '-p1', '-s', '-i', str(patch_path)],
                       cwd=root, capture_output=True, text=True)
    if p.returncode != 0:
        raise RuntimeError(f'patch failed: {p.stdout}{p.stderr}')


def compiles(root):
    for p in Path(root).rglob('*.py'):
        try:
            ast.parse(p.read_text())
        except SyntaxError as e:
            return False, f'{p}: {e}'
    return True, ''


# ---------------------------------------------------------------------------
# behaviour-preserving transformations (silent twins)

def twin_unparse(root):
    for p in Path(root).rglob('*.py'):
        p.write_text(ast.unparse(ast.parse(p.read_text())) + '\n')


class _Renamer(ast.NodeTransformer):
    """Renames function-local variables (not parameters, not names used by
    nested scopes, not globals) by appending a suffix."""

    def __init__(self):
        self.stack = []

    def _locals(self, fn):
        params = {a.arg for a in fn.args.args + fn.args.kwonlyargs +
                  fn.args.posonlyargs}
        if fn.args.vararg:
            params.add(fn.args.vararg.arg)
        if fn.args.kwarg:
            params.add(fn.args.kwarg.arg)
        stores = set()
        banned = set()
        nested_names = set()

        def walk(node, top):
            for ch in ast.iter_child_nodes(node):
                if isinstance(ch, (ast.FunctionDef, ast.AsyncFunctionDef,
                                   ast.Lambda, ast.ClassDef)):
                    if isinstance(ch, (ast.FunctionDef, ast.ClassDef,
                                       ast.AsyncFunctionDef)):
                        banned.add(ch.name)
                    for n in ast.walk(ch):
                        if isinstance(n, ast.Name):
                            nested_names.add(n.id)
                    continue
                if isinstance(ch, (ast.Global, ast.Nonlocal)):
                    banned.update(ch.names)
                if isinstance(ch, ast.Name) and isinstance(ch.ctx,
                                                           ast.Store):
                    stores.add(ch.id)
                if isinstance(ch, (ast.ListComp, ast.SetComp, ast.DictComp,
                                   ast.GeneratorExp)):
                    for n in ast.walk(ch):
                        if isinstance(n, ast.Name):
                            nested_names.add(n.id)
                    continue
                if isinstance(ch, ast.ExceptHandler) and ch.name:
                    banned.add(ch.name)
                if isinstance(ch, ast.NamedExpr):
                    banned.add(ch.target.id)
                walk(ch, False)
        walk(fn, True)
        return {n for n in stores
                if n not in params and n not in banned and
                n not in nested_names and not n.startswith('__')}

    def visit_FunctionDef(self, node):
        # only rename in innermost-free functions: compute locals, rename
        # occurrences at this level only
        loc = self._locals(node)
        mapping = {n: n + '_rn' for n in loc}
        self._rename_level(node, mapping)
        # recurse into nested defs
        for ch in ast.walk(node):
            if ch is not node and isinstance(ch, ast.FunctionDef):
                pass
        self.generic_visit(node)
        return node

    def _rename_level(self, fn, mapping):
        def walk(node):
            for ch in ast.iter_child_nodes(node):
                if isinstance(ch, (ast.FunctionDef, ast.AsyncFunctionDef,
                                   ast.Lambda, ast.ClassDef, ast.ListComp,
                                   ast.SetComp, ast.DictComp,
                                   ast.GeneratorExp)):
                    continue
                if node is fn and (ch in fn.decorator_list or
                                   ch is fn.args or ch is fn.returns):
                    # evaluated in the enclosing scope
                    continue
                if isinstance(ch, ast.Name) and ch.id in mapping:
                    ch.id = mapping[ch.id]
                walk(ch)
        walk(fn)


def twin_rename_locals(root):
    for p in Path(root).rglob('*.py'):
        tree = ast.parse(p.read_text())
        _Renamer().visit(tree)
        p.write_text(ast.unparse(tree) + '\n')


def twin_reorder_methods(root):
    for p in Path(root).rglob('*.py'):
        tree = ast.parse(p.read_text())
        for node in ast.walk(tree):
            if isinstance(node, ast.ClassDef):
                fns = [s for s in node.body if isinstance(s, ast.FunctionDef)]
                others = [s for s in node.body
                          if not isinstance(s, ast.FunctionDef)]
                # keep property/setter pairs in order: reverse only plain
                names = [f.name for f in fns]
                if len(set(names)) == len(names):
                    node.body = others + list(reversed(fns))
        p.write_text(ast.unparse(tree) + '\n')


def twin_add_logging(root):
    """Insert a harmless logging call at the top of every function that is
    in a module with a module-level `logger`."""
    for p in Path(root).rglob('*.py'):
        src = p.read_text()
        if '\nlogger = logging.getLogger' not in src:
            continue
        tree = ast.parse(src)
        for node in ast.walk(tree):
            if isinstance(node, ast.FunctionDef) and node.body and \
                    node.name not in ('method',):
                stmt = ast.parse("logger.debug('enter')").body[0]
                k = 1 if (isinstance(node.body[0], ast.Expr) and
                          isinstance(node.body[0].value, ast.Constant)) \
                    else 0
                node.body.insert(k, stmt)
        p.write_text(ast.unparse(tree) + '\n')


def twin_swap_compare(root):
    """`a == b` -> `b == a` and `a != b` -> `b != a` for single
    comparisons of side-effect-free operands (names, attributes, constants,
    subscripts of those)."""
    def pure(e):
        return all(isinstance(x, (ast.Name, ast.Attribute, ast.Constant,
                                  ast.Subscript, ast.Load, ast.Index,
                                  ast.UnaryOp, ast.USub, ast.Tuple,
                                  ast.List))
                   for x in ast.walk(e))

    class T(ast.NodeTransformer):
        def visit_Compare(self, node):
            self.generic_visit(node)
            if len(node.ops) == 1 and isinstance(node.ops[0],
                                                 (ast.Eq, ast.NotEq)) and \
                    pure(node.left) and pure(node.comparators[0]):
                node.left, node.comparators[0] = \
                    node.comparators[0], node.left
            return node
    for p in Path(root).rglob('*.py'):
        tree = ast.parse(p.read_text())
        T().visit(tree)
        p.write_text(ast.unparse(tree) + '\n')


def twin_expand_augassign(root):
    """`x += e` -> `x = x + e` for plain local names and attributes of
    self with immutable arithmetic (only Add/Sub on names bound to numbers
    or strings is semantics-preserving in general; restricted to targets
    that are plain names or `self.attr`, and to - and + with a constant or
    name on the right)."""
    class T(ast.NodeTransformer):
        def visit_AugAssign(self, node):
            self.generic_visit(node)
            if isinstance(node.op, (ast.Add, ast.Sub)) and \
                    isinstance(node.target, ast.Name) and \
                    isinstance(node.value, ast.Constant) and \
                    isinstance(node.value.value, int):
                load = ast.Name(id=node.target.id, ctx=ast.Load())
                return ast.copy_location(ast.Assign(
                    targets=[node.target],
                    value=ast.BinOp(left=load, op=node.op,
                                    right=node.value)), node)
            return node
    for p in Path(root).rglob('*.py'):
        tree = ast.parse(p.read_text())
        T().visit(tree)
        ast.fix_missing_locations(tree)
        p.write_text(ast.unparse(tree) + '\n')


def twin_invert_if(root):
    """`if c: A else: B` -> `if not c: B else: A` for plain two-armed ifs
    (no elif chain on either side)."""
    class T(ast.NodeTransformer):
        def visit_If(self, node):
            self.generic_visit(node)
            if node.orelse and not (len(node.orelse) == 1 and
                                    isinstance(node.orelse[0], ast.If)) \
                    and not (len(node.body) == 1 and
                             isinstance(node.body[0], ast.If)):
                parent_is_elif = False
                node.test = ast.UnaryOp(op=ast.Not(), operand=node.test)
                node.body, node.orelse = node.orelse, node.body
            return node
    for p in Path(root).rglob('*.py'):
        tree = ast.parse(p.read_text())
        # do not touch ifs that are themselves the elif of another if
        elifs = set()
        for n in ast.walk(tree):
            if isinstance(n, ast.If) and len(n.orelse) == 1 and \
                    isinstance(n.orelse[0], ast.If):
                elifs.add(id(n.orelse[0]))

        class T2(T):
            def visit_If(self, node):
                if id(node) in elifs:
                    self.generic_visit(node)
                    return node
                return T.visit_If(self, node)
        T2().visit(tree)
        ast.fix_missing_locations(tree)
        p.write_text(ast.unparse(tree) + '\n')


def twin_hoist_call_args(root):
    """`f(.., g(x), ..)` as a statement (or `v = f(.., g(x), ..)`) becomes
    `tmp_h1 = g(x)` followed by the call with `tmp_h1`: the first call-valued
    positional argument of a top-level call statement is hoisted into a
    fresh local.  Evaluation order is preserved only when the arguments
    before it are side-effect free names/attributes/constants, so only
    those sites are rewritten."""
    counter = [0]

    def pure(e):
        return all(isinstance(x, (ast.Name, ast.Attribute, ast.Constant,
                                  ast.Load)) for x in ast.walk(e))

    def rewrite_body(body):
        out = []
        for st in body:
            call = None
            if isinstance(st, ast.Expr) and isinstance(st.value, ast.Call):
                call = st.value
            elif isinstance(st, ast.Assign) and \
                    isinstance(st.value, ast.Call) and \
                    len(st.targets) == 1 and \
                    isinstance(st.targets[0], ast.Name):
                call = st.value
            if call is not None and pure(call.func):
                for k, a in enumerate(call.args):
                    if isinstance(a, ast.Starred):
                        break
                    if isinstance(a, ast.Call) and pure(a.func) and all(
                            pure(x) for x in a.args) and not a.keywords:
                        counter[0] += 1
                        name = f'tmp_h{counter[0]}'
                        out.append(ast.copy_location(ast.Assign(
                            targets=[ast.Name(id=name, ctx=ast.Store())],
                            value=a), st))
                        call.args[k] = ast.Name(id=name, ctx=ast.Load())
                        break
                    if not pure(a):
                        break
            out.append(st)
        return out

    for p in Path(root).rglob('*.py'):
        tree = ast.parse(p.read_text())
        for fn in ast.walk(tree):
            if isinstance(fn, ast.FunctionDef):
                for n in ast.walk(fn):
                    for fld in ('body', 'orelse', 'finalbody'):
                        b = getattr(n, fld, None)
                        if isinstance(b, list) and b and \
                                isinstance(b[0], ast.stmt):
                            setattr(n, fld, rewrite_body(b))
        ast.fix_missing_locations(tree)
        p.write_text(ast.unparse(tree) + '\n')


TWINS = {
    'hoist-call-args': twin_hoist_call_args,
    'invert-if': twin_invert_if,
    'swap-compare': twin_swap_compare,
    'expand-augassign': twin_expand_augassign,
    'unparse-roundtrip': twin_unparse,
    'rename-locals': twin_rename_locals,
    'reorder-methods': twin_reorder_methods,
    'add-logging': twin_add_logging,
}
