"""Hand-written mutation corpus: each entry is one edit that still parses;
`expect` lists the properties whose check must fire and `key` a fragment of
the finding key that must name the mutated construct.  Entries with
`silent: True` are behaviour-preserving and must not fire."""
MUTANTS = []


def M(name, expect, edits, key=None, **kw):
    MUTANTS.append(dict(name=name, expect=expect, edits=edits, key=key, **kw))
