"""Self-test runner (not a registered check).

    /venv/bin/python -m selftest.run twins [--suite]
    /venv/bin/python -m selftest.run mutants [--only NAME]
    /venv/bin/python -m selftest.run seeded
"""
import argparse
import json
import shutil
import subprocess
import sys
from concurrent.futures import ThreadPoolExecutor
from pathlib import Path

from . import harness as H
from .corpus import MUTANTS

ALL = ['C01', 'C02', 'C03', 'C04', 'C05', 'C06', 'C07', 'C08', 'C09', 'C10',
       'C11', 'C12', 'C13', 'C14', 'C15', 'C16', 'C17', 'C18', 'C20']


def baseline_keys():
    root = H.scratch_copy()
    try:
        res = H.run_checks(root, ALL)
    finally:
        shutil.rmtree(root, ignore_errors=True)
    return {pid: set(keys) for pid, (rc, keys, out) in res.items()}


def do_twins(args):
    ok = True
    for name, fn in H.TWINS.items():
        if args.only and args.only != name:
            continue
        root = H.scratch_copy()
        try:
            fn(root)
            good, why = H.compiles(root)
            if not good:
                print(f'TWIN {name}: does not parse: {why}')
                ok = False
                continue
            if args.suite:
                shutil.copytree(H.REPO / 'tests', root / 'tests')
                p = subprocess.run(
                    [H.PY, '-m', 'pytest', '-q', '-p', 'no:cacheprovider',
                     '-n', '16', '--timeout=900', '-x'], cwd=root,
                    capture_output=True, text=True)
                print(f'TWIN {name}: suite: {p.stdout.strip().splitlines()[-1]}')
                if p.returncode != 0:
                    ok = False
            res = H.run_checks(root, args.props.split(',') if args.props else ALL, tier=args.tier)
            for pid, (rc, keys, out) in sorted(res.items()):
                if rc != 0:
                    ok = False
                    print(f'TWIN {name}: {pid} rc={rc}')
                    for line in out.splitlines():
                        if line.startswith(('  [', 'ANALYSIS', 'Traceback',
                                            '  File')) or 'Error' in line:
                            print('    ' + line[:220])
            print(f'TWIN {name}: done')
        finally:
            shutil.rmtree(root, ignore_errors=True)
    return ok


def run_mutant(m, tier):
    root = H.scratch_copy()
    try:
        if 'patch' in m:
            H.apply_patch(root, m['patch'])
        else:
            H.apply_edits(root, m['edits'])
        good, why = H.compiles(root)
        if not good:
            return m, None, f'does not parse: {why}'
        res = H.run_checks(root, m.get('check', m['expect']), tier=tier)
        return m, res, None
    except Exception as e:
        return m, None, repr(e)
    finally:
        shutil.rmtree(root, ignore_errors=True)


def do_mutants(args, mutants=None):
    mutants = mutants if mutants is not None else MUTANTS
    if args.only:
        mutants = [m for m in mutants if args.only in m['name']]
    ok = True
    summary = []
    with ThreadPoolExecutor(max_workers=args.jobs) as ex:
        for m, res, err in ex.map(lambda m: run_mutant(m, args.tier),
                                  mutants):
            if err:
                print(f'MUTANT {m["name"]}: ERROR {err}')
                ok = False
                summary.append((m['name'], 'error'))
                continue
            fired = {pid: (rc, keys) for pid, (rc, keys, out) in res.items()
                     if rc == 1}
            broken = {pid: out for pid, (rc, keys, out) in res.items()
                      if rc == 2}
            want = m['expect']
            hit = [pid for pid in want if pid in fired]
            frag = m.get('key')
            named = any(frag in k for pid in hit for k in fired[pid][1]) \
                if frag else True
            status = 'CAUGHT' if hit and named else (
                'caught-unnamed' if hit else 'MISSED')
            if m.get('silent'):
                status = 'SILENT-OK' if not fired and not broken else \
                    'FALSE-ALARM'
            if status in ('MISSED', 'FALSE-ALARM') or broken:
                ok = False
            print(f'MUTANT {m["name"]}: {status} '
                  f'{ {p: k for p, (rc, k) in fired.items()} }'[:400])
            for pid, out in broken.items():
                print(f'   ANALYSIS-ERROR in {pid}: '
                      f'{[l for l in out.splitlines() if "ANALYSIS" in l or "Error" in l][:3]}')
            summary.append((m['name'], status))
    print(json.dumps({'caught': sum(1 for _, s in summary if s == 'CAUGHT'),
                      'silent_ok': sum(1 for _, s in summary
                                       if s == 'SILENT-OK'),
                      'other': [x for x in summary
                                if x[1] not in ('CAUGHT', 'SILENT-OK')]}))
    return ok


def do_seeded(args):
    seeded = []
    for d in sorted((H.VERIF / 'seeded').glob('*/')):
        meta = json.loads((d / 'meta.json').read_text())
        seeded.append({'name': d.name, 'patch': d / 'patch.diff',
                       'expect': [meta['property']],
                       'check': ALL if args.all else [meta['property']]})
    return do_mutants(args, seeded)


def main():
    ap = argparse.ArgumentParser()
    ap.add_argument('what', choices=['twins', 'mutants', 'seeded'])
    ap.add_argument('--only')
    ap.add_argument('--suite', action='store_true')
    ap.add_argument('--all', action='store_true')
    ap.add_argument('--props')
    ap.add_argument('--tier', default='quick')
    ap.add_argument('--jobs', type=int, default=12)
    args = ap.parse_args()
    fn = {'twins': do_twins, 'mutants': do_mutants,
          'seeded': do_seeded}[args.what]
    sys.exit(0 if fn(args) else 1)


if __name__ == '__main__':
    main()
