"""Run every check against each seeded patch found under a directory."""
import json, shutil, sys
from pathlib import Path
from concurrent.futures import ThreadPoolExecutor
from . import harness as H
from .run import ALL

def one(d):
    root = H.scratch_copy()
    try:
        H.apply_patch(root, d / 'patch.diff')
        res = H.run_checks(root, ALL)
        fired = {p: k for p, (rc, k, o) in res.items() if rc == 1}
        broken = [p for p, (rc, k, o) in res.items() if rc == 2]
        return d.name, fired, broken
    except Exception as e:
        return d.name, {'ERR': [repr(e)]}, []
    finally:
        shutil.rmtree(root, ignore_errors=True)

def main():
    base = Path(sys.argv[1])
    only = sys.argv[2:]
    dirs = [d for d in sorted(base.iterdir()) if (d / 'patch.diff').exists()
            and (not only or d.name in only)]
    with ThreadPoolExecutor(4) as ex:
        for name, fired, broken in ex.map(one, dirs):
            print(name, 'FIRED' if fired else 'missed',
                  {p: [k[:90] for k in ks][:3] for p, ks in fired.items()},
                  'BROKEN:' + str(broken) if broken else '')
main()
