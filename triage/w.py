"""Triage helper (NOT a registered check): compile/run a QBASIC snippet
against the real code and print the outcome.  usage: w.py [-O n] [-g] [--run] 'src'"""
import sys, io, traceback, contextlib
import os
ROOT = os.environ.get('QBEE_REPO', '/repo')
sys.path.insert(0, ROOT)
sys.path.insert(0, ROOT + '/tests')
def main():
    args = sys.argv[1:]
    opt = 0; dbg = False; run = False; inputs = []
    while args and args[0].startswith('-'):
        a = args.pop(0)
        if a == '-O': opt = int(args.pop(0))
        elif a == '-g': dbg = True
        elif a == '--run': run = True
        elif a == '--in': inputs.append(args.pop(0))
    src = args[0].replace('\\n', '\n')
    from qbee.compiler import Compiler
    from qbee import qvm_codegen
    from qbee.exceptions import SyntaxError as QSE, CompileError
    try:
        c = Compiler('qvm', optimization_level=opt, debug_info=dbg)
        code = c.compile(src)
        b = bytes(code)
        s = str(code)
        print('COMPILED', len(b), 'bytes')
    except (QSE, CompileError) as e:
        print('DIAG', type(e).__name__, e, 'loc', e.loc_start); return
    except BaseException as e:
        print('CRASH(compile)', type(e).__name__, e); traceback.print_exc(limit=4); return
    if run:
        from qvm.module import QModule
        from qvm.machine import QvmMachine
        from testvm import TestPeripheralsImpl
        class TC: inkey_list=[]; rnd_list=[0.5]*10; timer_list=[1.0]*10
        impl = TestPeripheralsImpl(TC)
        it = iter(inputs)
        impl.terminal_input = lambda same_line: next(it)
        m = QvmMachine(QModule.parse(b), impl=impl)
        try:
            m.run()
            print('RAN halt_reason', m.cpu.halt_reason, 'last_trap', m.cpu.last_trap, 'stack', m.cpu.stack)
            for io_ in impl.io: print('  IO', io_)
        except BaseException as e:
            print('CRASH(run)', type(e).__name__, e); traceback.print_exc(limit=4)
main()
