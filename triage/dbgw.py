"""Triage helper: run debugger commands against a compiled program.
usage: dbgw.py 'src' cmd1 cmd2 ..."""
import sys, traceback
import os
ROOT = os.environ.get('QBEE_REPO', '/repo')
sys.path.insert(0, ROOT); sys.path.insert(0, ROOT + '/tests')
src = sys.argv[1].replace('\\n', '\n')
from qbee.compiler import Compiler
from qbee import qvm_codegen
from qvm.module import QModule
from qvm.machine import QvmMachine
from qvm.dbg import Cmd
from testvm import TestPeripheralsImpl
class TC: inkey_list=[]; rnd_list=[0.5]*10; timer_list=[1.0]*10
c = Compiler('qvm', optimization_level=0, debug_info=True)
b = bytes(c.compile(src))
mod = QModule.parse(b)
impl = TestPeripheralsImpl(TC)
m = QvmMachine(mod, impl=impl)
d = Cmd(m, mod)
for cmdline in sys.argv[2:]:
    print('>>', cmdline)
    try:
        d.onecmd(cmdline)
    except BaseException as e:
        print('CRASH', type(e).__name__, e)
        traceback.print_exc(limit=3)
print('IO', impl.io)
